#!/usr/bin/env python3
"""Regenerates /verif/MANIFEST.json from the table below (kept in one place so it stays valid)."""
import json

TECH = "deterministic simulation (seeded one-task-at-a-time scheduler over a fake clock, instrumented vouch code) with seeded schedule search and fault injection; "

CHECKS = {
 "C01": ("Real attester + signer + attestation-data strategies: 2-12 overlapping Attest runs from 2-4 client tasks over small duty universes (repeated, re-delivered, re-assigned validators), with data/sign/submit faults. Oracle over the signer-side request log: at most one attestation signing request per (validator, epoch); slot/target/source well-formed; nothing signed or submitted for refused data; submitted data equals signed data.",
         "accounts, beacon nodes and submitter are stubs; seeded sampling",
         TECH + "signer-side history oracle"),
 "C02": ("Seeded search over schedules of the real advanced scheduler: 1-4 jobs and 0-6 API calls placed at -5s/-1ns/0/+1ns/+5s of the timer, every lock/select/atomic a recorded scheduling decision; the recorded history is judged by a contract model (exactly once, run-now success implies a run, cancel clearly before, periodic non-overlap and ticking, name reuse). Further clauses: a live job (in particular a periodic one) stays known to JobExists/ListJobs/CancelJob/RunJob and keeps its name taken; of overlapping requests to schedule one name at most one is accepted; a cancelled periodic job starts no further invocation once the one under way has ended.",
         "job functions and callers are stubs; go-deadlock's detector is disabled under go1.26 (modelled locks replace it)",
         TECH + "contract-model oracle over recorded history"),
 "C03": ("Whole-system simulation: real controller, scheduler and chaintime against a simulated chain (seeded duty tables keyed by duty-dependent roots, head/block event streams from 1-2 nodes, reorgs, missed slots, slow/failing duty requests, crash/restart at arbitrary instants, start before/at/after genesis and on epoch boundaries). Oracle: never two executions per (kind, slot, validator) over all incarnations; every execution carries exactly the validators of the duty set last obtained; every obtained future duty is executed at slot start + configured delay (earlier only when fast-tracked); vouch's slot/epoch/time conversions equal the oracle's integer arithmetic at every probe instant. Run with recording duty services (focused) and with the real ones (full). Further clauses: a head event showing changed duty-dependent roots (judged from the events the node delivered) makes vouch request the affected duties again; proposals follow the proposer duties obtained last; a sync committee period lived through has been requested; plans include slow duty requests overlapping reorgs, answers computed at request time, long proposals; an attestation job never stems from an answer that arrived after its slot was over.",
         "beacon nodes, accounts and event streams are stubs; main.go wiring is reproduced by the harness",
         TECH + "history oracle against the duties the node stub actually served"),
 "C04": ("Same component scenario as C01 with content focus: duties with 1-6 validators over 1-3 committees of distinct sizes, subsets already attested / without account / left unsigned, mixed account kinds. Oracle: each submitted attestation is attributed to its validator through the signer log and must carry that validator's committee index, bit position and committee size and the data obtained for the run; validators without signature yield none. Merged duty answers include ones of dozens of entries.",
         "accounts, beacon nodes and submitter are stubs; seeded sampling",
         TECH + "per-validator attribution through the signer log"),
 "C05": ("Real block proposer (Prepare+Propose) + signer over stub proposal providers, auctioneer, relays and submitter: versions phase0..deneb, full and blinded, proposals for the duty slot or another slot, graffiti and auction failures, per-relay unblinding behaviours. Oracle: RANDAO/block signing only for the duty's validator and slot, signed roots recomputed from the obtained block, submitted = signed block, unblinding provenance, degradation instead of skipping. Includes a slot that was prepared for another of vouch's validators first, obtained blocks that name another proposer index (the signer is only ever asked for the duty's validator), relays that give up without a block before a slower relay returns it.",
         "proposal providers, relays, auctioneer and submitter are stubs; seeded sampling",
         TECH + "history oracle with independently recomputed SSZ roots"),
 "C06": ("Real signer driven through all its signing methods with generated messages and batches over all four account kinds, a generated fork schedule and signer faults. Oracle: every returned signature verifies with real BLS under the requested account's key against compute_signing_root built independently from the specification (object root, domain type, fork version of the duty's epoch); batch position i belongs to account i. Includes a specification without the builder domain type, failing domain requests, and the same account twice in one batch with different messages.",
         "the remote signer/accounts are stubs backed by real BLS keys; inputs dominate this property, simulation contributes fork-boundary time, partial signer faults and batch mixtures",
         TECH + "real BLS verification against independently merkleised signing roots"),
 "C07": ("Each of the 14 data strategies alone with 1-5 stub providers whose latencies lie on/around the soft and hard deadline, errors, hangs, providers ignoring cancellation, invalid content by the strategy's stated rules, two sequential calls. Oracle: returns by start+timeout; value is one some provider of this call returned by then and valid; error only without a valid response; best not dominated (one-dimensional dominance); majority count/threshold rules incl. not giving up early; ties at one instant accepted either way. Includes self-consistent data of another epoch, {{CLIENT}} graffiti with client names of any length; a strategy that spins (no simulated time passing) is reported as livelock. Majority variants that share the head and differ in the checkpoints; heads that are the target checkpoint block before the epoch's first slot; ties between equally frequent block roots broken by the slot of their blocks; the cache stub ends a lookup with its context.",
         "providers, chaintime input and block-root cache are stubs; seeded sampling",
         TECH + "response-attribution oracle over stub histories"),
 "C08": ("Real multinode (8 kinds) and immediate submitters with util.Scatter over 1-5 stub nodes: payload 1-40 with concurrency 1-8, accept / reject / tolerated rejection texts in the client libraries' rendering / malformed / slow / hang, instant answers (lost wake-up schedule) and answers at the timeout instant. Oracle: every node offered the full payload exactly once; success iff some node accepted or rejected only for a tolerated reason by the timeout; returns by the timeout; node isolation. Includes earlier submissions with hanging calls on the same service instance, a hanging version query, and the clause that every node is offered the submission the moment it is made (concurrency permitting).",
         "beacon nodes are stubs rendering errors with go-eth2-client's own error types; seeded sampling",
         TECH + "delivery/verdict oracle over stub histories"),
 "C09": ("Real builderbid best/deadline strategies over stub relays signing bids with real BLS: values, builders, timestamps, fee recipients, signature validity, latencies around the deadline, improving bid sequences, equal headers, relay minimums, builder offset/factor/excluded. Oracle: reference eligibility and score from the property statement; winner maximal among eligible bids returned before the return instant; providers offered the winning header; no eligible bid => no winner. A third scenario drives blockrelay.BuilderBid (REST interface) with several beacon nodes asking for one bid: a bid handed out has a positive value. A fourth scenario runs 2-3 auctions per run through the real util.FetchBuilderClient cache and go-builder-client (relay stubs on a loopback socket used as a synchronous call, see DESIGN.md 0.2) with relay addresses that gain, lose or change their public key between auctions.",
         "relays are stubs; seeded sampling",
         TECH + "reference eligibility/score oracle"),
 "C10": ("Real block relay + v1/v2 config parsing fed by a stub configuration source with generated documents (all presence patterns over five levels, ordered proposer entries by key/regex, reset_relays, disabled/added relays). Oracle: independent reference resolver written from docs/, compared field by field with ProposerConfig results; marshal/unmarshal round trip resolves identically.",
         "configuration source, relays and accounts are stubs; resolution is a function of (document, validator) observed over a history of documents",
         TECH + "reference resolver written from the documentation"),
 "C11": ("Real block relay registration rounds and proposal preparer over stub relays/nodes with configuration changes between rounds and partial failures. Oracle: each (validator, relay) registration names the key with the reference-resolved fee recipient and gas limit and is BLS-signed over them; preparations carry the resolved fee recipient; cached registrations only on equal content; failures are isolated. Includes failing domain requests; a failed signature excuses only the relays whose registration content it was for. The builder endpoint pass-through is called with registrations made elsewhere: a relay never receives, for one of vouch's validators, a registration not resolved from the configuration in force.",
         "configuration source, relays, nodes are stubs; seeded sampling",
         TECH + "reference resolver + BLS verification at the receiving stubs"),
 "C12": ("Real block relay under arbitrary sequences of configuration fetch outcomes interleaved with concurrent lookups, auctions, registrations. Oracle: last-good-configuration model; modelled RWMutex (writer preference) detects deadlock and leaked locks; every request returns. Includes relay addresses no client can be made for, gas-only configuration changes; what a round tells a relay stems from a configuration in force during the round.",
         "configuration source and relays are stubs; lock model replaces go-deadlock",
         TECH + "lock-model deadlock/leak detection and last-good-config model"),
 "C13": ("Real wallet and dirk account managers and validators manager with stub wallets/validators provider: specifier lists (plain, wallet-only, regex with/without anchors, traps), validator life cycles swept by simulated time, refresh outcomes (full, partial, empty, error) interleaved with lookups. Oracle: reference model (full match of wallet/account, activation <= e < exit and not slashed, sync eligibility until withdrawable, retain-on-empty).",
         "wallet contents, Dirk servers (through an add-only constructor hook) and validators provider are stubs",
         TECH + "reference account/validator model"),
 "C14": ("Whole-system simulation with the real beacon committee subscriber, attestation aggregator, attester, signer (real BLS), controller and scheduler: duties before/at/after the current slot, several committees per slot, both outcomes of is_aggregator, start-up mid-epoch/on boundaries, reorg refreshes. Oracle: every subscription request contains every duty later than the slot current at submission, entries match the validator's duty, aggregator flag equals the specification's is_aggregator on the signer-logged slot signature, an aggregation runs at slot start + configured delay for every committee with a selected validator and only for selected validators (judged on the subscription info held when the attestation process returned). Includes the first epoch of a chain, attesting that takes time, and a subscription that completes while attesting is under way.",
         "beacon node, accounts provider and event stream are stubs; seeded sampling",
         TECH + "independently implemented specification rules over the signer log"),
 "C15": ("Whole-system simulation with the real sync committee messenger, aggregator, subscriber, controller sync scheduling, signer (real BLS): short periods, start before/at genesis, inside the first period, around a period boundary; a member without account, a withheld signature, head-root failures, missed slots. Oracle: per member and slot of the window exactly one message by slot start + configured delay, BLS-verified over a head root the node returned in that slot; contribution aggregators equal is_sync_committee_aggregator on the recorded selection proof; one member's absence removes only its own messages. Includes reorgs in the first epoch of a period, a start exactly the preparation lead before a period boundary (a period never requested is a violation), a withheld contribution signature, a message signature that fails in one slot only, exited validators still eligible for sync duty (every duties request names every managed member of the period; a completed preparation asked for the member's selection proof).",
         "beacon node, accounts provider and event stream are stubs; contribution content is a stub value",
         TECH + "independently implemented specification rules and real BLS verification"),
 "C16": ("Odd-content fault kind switched on in the whole-system simulation and in component scenarios: nil data and nested pointers, empty lists, duplicate/out-of-range duties, other-slot payloads, nil values, blinded proposal without auction, odd relay addresses, graffiti, configuration shapes. Oracle: no panic/fatal error in any task (every instrumented goroutine runs under a recover wrapper), and the next clean duty completes. Also: odd-shaped execution configuration documents (JSON nodes nulled/emptied/retyped), odd error bodies of rejected submissions, block headers without content, zero or absurd specification values, graffiti sources (blank files, templates, failing source), unobtainable builder clients asked repeatedly.",
         "inputs dominate this property; realised as a fault kind with a crash oracle",
         TECH + "crash oracle (recover wrapper on every task)"),
 "C17": ("Whole-system simulation and focused pairs built with -race and scheduled by the controller, whose park protocol adds no happens-before edge: the Go race detector reports unsynchronised conflicting accesses between vouch's own goroutines under seeded, replayable interleavings. Also judged: outcomes of no sequential order (double attestation by overlapping duty jobs, a second auction for one builder bid, a lookup mixing account states). Races between accesses at different simulated instants are visible (the controller's own timer is bracketed by RaceDisable).",
         "race reports are filtered to pairs of stacks inside vouch; harness accesses use race-invisible critical sections",
         TECH + "Go race detector under a controlled schedule"),
 "C18": ("Real block-root-to-slot cache with the real scheduler (cleaning job) and chaintime over stub event and header providers: block events, hits, misses, concurrent misses, fetch failures/late answers, lookups at the edges of the retention window across cleaning runs. Oracle: reference map; a lookup returns that root's slot or an error iff its fetch failed; entries inside the retention window are still hits. The strategies that rank answers by the slot of a root (attestation data best, block root latest and majority) run against a cache stub: an answer ranked by another slot than its block's is a violation.",
         "events and header providers are stubs; retention window taken from the cache's own comment (64 epochs)",
         TECH + "reference-map oracle"),
 "C20": ("Whole-system simulation run for 21 epochs with steady duties: warm-up, measured window A, fault storm (reorgs withdrawing duties, missed slots), quiet epochs, measured window B at the same phase of the sync committee period. Oracle: size of each bookkeeping structure named in the property (read reflectively) and the live task count at B do not exceed A; HasPendingAttestations(slot) equals 'an attestation job for the slot is outstanding' (from the scheduler seam) at every settled point. Also: a node that never answers (no client timeout), head-root failures (measured one period later), goroutines stalled after ScheduleJob, attestation jobs outlasting the next head event. Strategy goroutines: each of the 14 strategy scenarios of C07 re-judged for one thing only - after every call returned, the timeout passed and every node answered or was cancelled, no goroutine started by the strategy is left.",
         "sizes are read through reflection on unexported fields (a renamed field is harness trouble, exit 2); 12 epochs of warm-up define the accepted fixed window",
         TECH + "steady-state comparison at equal period phase + pending-mark model"),
}

NOT_APPLICABLE = [
 {"property_id": "C19", "reason": "pure function of a static configuration tree and a dotted path: no schedule, clock, fault or second party for a simulator to vary (DESIGN.md section 4)"},
]

def main():
    import os, sys
    claimed = sys.argv[1:] if len(sys.argv) > 1 else []
    if not claimed:
        claimed = [l.strip() for l in open('/verif/CLAIMED').read().split() if l.strip()]
    checks = []
    for pid in sorted(claimed):
        text, note, tech = CHECKS[pid]
        checks.append({
            "property_id": pid,
            "quick_cmd": f"./check {pid} --tier quick",
            "thorough_cmd": f"./check {pid} --tier thorough",
            "evidence_file": f"/verif/evidence/{pid}.json",
            "replay_cmd_template": f"./check {pid} --replay {{path}}",
            "engine": "simrt+vinject",
            "level_claimed": {"category": "exploration", "text": text + " Evidence is proportional to the runs reported, not a proof.", "design_ref": f"DESIGN.md section 3, {pid}"},
            "level_note": note,
            "technique": tech,
        })
    na = list(NOT_APPLICABLE)
    for pid in sorted(CHECKS):
        if pid not in claimed:
            na.append({"property_id": pid, "reason": "not claimed yet: the check for this property is not finished (see DESIGN.md status table)"})
    m = {
        "version": 1,
        "setup_cmd": "./setup.sh",
        "hooks": {
            "guard": "verif-overlay",
            "enable": "instrumentation is generated at check time by /verif/vinject from /repo's working tree into /verif/build/overlay and handed to the compiler with -overlay; add-only hook files live under /verif/hooks and are added to vouch packages through the same overlay; /repo contains no hook code",
            "baseline_off_cmd": "cd /repo && go test -vet=off -count=1 -timeout 25m ./...",
            "source_commits": [],
            "add_only": True,
        },
        "engines": [{"name": "simrt+vinject", "path": "/verif/simrt /verif/vinject /verif/sim /verif/simtest /verif/cmd/check", "serves_properties": sorted(claimed),
                     "kind_free_text": "deterministic simulation: seeded one-task-at-a-time scheduler over testing/synctest (fake clock), AST instrumenter delivering yield points / modelled locks / seeded select and map order through a build overlay, stub environment with fault injection, tape-based replay and shrinking"}],
        "checks": checks,
        "not_applicable": na,
        "notes": "Genuine defects found by these checks were repaired in /repo by 'fix:' commits and are listed in /verif/known_findings.txt.",
    }
    json.dump(m, open('/verif/MANIFEST.json', 'w'), indent=1)
    print("claimed:", " ".join(sorted(claimed)))

if __name__ == "__main__":
    main()
