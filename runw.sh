#!/bin/bash
# usage: runw.sh PROP COUNT [SCENARIO]
export GOFLAGS=-mod=mod GOPROXY=off GOSUMDB=off GOTOOLCHAIN=local PATH=/opt/veriftools/go1.26.8/bin:$PATH
cd /verif && P=$(echo $1 | tr A-Z a-z); go test -c -overlay build/overlay/overlay.json -o build/sim-$P.test ./simtest/$P || exit 2
mkdir -p build/dbg/$P; rm -f build/dbg/$P/*
VERIF_PROP=$1 VERIF_COUNT=$2 VERIF_SCENARIO=$3 VERIF_REPLAY_DIR=/verif/build/dbg/$P VERIF_KNOWN=$KNOWN ./build/sim-$P.test -test.run '^TestWorker$' | python3 -c "
import json,sys
for line in sys.stdin:
  if not line.startswith('{'): print(line.rstrip()); continue
  d=json.loads(line)
  v=d.pop('violations'); d.pop('sig_hashes'); s=d.pop('samples')
  print(json.dumps(d))
  for x in v or []: print('VIOL', x['fingerprint'], '|', x['detail'][:600], '| tapes', len(x['plan_tape'] or []), len(x['sched_tape'] or []), 'shrinkruns', x['shrink_runs']); print('   plan:', json.dumps(x.get('plan'))[:1500])
"
