// This file is NOT part of vouch.  It is added to package dirk only in the
// simulation build (through the -overlay written by /verif/vinject).  It gives
// the harness a constructor that places simulated wallets in the wallet cache
// consulted by openWallet, so that no gRPC connection to a Dirk server is ever
// dialled; everything after that (Refresh, refreshAccounts,
// fetchAccountsForWallet, refreshValidators, the lookups) is vouch's own code.
package dirk

import (
	"context"

	"github.com/pkg/errors"
	zerologger "github.com/rs/zerolog/log"
	e2wtypes "github.com/wealdtech/go-eth2-wallet-types/v2"
)

// VerifNew mirrors New, minus the TLS credentials and the endpoint parsing:
// the service is built with the same fields and then runs the real Refresh.
// A wallet name that is not in wallets falls through to dirk.Open, which
// refuses to open a wallet without credentials (an error, like an unreachable
// server).
func VerifNew(ctx context.Context, wallets map[string]e2wtypes.Wallet, params ...Parameter) (*Service, error) {
	// parseAndCheckParameters insists on endpoints and a client certificate;
	// the placeholders are never used.
	params = append([]Parameter{WithEndpoints([]string{"verif:1"}), WithClientCert([]byte{}), WithClientKey([]byte{})}, params...)
	parameters, err := parseAndCheckParameters(params...)
	if err != nil {
		return nil, errors.Wrap(err, "problem with parameters")
	}
	log := zerologger.With().Str("service", "accountmanager").Str("impl", "dirk").Logger()
	if parameters.logLevel != log.GetLevel() {
		log = log.Level(parameters.logLevel)
	}
	farFutureEpoch, err := parameters.farFutureEpochProvider.FarFutureEpoch(ctx)
	if err != nil {
		return nil, errors.Wrap(err, "failed to obtain far future epoch")
	}
	s := &Service{
		log:                  log,
		monitor:              parameters.monitor,
		clientMonitor:        parameters.clientMonitor,
		timeout:              parameters.timeout,
		processConcurrency:   parameters.processConcurrency,
		accountPaths:         parameters.accountPaths,
		domainProvider:       parameters.domainProvider,
		validatorsManager:    parameters.validatorsManager,
		farFutureEpoch:       farFutureEpoch,
		currentEpochProvider: parameters.currentEpochProvider,
		wallets:              make(map[string]e2wtypes.Wallet, len(wallets)),
	}
	for name, wallet := range wallets {
		s.wallets[name] = wallet
	}

	s.Refresh(ctx)

	return s, nil
}
