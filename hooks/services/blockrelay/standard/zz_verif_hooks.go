// This file is NOT part of vouch.  It is added to package standard only in the
// simulation build (through the -overlay written by /verif/vinject).  The
// block relay has no accessor for the execution configuration it currently
// holds; the C10 round-trip check (marshal what vouch holds, serve it back,
// resolve again) needs one.  Nothing else is added: the service is always
// constructed through the real New().
package standard

import (
	"github.com/attestantio/vouch/services/blockrelay"
)

// VerifExecutionConfig returns the execution configuration currently in force.
func (s *Service) VerifExecutionConfig() blockrelay.ExecutionConfigurator {
	s.executionConfigMu.RLock()
	defer s.executionConfigMu.RUnlock()
	return s.executionConfig
}
