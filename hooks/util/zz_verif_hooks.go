// This file is NOT part of vouch.  It is added to package util only in the
// simulation build (through the -overlay written by /verif/vinject) and gives
// the harness a way to put simulated relays into the builder-client cache
// that FetchBuilderClient consults, instead of real HTTP clients.
package util

import (
	builder "github.com/attestantio/go-builder-client"
)

// VerifSetBuilderClient registers client as the builder client for address.
func VerifSetBuilderClient(address string, client builder.Service) {
	buildersMu.Lock()
	defer buildersMu.Unlock()
	if builders == nil {
		builders = make(map[string]builder.Service)
	}
	builders[address] = client
}

// VerifResetBuilderClients forgets every cached builder client.
func VerifResetBuilderClients() {
	buildersMu.Lock()
	defer buildersMu.Unlock()
	builders = nil
}
