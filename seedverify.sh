#!/bin/bash
# seedverify.sh <PROP> <a|b> : confirm a seeded change in a scratch worktree of /repo:
#   patch applies to HEAD, builds, the existing test suite passes with it, the demonstration fails with it and passes without it.
# Writes /tmp/seedout/<PROP>/<x>/verify.txt and prints one summary line.
P=$1; X=$2; D=${SEEDROOT:-/tmp/seedout}/$P/$X
W=$(mktemp -d /tmp/sv-XXXXXX)
cleanup() { git -C /repo worktree remove --force "$W/r" >/dev/null 2>&1; rm -rf "$W"; }
trap cleanup EXIT
exec 3>"$D/verify.txt"
git -C /repo worktree add -q --detach "$W/r" HEAD || { echo "$P/$X worktree-failed"; exit 2; }
cd "$W/r"
echo "base $(git rev-parse --short HEAD)" >&3
if ! git apply --check "$D/patch.diff" 2>>"$D/verify.txt"; then echo "$P/$X PATCH-DOES-NOT-APPLY-TO-HEAD"; echo "patch does not apply" >&3; exit 3; fi
DEMO=$(ls $D/*_test.go 2>/dev/null | head -1)
DIR=$(grep -m1 -o 'services/[a-z/0-9]*\|strategies/[a-z/0-9]*\|\butil\b' "$DEMO" | head -1); DIR=${DIR%/}
NAME=demo_$(echo ${P}${X} | tr A-Z a-z)_test.go
# without the change: demo passes
cp "$DEMO" "$DIR/$NAME"
go test -count=1 -vet=off -run 'Demo|C[0-9][0-9]' ./$DIR/ > "$W/demo-clean.log" 2>&1; CLEAN=$?
# with the change
git apply "$D/patch.diff"
go build ./... > "$W/build.log" 2>&1; BUILD=$?
go test -count=1 -vet=off -run 'Demo|C[0-9][0-9]' ./$DIR/ > "$W/demo-mut.log" 2>&1; MUT=$?
rm -f "$DIR/$NAME"
go test -vet=off -count=1 -timeout 25m ./... > "$W/suite.log" 2>&1; SUITE=$?
if [ $SUITE -ne 0 ]; then
  # timing-based tests of the suite fail under CPU load: re-run the failing packages on their own (up to twice)
  FAILED=$(grep -E "^FAIL\s+github.com" "$W/suite.log" | awk '{print $2}' | sed 's#github.com/attestantio/vouch#.#')
  for try in 1 2; do
    [ -z "$FAILED" ] && break
    go test -vet=off -count=1 -p 1 $FAILED > "$W/suite2.log" 2>&1 && { SUITE=0; echo "suite: packages [$FAILED] failed under load, passed when re-run alone" >&3; break; }
    sleep 20
  done
fi
{ echo "demo dir $DIR"; echo "demo without change: exit $CLEAN"; tail -3 "$W/demo-clean.log"; echo "build with change: exit $BUILD"; echo "demo with change: exit $MUT"; grep -E "^\s+.*(Error|error|FAIL|expected|signer|violat)" "$W/demo-mut.log" | head -8; echo "existing suite with change: exit $SUITE"; grep -E "^(FAIL|---)" "$W/suite.log" | head; } >&3
R=OK; [ $CLEAN -ne 0 ] && R="DEMO-FAILS-WITHOUT-CHANGE"; [ $BUILD -ne 0 ] && R="DOES-NOT-BUILD"; [ $MUT -eq 0 ] && R="DEMO-PASSES-WITH-CHANGE"; [ $SUITE -ne 0 ] && R="$R,SUITE-FAILS"
echo "$P/$X $R (clean=$CLEAN build=$BUILD mut=$MUT suite=$SUITE)"
