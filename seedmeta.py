#!/usr/bin/env python3
# seedmeta.py: (re)generate seeded/<ID>-<x>/meta.json from the authoring agent's meta.md, my verify.txt and detect.txt
import json,os,re,subprocess,sys
root='/verif/seeded'
rows=[]
known=set(re.findall(r'^known:.*?fingerprint=(\S+)',open('/verif/known_findings.txt').read(),re.M))
for d in sorted(os.listdir(root)):
    m=re.match(r'^(C\d+)-([a-z])$',d)
    if not m: continue
    P,x=m.groups()
    dd=os.path.join(root,d)
    md=open(os.path.join(dd,'meta.md')).read()
    items={}
    for mm in re.finditer(r'(?ms)^(\d)\.\s+(.*?)(?=^\d\.\s|\Z)',md):
        items[mm.group(1)]=' '.join(mm.group(2).split())
    ver=open(os.path.join(dd,'verify.txt')).read().strip().splitlines() if os.path.exists(os.path.join(dd,'verify.txt')) else []
    det=open(os.path.join(dd,'detect.txt')).read().strip().splitlines() if os.path.exists(os.path.join(dd,'detect.txt')) else []
    fps=[l.split('|')[0].replace('VIOL','').strip() for l in det if l.startswith('VIOL')]
    fps=[f for f in fps if f not in known]  # known findings of the unchanged tree do not count
    files=sorted(set(re.findall(r'^\+\+\+ b/(\S+)',open(os.path.join(dd,'patch.diff')).read(),re.M)))
    meta={
      'id':d,'property':P,
      'breaks':items.get('1',''),
      'needs_to_manifest':items.get('2',''),
      'files_changed':files,
      'author':'fresh sub-agent given only the property text and its own scratch worktree of /repo',
      'what_the_author_ran':[items.get(k,'') for k in ('3','4','5') if items.get(k)],
      'what_i_ran':{
         'confirmation':'./seedverify.sh %s %s  (scratch worktree of /repo HEAD: patch applies, go build ./..., demonstration passes without and fails with the change, full existing suite with the change; packages with timing tests that fail under load are re-run alone)'%(P,x),
         'confirmation_result':ver,
         'detection':det[0] if det else '',
         'detection_result':det[1:],
      },
      'caught_by_check':bool(fps),
      'violation_fingerprints':fps,
    }
    json.dump(meta,open(os.path.join(dd,'meta.json'),'w'),indent=1)
    rows.append((d,P,bool(fps),fps,items.get('1','')[:160]))
if '--table' in sys.argv:
    for d,P,c,fps,b in rows:
        print('| %s | %s | %s |'%(d,'caught' if c else 'MISSED',', '.join(sorted(set(fps)))[:200]))
