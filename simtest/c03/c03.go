// Package c03: every duty is scheduled once, for the right time, across restarts and reorgs.
//
// Real code: controller/standard, scheduler/advanced, chaintime/standard
// (duty-performing services are recorders in the focused variant and the real
// services in the full variant).  Environment: syssim chain model.
package c03

import (
	"context"
	"fmt"
	"os"
	"sort"
	"time"

	"github.com/attestantio/go-eth2-client/spec/phase0"

	"verif/sim"
	"verif/simrt"
	. "verif/simtest/env"
	"verif/simtest/syssim"
)

// Gen returns the plan generator of the focused (full=false) or full whole-system variant.
func Gen(full bool) func(p *simrt.Tape) any {
	return func(p *simrt.Tape) any {
		pl := &syssim.Plan{
			Seed:                  uint64(p.Intn(1 << 16)),
			SecondsPerSlot:        []uint64{12, 12, 6, 2}[p.Pick(4)],
			SlotsPerEpoch:         []uint64{4, 4, 8}[p.Pick(3)],
			EpochsPerPeriod:       8,
			AltairEpoch:           0,
			TotalValidators:       p.Range(9, 14),
			Committees:            2,
			TargetAggregators:     16,
			Nodes:                 p.Range(1, 2),
			Focused:               !full,
			FastTrackAttestations: p.Bool(),
			FastTrackSync:         p.Bool(),
			FastTrackGrace:        500 * time.Millisecond,
			AccountKind:           int(KindMulti),
		}
		slot := time.Duration(pl.SecondsPerSlot) * time.Second
		pl.MaxAttestationDelay = slot / 3
		pl.AggregationDelay = slot * 2 / 3
		pl.MaxSyncMessageDelay = slot / 3
		pl.SyncAggregationDelay = slot * 2 / 3
		if pl.SecondsPerSlot == 2 {
			pl.FastTrackGrace = 100 * time.Millisecond
		}
		nOurs := p.Range(1, 5)
		perm := make([]int, pl.TotalValidators)
		for i := range perm {
			perm[i] = i
		}
		for i := len(perm) - 1; i > 0; i-- {
			j := p.Intn(i + 1)
			perm[i], perm[j] = perm[j], perm[i]
		}
		pl.Ours = append([]int{}, perm[:nOurs]...)
		sort.Ints(pl.Ours)
		epoch := slot * time.Duration(pl.SlotsPerEpoch)
		// start anywhere in epochs 1..2 (sometimes before genesis, at genesis, or exactly on a boundary)
		prepStart := false
		switch p.Pick(8) {
		case 0:
			pl.StartOffset = -slot
		case 1:
			pl.StartOffset = 0
		case 2:
			pl.StartOffset = epoch
		case 3:
			pl.StartOffset = 2*epoch - time.Second
		case 4:
			if p.Pct(40) {
				// inside the one epoch that is exactly the preparation lead (5 epochs) before a sync period boundary:
				// only the start-up path can ask for the next period's duties; run across the boundary
				pl.StartOffset = (time.Duration(pl.EpochsPerPeriod)-5)*epoch + time.Duration(p.Intn(int(epoch/time.Millisecond)))*time.Millisecond
				prepStart = true
			} else {
				pl.StartOffset = epoch + time.Duration(p.Intn(int(epoch/time.Millisecond)))*time.Millisecond
			}
		default:
			pl.StartOffset = epoch + time.Duration(p.Intn(int(epoch/time.Millisecond)))*time.Millisecond
		}
		startSlot := uint64(0)
		if pl.StartOffset > 0 {
			startSlot = uint64(pl.StartOffset / slot)
		}
		pl.HorizonSlots = startSlot + pl.SlotsPerEpoch*uint64(p.Range(2, 3)) + uint64(p.Intn(int(pl.SlotsPerEpoch)))
		if prepStart {
			pl.HorizonSlots = pl.EpochsPerPeriod*pl.SlotsPerEpoch + uint64(p.Range(1, 3))
		}
		lat := []int{400, 700, 1000, 1500, int(slot/time.Millisecond) / 3, int(slot/time.Millisecond)/3 + 1, int(slot/time.Millisecond) / 2}
		for i := 0; i < 6; i++ {
			pl.HeadLatencyMs = append(pl.HeadLatencyMs, lat[p.Pick(len(lat))])
		}
		for i, n := 0, p.Pick(3); i < n; i++ {
			pl.Reorgs = append(pl.Reorgs, syssim.Reorg{Slot: startSlot + uint64(p.Intn(int(pl.HorizonSlots-startSlot))), Kind: p.Pick(3)})
		}
		pl.CoincideReorg = len(pl.Reorgs) > 0 && p.Bool()
		for i, n := 0, p.Pick(3); i < n; i++ {
			pl.Missed = append(pl.Missed, startSlot+uint64(p.Intn(int(pl.HorizonSlots-startSlot))))
		}
		if p.Pct(35) {
			at := pl.StartOffset
			if at < 0 {
				at = 0
			}
			at += time.Duration(p.Intn(int((time.Duration(pl.HorizonSlots-startSlot)*slot)/time.Millisecond))) * time.Millisecond
			pl.Restarts = append(pl.Restarts, syssim.Restart{At: at, Down: []time.Duration{time.Second, slot, 3 * slot}[p.Pick(3)]})
		}
		// duties just outside (or far outside) the requested epoch in a node's answer: to be ignored
		if p.Pct(40) {
			for i, n := 0, p.Range(1, 2); i < n; i++ {
				pl.Odd = append(pl.Odd, syssim.OddContent{Method: []string{"AttesterDuties", "ProposerDuties"}[p.Pick(2)], Call: p.Intn(6),
					Kind: []string{"next-epoch-first", "prev-epoch-last", "other-epoch", "next-epoch-first"}[p.Pick(4)]})
			}
		}
		// faults on duty fetches
		if p.Pct(50) {
			pl.Faults = map[string][]Outcome{}
			for _, meth := range []string{"AttesterDuties", "ProposerDuties", "SyncCommitteeDuties"} {
				var l []Outcome
				for i := 0; i < 8; i++ {
					o := Outcome{}
					switch p.Pick(6) {
					case 0:
						o.Kind = "error"
					case 1:
						o.Latency = time.Duration(p.Range(1, 3000)) * time.Millisecond
					case 2:
						o.Latency = slot
					}
					l = append(l, o)
				}
				pl.Faults["bn0/"+meth] = l
			}
		}
		// slow duty requests overlapping reorgs: an answer that was under way when the roots changed
		if p.Pct(25) {
			pl.AnswerAtRequest = p.Bool()
			pl.ProposeTakes = []time.Duration{0, slot / 4, slot / 2, slot - time.Second}[p.Pick(4)]
			pl.Faults = map[string][]Outcome{}
			for _, meth := range []string{"AttesterDuties", "ProposerDuties", "SyncCommitteeDuties"} {
				var l []Outcome
				for i := 0; i < 10; i++ {
					o := Outcome{}
					if p.Pct(60) {
						o.Latency = []time.Duration{slot / 2, slot, slot, 2 * slot}[p.Pick(4)]
					}
					l = append(l, o)
				}
				pl.Faults["bn0/"+meth] = l
			}
			for i, n := 0, p.Range(2, 4); i < n; i++ {
				pl.Reorgs = append(pl.Reorgs, syssim.Reorg{Slot: startSlot + uint64(p.Intn(int(pl.HorizonSlots-startSlot))), Kind: p.Pick(3)})
			}
		}
		return pl
	}
}

type convViolation struct{ v *simrt.Violation }

func exec(plan any, sched *simrt.Tape) *sim.Outcome {
	pl := plan.(*syssim.Plan)
	out := &sim.Outcome{Probes: map[string]int{}, Sample: pl}
	var rec *syssim.Record
	var conv *simrt.Violation
	slot := time.Duration(pl.SecondsPerSlot) * time.Second
	horizon := 10*time.Minute + time.Duration(pl.HorizonSlots+2)*slot + time.Minute
	res := sim.Run(sched, horizon, 400000, nil, func(ctx context.Context) {
		rec = syssim.Run(ctx, pl, &syssim.Hooks{Tick: func(r *syssim.Record, s uint64, live *syssim.Incarnation) {
			if live == nil || live.Sys == nil || conv != nil {
				return
			}
			conv = checkConversions(r, live.Sys, s)
		}})
		// let jobs of the last slot finish
		simrt.Sleep(ctx, slot, "c03/drain")
	})
	out.Res = res
	if res.Violation != nil {
		out.Violation = res.Violation
		switch res.Violation.Kind {
		case "panic", "deadlock", "horizon":
			out.Violation.Kind = "C03/" + res.Violation.Kind
		}
		return out
	}
	if len(rec.BuildErrors) > 0 {
		out.Violation = Viol("harness-build", "services failed to start: %v", rec.BuildErrors)
		return out
	}
	if conv != nil {
		out.Violation = conv
		return out
	}
	out.Violation = Oracle(rec, out)
	if out.Violation != nil && os.Getenv("VERIF_DEBUG") != "" {
		Dump(rec)
	}
	return out
}

// Dump prints the recorded history (debugging aid).
func Dump(rec *syssim.Record) {
	for _, i := range rec.Incs {
		fmt.Fprintf(os.Stderr, "INC %d start=%v end=%v\n", i.N, i.Start, i.End)
	}
	for _, f := range rec.H.Fetches {
		fmt.Fprintf(os.Stderr, "FETCH inc=%d %s epoch=%d t=%v..%v step=%d..%d err=%v cur=%d att=%v prop=%v sync=%v\n", f.Inc, f.Kind, f.Epoch, f.T, f.EndT, f.Step, f.EndStep, f.Err, f.CurSlotAtEnd, attSummary(f), f.Prop, f.Sync)
	}
	for _, j := range rec.Jobs {
		fmt.Fprintf(os.Stderr, "JOB inc=%d %s %q class=%q at=%v t=%v step=%d err=%v\n", j.Inc, j.Op, j.Name, j.Class, j.At.Sub(SimEpoch), j.T, j.Step, j.Err)
	}
	for _, i := range rec.Invocations {
		fmt.Fprintf(os.Stderr, "INV inc=%d %s slot=%d vals=%v t=%v step=%d\n", i.Inc, i.Kind, i.Slot, i.Validators, i.T, i.Step)
	}
}

func attSummary(f *syssim.DutyFetch) string {
	var b []string
	for v, d := range f.Att {
		b = append(b, fmt.Sprintf("%d@%d/c%d", v, d.Slot, d.CommitteeIndex))
	}
	sort.Strings(b)
	return fmt.Sprint(b)
}

// checkConversions compares vouch's chaintime with the oracle's own integer arithmetic.
func checkConversions(r *syssim.Record, sys *syssim.System, _ uint64) *simrt.Violation {
	ct := sys.ChainTime
	c := r.Model.Chain
	now := time.Now()
	for _, t := range []time.Time{now, now.Add(time.Duration(r.Plan.Seed%977) * time.Millisecond)} {
		_ = t
	}
	cs := uint64(ct.CurrentSlot())
	want := c.SlotAt(now)
	if cs != want {
		return Viol("C03/conversion-current-slot", "CurrentSlot=%d but %v after genesis is slot %d", cs, now.Sub(c.GenesisTime), want)
	}
	if !(!ct.StartOfSlot(phase0.Slot(cs)).After(now) && now.Before(ct.StartOfSlot(phase0.Slot(cs+1)))) && !now.Before(c.GenesisTime) {
		return Viol("C03/conversion-slot-bounds", "now %v not within [StartOfSlot(%d), StartOfSlot(%d))", now, cs, cs+1)
	}
	if uint64(ct.SlotToEpoch(phase0.Slot(cs))) != uint64(ct.CurrentEpoch()) {
		return Viol("C03/conversion-epoch", "SlotToEpoch(CurrentSlot)=%d CurrentEpoch=%d", ct.SlotToEpoch(phase0.Slot(cs)), ct.CurrentEpoch())
	}
	for _, e := range []uint64{0, 1, uint64(ct.CurrentEpoch()), uint64(ct.CurrentEpoch()) + 1, 1 << 20} {
		if !ct.StartOfEpoch(phase0.Epoch(e)).Equal(ct.StartOfSlot(ct.FirstSlotOfEpoch(phase0.Epoch(e)))) {
			return Viol("C03/conversion-epoch-start", "StartOfEpoch(%d) != StartOfSlot(FirstSlotOfEpoch(%d))", e, e)
		}
		if !ct.StartOfEpoch(phase0.Epoch(e)).Equal(c.SlotStart(e * c.SlotsPerEpoch)) {
			return Viol("C03/conversion-epoch-start", "StartOfEpoch(%d)=%v, expected %v", e, ct.StartOfEpoch(phase0.Epoch(e)), c.SlotStart(e*c.SlotsPerEpoch))
		}
	}
	for _, s := range []uint64{cs, cs + 1, cs + 1000003} {
		if !ct.StartOfSlot(phase0.Slot(s)).Equal(c.SlotStart(s)) {
			return Viol("C03/conversion-slot-start", "StartOfSlot(%d)=%v, expected %v", s, ct.StartOfSlot(phase0.Slot(s)), c.SlotStart(s))
		}
		if uint64(ct.SlotToEpoch(phase0.Slot(s))) != s/c.SlotsPerEpoch {
			return Viol("C03/conversion-slot-to-epoch", "SlotToEpoch(%d)=%d", s, ct.SlotToEpoch(phase0.Slot(s)))
		}
	}
	return nil
}

func intsEq(a, b []int) bool {
	if len(a) != len(b) {
		return false
	}
	for i := range a {
		if a[i] != b[i] {
			return false
		}
	}
	return true
}

// Oracle judges the recorded history (exported: the full-variant packages reuse it).
func Oracle(rec *syssim.Record, out *sim.Outcome) *simrt.Violation {
	pl := rec.Plan
	c := rec.Model.Chain
	genesis := c.GenesisTime.Sub(SimEpoch)
	slotDur := time.Duration(pl.SecondsPerSlot) * time.Second
	slotStart := func(s uint64) time.Duration { return genesis + time.Duration(s)*slotDur }
	endOfRun := slotStart(pl.HorizonSlots)

	if len(pl.Reorgs) > 0 {
		out.Probes["plan-reorgs"] += len(pl.Reorgs)
	}
	if len(rec.Incs) > 1 {
		out.Probes["restarts"] += len(rec.Incs) - 1
	}

	// (1) never twice, over the whole history including restarts
	for _, kind := range []string{"attest", "propose", "sync-message"} {
		seen := map[string]*syssim.Invocation{}
		for _, inv := range rec.Invs(kind) {
			for _, v := range inv.Validators {
				k := fmt.Sprintf("%d/%d", inv.Slot, v)
				if prev, dup := seen[k]; dup {
					return Viol("C03/"+kind+"-twice", "%s for slot %d validator %d invoked at %v (incarnation %d) and again at %v (incarnation %d)", kind, inv.Slot, v, prev.T, prev.Inc, inv.T, inv.Inc)
				}
				seen[k] = inv
			}
		}
	}

	alive := func(inc *syssim.Incarnation, t time.Duration) bool {
		return inc.Start <= t && (inc.End < 0 || inc.End > t)
	}
	for _, inc := range rec.Incs {
		startup := map[string]int{} // kind -> step of first fetch
		var fetches []*syssim.DutyFetch
		for _, f := range rec.H.Fetches {
			if f.Inc == inc.N {
				fetches = append(fetches, f)
				if _, ok := startup[f.Kind]; !ok {
					startup[f.Kind] = f.Step
				}
			}
		}
		waited := inc.Start < genesis
		byEpoch := func(kind string, e uint64) []*syssim.DutyFetch {
			var l []*syssim.DutyFetch
			for _, f := range fetches {
				if f.Kind == kind && f.Epoch == e {
					l = append(l, f)
				}
			}
			return l
		}
		// ---- a head event showing changed duty-dependent roots makes vouch obtain the affected duties anew.
		// (Everything below derives what is owed from what vouch obtained, so a refresh that never
		// happens has to be demanded here, from the events the node delivered.)
		if v := refreshOwed(rec, inc, fetches, slotStart, endOfRun, out); v != nil {
			return v
		}
		// ---- attestations
		for _, inv := range rec.Invs("attest") {
			if inv.Inc != inc.N {
				continue
			}
			out.Nontrivial = true
			e := inv.Slot / pl.SlotsPerEpoch
			var cands []*syssim.DutyFetch
			inflight := false
			for _, f := range byEpoch("attester", e) {
				if !f.Err && f.EndStep != 0 && f.EndStep <= inv.Step {
					cands = append(cands, f)
				} else if f.Step <= inv.Step && (f.EndStep == 0 || f.EndStep > inv.Step) {
					inflight = true
				}
			}
			sortByAnswerAge(cands, pl.AnswerAtRequest)
			if len(cands) == 0 {
				return Viol("C03/attest-without-duty", "Attest for slot %d at %v without any completed duty fetch for epoch %d in incarnation %d", inv.Slot, inv.T, e, inc.N)
			}
			match := func(f *syssim.DutyFetch) bool {
				var want []int
				for v, d := range f.Att {
					if uint64(d.Slot) == inv.Slot {
						want = append(want, v)
					}
				}
				sort.Ints(want)
				if !intsEq(want, inv.Validators) {
					return false
				}
				for v, ci := range inv.Committees {
					if int(f.Att[v].CommitteeIndex) != ci {
						return false
					}
				}
				return true
			}
			ok := match(cands[len(cands)-1])
			if !ok && (inflight || len(cands) > 1) {
				// a refresh overlapping the invocation: the job may stem from the previous answer
				for _, f := range cands {
					if f.EndStep > 0 && match(f) && (inflight || f == cands[len(cands)-2]) {
						// only acceptable if the newer fetch ended at the same instant (scheduling of the new jobs still under way)
						if inflight || cands[len(cands)-1].EndT == inv.T {
							ok = true
						}
					}
				}
			}
			if !ok && refreshPending(rec, inc, fetches, "attester", e, inv.Step) {
				for _, f := range cands {
					if match(f) {
						ok = true
						out.Probes["attest-from-older-answer-while-refresh-pending"]++
					}
				}
			}
			if !ok {
				return Viol("C03/attest-wrong-validators", "Attest for slot %d at %v carried validators %v, which is not the duty set last obtained for that slot (incarnation %d)", inv.Slot, inv.T, inv.Validators, inc.N)
			}
			if inv.T < slotStart(inv.Slot) {
				return Viol("C03/attest-too-early", "Attest for slot %d ran at %v, before the slot started (%v)", inv.Slot, inv.T, slotStart(inv.Slot))
			}
			// "exactly one job per duty slot that has not yet passed": the job stems from an answer that was
			// obtained before the slot was over (an answer that arrives later sets nothing up for that slot)
			inTime := false
			for _, f := range cands {
				if f.PreGenesis || f.EndT < slotStart(inv.Slot+1) {
					inTime = true
				}
			}
			if !inTime {
				return Viol("C03/attest-for-passed-slot", "Attest for slot %d ran at %v, but every duties answer for epoch %d that incarnation %d had by then arrived after that slot had passed (first at %v; the slot ended %v)", inv.Slot, inv.T, e, inc.N, cands[0].EndT, slotStart(inv.Slot+1))
			}
			out.Probes["attest-job-from-answer-in-time"]++
		}
		epochs := map[uint64]bool{}
		for _, f := range fetches {
			if f.Kind == "attester" {
				epochs[f.Epoch] = true
			}
		}
		var eps []uint64
		for e := range epochs {
			eps = append(eps, e)
		}
		sort.Slice(eps, func(i, j int) bool { return eps[i] < eps[j] })
		for _, e := range eps {
			l := byEpoch("attester", e)
			last := l[len(l)-1]
			if last.Err || last.EndStep == 0 {
				continue // the last attempt obtained nothing: nothing is owed
			}
			bySlot := map[uint64][]int{}
			for v, d := range last.Att {
				if uint64(d.Slot)/pl.SlotsPerEpoch != e {
					continue
				}
				bySlot[uint64(d.Slot)] = append(bySlot[uint64(d.Slot)], v)
			}
			for s, vals := range bySlot {
				sort.Ints(vals)
				jobT := slotStart(s) + pl.MaxAttestationDelay
				owed := s > last.CurSlotAtEnd || (s == last.CurSlotAtEnd && waited && last.Step == startup["attester"] && last.EndT <= slotStart(s))
				if last.PreGenesis {
					owed = true
				}
				if !owed || jobT+time.Second > endOfRun || !alive(inc, jobT+time.Second) || last.EndT >= slotStart(s) && s != last.CurSlotAtEnd {
					continue
				}
				var found *syssim.Invocation
				for _, inv := range rec.Invs("attest") {
					if inv.Inc == inc.N && inv.Slot == s {
						found = inv
					}
				}
				if found == nil {
					return Viol("C03/attest-duty-without-job", "attester duties for slot %d (validators %v) were obtained at %v in incarnation %d but no attestation ran for that slot (job time %v)", s, vals, last.EndT, inc.N, jobT)
				}
				out.Probes["attest-obligation-checked"]++
				if found.T > jobT {
					return Viol("C03/attest-late", "Attest for slot %d ran at %v, after slot start + configured delay (%v)", s, found.T, jobT)
				}
				if !pl.FastTrackAttestations && found.T != jobT {
					return Viol("C03/attest-wrong-time", "Attest for slot %d ran at %v; slot start + configured delay is %v and fast-track is off", s, found.T, jobT)
				}
				if found.T < jobT {
					out.Probes["attest-fast-tracked"]++
				}
			}
		}
		// ---- proposals
		for _, inv := range rec.Invs("propose") {
			if inv.Inc != inc.N {
				continue
			}
			e := inv.Slot / pl.SlotsPerEpoch
			ok := false
			for _, f := range byEpoch("proposer", e) {
				if !f.Err && f.EndStep != 0 && f.EndStep <= inv.Step {
					if v, has := f.Prop[inv.Slot]; has && v == inv.Validators[0] {
						ok = true
					}
				}
			}
			if !ok {
				return Viol("C03/propose-without-duty", "Propose for slot %d validator %v at %v matches no proposer duty obtained in incarnation %d", inv.Slot, inv.Validators, inv.T, inc.N)
			}
			// ... and it is the duty set obtained last: a refresh replaces the jobs of the answers before it
			var done []*syssim.DutyFetch
			inflight := false
			for _, f := range byEpoch("proposer", e) {
				if !f.Err && f.EndStep != 0 && f.EndStep <= inv.Step {
					done = append(done, f)
				} else if f.Step <= inv.Step && (f.EndStep == 0 || f.EndStep > inv.Step) {
					inflight = true
				}
			}
			sortByAnswerAge(done, pl.AnswerAtRequest)
			if last := done[len(done)-1]; !inflight && last.EndT != inv.T && !refreshPending(rec, inc, fetches, "proposer", e, inv.Step) {
				if v, has := last.Prop[inv.Slot]; !has || v != inv.Validators[0] {
					return Viol("C03/propose-replaced-duty", "Propose for slot %d validator %v at %v: the proposer duties of epoch %d obtained last (at %v, incarnation %d) do not contain that duty", inv.Slot, inv.Validators, inv.T, e, last.EndT, inc.N)
				}
			}
			if inv.T < slotStart(inv.Slot) {
				return Viol("C03/propose-too-early", "Propose for slot %d ran at %v, before the slot started", inv.Slot, inv.T)
			}
		}
		pepochs := map[uint64]bool{}
		for _, f := range fetches {
			if f.Kind == "proposer" {
				pepochs[f.Epoch] = true
			}
		}
		for e := range pepochs {
			l := byEpoch("proposer", e)
			last := l[len(l)-1]
			if last.Err || last.EndStep == 0 {
				continue
			}
			for s, v := range last.Prop {
				if s/pl.SlotsPerEpoch != e {
					continue
				}
				jobT := slotStart(s)
				// the epoch ticker schedules the epoch's first slot too: it fires right at the epoch start
				tick := last.Step != startup["proposer"] && last.T >= slotStart(e*pl.SlotsPerEpoch) && last.T <= slotStart(e*pl.SlotsPerEpoch)+250*time.Millisecond
				owed := s > last.CurSlotAtEnd || (s == last.CurSlotAtEnd && tick && last.EndT < slotStart(s)+slotDur/2) || last.PreGenesis
				if !owed || jobT+time.Second > endOfRun || !alive(inc, jobT+slotDur/2) {
					continue
				}
				var found *syssim.Invocation
				for _, inv := range rec.Invs("propose") {
					if inv.Inc == inc.N && inv.Slot == s && inv.Validators[0] == v {
						found = inv
					}
				}
				if found == nil {
					return Viol("C03/propose-duty-without-job", "proposer duty slot %d validator %d obtained at %v in incarnation %d but no proposal ran", s, v, last.EndT, inc.N)
				}
				out.Probes["propose-obligation-checked"]++
				if s > last.CurSlotAtEnd && found.T != jobT {
					return Viol("C03/propose-wrong-time", "Propose for slot %d ran at %v; slot start (+0 delay) is %v", s, found.T, jobT)
				}
			}
		}
		// ---- sync committee messages
		for _, inv := range rec.Invs("sync-message") {
			if inv.Inc != inc.N {
				continue
			}
			period := (inv.Slot + 1) / pl.SlotsPerEpoch / pl.EpochsPerPeriod
			ok := false
			for _, f := range fetches {
				if f.Kind == "sync" && !f.Err && f.EndStep != 0 && f.EndStep <= inv.Step && f.Epoch/pl.EpochsPerPeriod == period {
					var want []int
					for v := range f.Sync {
						want = append(want, v)
					}
					sort.Ints(want)
					if intsEq(want, inv.Validators) {
						ok = true
					}
				}
			}
			if !ok {
				return Viol("C03/sync-message-without-duty", "sync committee message job for slot %d with validators %v at %v matches no sync duties obtained for period %d in incarnation %d", inv.Slot, inv.Validators, inv.T, period, inc.N)
			}
		}
		periods := map[uint64]*syssim.DutyFetch{}
		for _, f := range fetches {
			if f.Kind == "sync" {
				periods[f.Epoch/pl.EpochsPerPeriod] = f // last started
			}
		}
		// a sync committee period whose window the incarnation lives through has been asked about at all
		// (what is owed below derives from what vouch obtained, so a period it never asks about would owe nothing)
		periodSlots := pl.EpochsPerPeriod * pl.SlotsPerEpoch
		for period := uint64(0); period*periodSlots <= pl.HorizonSlots+1; period++ {
			if _, asked := periods[period]; asked {
				continue
			}
			member := -1
			for _, v := range rec.Model.SortedOurs() {
				if _, in := rec.Model.SyncTable(period * pl.EpochsPerPeriod)[v]; in && !(pl.HideSync && pl.HideSyncAccount == v) {
					member = v
					break
				}
			}
			if member < 0 {
				continue
			}
			lo := uint64(0)
			if period > 0 {
				lo = period*periodSlots - 1
			}
			for s := lo; s+2 <= (period+1)*periodSlots; s++ {
				jobT := slotStart(s) + pl.MaxSyncMessageDelay
				if slotStart(s) < inc.Start+slotDur || jobT+2*time.Second > endOfRun || !alive(inc, jobT+2*time.Second) {
					continue
				}
				return Viol("C03/sync-period-never-requested", "incarnation %d (alive from %v) never asked for the sync committee duties of period %d, of which validator %d is a member; slot %d of its window passed", inc.N, inc.Start, period, member, s)
			}
		}
		for period, last := range periods {
			if last.Err || last.EndStep == 0 || len(last.Sync) == 0 {
				continue
			}
			first := period * pl.EpochsPerPeriod * pl.SlotsPerEpoch
			lastSlot := (period+1)*pl.EpochsPerPeriod*pl.SlotsPerEpoch - 2
			var want []int
			for v := range last.Sync {
				want = append(want, v)
			}
			sort.Ints(want)
			from := last.CurSlotAtEnd + 1
			if first > 0 && first-1 > from {
				from = first - 1
			}
			for s := from; s <= lastSlot; s++ {
				jobT := slotStart(s) + pl.MaxSyncMessageDelay
				if jobT+time.Second > endOfRun || !alive(inc, jobT+time.Second) {
					continue
				}
				// the preparation job runs 1.5 slots ahead: duties obtained later than that are picked up immediately
				var found *syssim.Invocation
				for _, inv := range rec.Invs("sync-message") {
					if inv.Inc == inc.N && inv.Slot == s {
						found = inv
					}
				}
				if found == nil {
					return Viol("C03/sync-duty-without-job", "sync committee duties for period %d (validators %v) obtained at %v in incarnation %d but no message job ran for slot %d", period, want, last.EndT, inc.N, s)
				}
				out.Probes["sync-obligation-checked"]++
				if !intsEq(found.Validators, want) {
					return Viol("C03/sync-wrong-validators", "sync committee message job for slot %d carried %v, duties say %v", s, found.Validators, want)
				}
				if found.T > jobT {
					return Viol("C03/sync-late", "sync committee message job for slot %d ran at %v, after slot start + configured delay (%v)", s, found.T, jobT)
				}
				if found.T < slotStart(s) {
					return Viol("C03/sync-too-early", "sync committee message job for slot %d ran at %v, before the slot", s, found.T)
				}
			}
		}
	}
	return nil
}

func init() {
	sim.Register(&sim.Scenario{Property: "C03", Name: "focused", Gen: Gen(false), Exec: exec, Weight: 3})
	sim.Register(&sim.Scenario{Property: "C03", Name: "full", Gen: Gen(true), Exec: exec, Weight: 1})
}

// refreshOwed: for two consecutive head events A, B delivered to one incarnation,
//   - same epoch e, previous dependent root differs: attester duties of e are requested again;
//   - same epoch e, current dependent root differs: attester duties of e+1 and proposer duties of e are requested again;
//   - B in epoch e+1 and B's previous root differs from A's current root: attester duties of e+1 are requested again;
// unless nothing of the affected epoch is left to run.  The request must start at the instant of B (the
// handler starts the refresh before it does anything that takes time; it may wait for duty requests
// already in flight) and after B was delivered.
func refreshOwed(rec *syssim.Record, inc *syssim.Incarnation, fetches []*syssim.DutyFetch, slotStart func(uint64) time.Duration, endOfRun time.Duration, out *sim.Outcome) *simrt.Violation {
	pl := rec.Plan
	var heads []*syssim.HeadDelivery
	simrt.Crit(func() {
		for _, h := range rec.H.Heads {
			if h.Inc == inc.N {
				heads = append(heads, h)
			}
		}
	})
	for _, h := range heads {
		if h.Odd {
			return nil // vouch's record of the last roots is then unspecified
		}
	}
	sort.SliceStable(heads, func(i, j int) bool { return heads[i].Step < heads[j].Step })
	spe := pl.SlotsPerEpoch
	curSlotAt := func(t time.Duration) uint64 {
		if t < slotStart(0) {
			return 0
		}
		return uint64((t - slotStart(0)) / (slotStart(1) - slotStart(0)))
	}
	need := func(b *syssim.HeadDelivery, kind string, e uint64, why string) *simrt.Violation {
		// only duties that were asked for before can need replacing (the next epoch is prepared part-way through the current one)
		had := false
		for _, f := range fetches {
			if f.Kind == kind && f.Epoch == e && f.Step < b.Step {
				had = true
			}
		}
		if !had {
			return nil
		}
		// the refresh may have to wait for duty requests that are in flight when the event arrives
		// (duty requests are serialised: everything in flight at the event, and whatever starts while that is
		// in flight, may come first)
		by := b.T
		for changed := true; changed; {
			changed = false
			for _, f := range fetches {
				if f.T <= by && (f.EndStep == 0 || f.EndStep > b.Step) {
					if f.EndStep == 0 {
						return nil // still in flight at the end of the run
					}
					if f.EndT > by {
						by, changed = f.EndT, true
					}
				}
			}
		}
		for _, f := range fetches {
			if f.Kind == kind && f.Epoch == e && f.Step > b.Step && f.T <= by {
				out.Probes["refresh-after-root-change-checked"]++
				return nil
			}
		}
		if by+time.Second > endOfRun || (inc.End >= 0 && inc.End < by+time.Second) {
			return nil
		}
		var near []string
		for _, f := range fetches {
			if f.T >= b.T-2*time.Second && f.T <= b.T+2*time.Second {
				near = append(near, fmt.Sprintf("%s/%d@%v", f.Kind, f.Epoch, f.T))
			}
		}
		return Viol("C03/no-refresh-after-dependent-root-change", "head event for slot %d delivered at %v to incarnation %d (alive since %v): %s, but %s duties of epoch %d were not requested again (duty requests within 2s: %v)", b.Slot, b.T, inc.N, inc.Start, why, kind, e, near)
	}
	for i := 1; i < len(heads); i++ {
		a, b := heads[i-1], heads[i]
		if b.T == a.T || a.EndStep == 0 && a.T == b.T {
			continue // two streams at one instant: which one vouch handled first is not observable here
		}
		if b.T+time.Second > endOfRun || (inc.End >= 0 && inc.End < b.T+time.Second) {
			continue
		}
		ea, eb := a.Slot/spe, b.Slot/spe
		if ea == 0 {
			// in the genesis epoch both dependent roots are the genesis block root and cannot change on a
			// real chain (the model's reorgs there are not physical), so nothing is demanded
			continue
		}
		cur := curSlotAt(b.T)
		if cur/spe != eb {
			continue // a late event about an earlier epoch: the affected epoch is relative to the clock
		}
		lastOfEpoch := (eb+1)*spe - 1
		switch {
		case ea == eb:
			if a.Prev != b.Prev && cur < lastOfEpoch {
				if v := need(b, "attester", eb, "its previous duty dependent root differs from the one of the event before"); v != nil {
					return v
				}
			}
			if a.Cur != b.Cur {
				if v := need(b, "attester", eb+1, "its current duty dependent root differs from the one of the event before"); v != nil {
					return v
				}
				if cur < lastOfEpoch {
					if v := need(b, "proposer", eb, "its current duty dependent root differs from the one of the event before"); v != nil {
						return v
					}
				}
			}
		case eb == ea+1:
			if b.Prev != a.Cur && cur < lastOfEpoch {
				if v := need(b, "attester", eb, "first event of the epoch, and its previous duty dependent root is not the current one of the epoch before"); v != nil {
					return v
				}
			}
		}
	}
	return nil
}

// sortByAnswerAge orders completed duty requests by the age of the chain view their answers reflect:
// the moment the answer was returned, or (plan.AnswerAtRequest) the moment the request arrived.
func sortByAnswerAge(l []*syssim.DutyFetch, atRequest bool) {
	sort.SliceStable(l, func(i, j int) bool {
		if atRequest {
			return l[i].Step < l[j].Step
		}
		return l[i].EndStep < l[j].EndStep
	})
}

// refreshPending reports whether, at step, a head event that showed changed duty-dependent roots for
// (kind, epoch e) has been delivered to the incarnation and no request for those duties made after
// that event has completed yet: until it has, the jobs in place may still stem from an older answer
// (the property replaces jobs by "the duties it then obtains"; a slow node delays the obtaining).
func refreshPending(rec *syssim.Record, inc *syssim.Incarnation, fetches []*syssim.DutyFetch, kind string, e uint64, step int) bool {
	var heads []*syssim.HeadDelivery
	simrt.Crit(func() {
		for _, h := range rec.H.Heads {
			if h.Inc == inc.N && !h.Odd && h.Step < step {
				heads = append(heads, h)
			}
		}
	})
	sort.SliceStable(heads, func(i, j int) bool { return heads[i].Step < heads[j].Step })
	spe := rec.Plan.SlotsPerEpoch
	for i := 1; i < len(heads); i++ {
		a, b := heads[i-1], heads[i]
		ea, eb := a.Slot/spe, b.Slot/spe
		affected := false
		switch {
		case ea == eb:
			affected = (a.Prev != b.Prev && kind == "attester" && e == eb) ||
				(a.Cur != b.Cur && (kind == "attester" && e == eb+1 || kind == "proposer" && e == eb))
		case eb == ea+1:
			affected = b.Prev != a.Cur && kind == "attester" && e == eb
		}
		if !affected {
			continue
		}
		done := false
		for _, f := range fetches {
			if f.Kind == kind && f.Epoch == e && f.Step > b.Step && f.EndStep != 0 && f.EndStep <= step {
				done = true
			}
		}
		if !done {
			return true
		}
	}
	return false
}
