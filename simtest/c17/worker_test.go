package c17

import (
	"testing"

	"verif/sim"
)

func TestWorker(t *testing.T) { sim.WorkerMain(t) }
