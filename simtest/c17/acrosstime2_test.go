package c17

import (
	"context"
	"os"
	"testing"
	"testing/synctest"
	"time"

	"github.com/attestantio/go-eth2-client/spec/phase0"
	nullmetrics "github.com/attestantio/vouch/services/metrics/null"
	"github.com/attestantio/vouch/services/scheduler/advanced"
	"github.com/attestantio/vouch/services/synccommitteemessenger"
	"github.com/rs/zerolog"

	"verif/sim"
	"verif/simrt"
	. "verif/simtest/env"
)

// TestRaceAcrossTimeScheduler: the same, with the two accesses made by jobs of the real scheduler.
func TestRaceAcrossTimeScheduler(t *testing.T) {
	if os.Getenv("VERIF_ACROSS") == "" {
		t.Skip()
	}
	synctest.Test(t, func(t *testing.T) {
		tape := simrt.NewTape(1, nil)
		sim.Run(tape, time.Minute, 10000, nil, func(ctx context.Context) {
			sch, err := advanced.New(ctx, advanced.WithLogLevel(zerolog.Disabled), advanced.WithMonitor(nullmetrics.New()))
			if err != nil {
				panic(err)
			}
			d := synccommitteemessenger.NewDuty(5, map[phase0.ValidatorIndex][]phase0.CommitteeIndex{1: {0}})
			now := SimEpoch.Add(simrt.Now())
			_ = sch.ScheduleJob(ctx, "c", "prepare", now.Add(time.Second), func(ctx context.Context) {
				_ = sch.ScheduleJob(ctx, "c", "message", now.Add(3*time.Second), func(ctx context.Context) {
					simrt.Sleep(ctx, 100*time.Millisecond, "sign")
					_ = d.AggregatorSubcommittees(1)
				})
				simrt.Sleep(ctx, 500*time.Millisecond, "sign")
				d.SetAggregatorSubcommittees(1, 0, phase0.BLSSignature{})
			})
			simrt.Sleep(ctx, 5*time.Second, "end")
		})
	})
}
