// Package c17: vouch's own concurrency never corrupts its state.
//
// The scenarios run in a -race binary under the simulator's schedule.  The park
// protocol of simrt adds no happens-before edge, so the Go race detector sees
// only vouch's own synchronisation and reports unsynchronised conflicting
// accesses between vouch goroutines for a seeded, replayable interleaving.
package c17

import (
	"context"
	"fmt"
	"os"
	"sort"
	"strings"
	"time"
	"verif/simtest/c01/attsim"

	"verif/sim"
	"verif/simrt"
	_ "verif/simtest/c01" // attester runs overlapping
	_ "verif/simtest/c05" // proposer with concurrent unblinding
	_ "verif/simtest/c08" // multinode submitters
	_ "verif/simtest/c11" // registration rounds against config refreshes
	"verif/simtest/c12" // config refresh against lookups, auctions, registrations
	"verif/simtest/c13" // account manager refresh against lookups
	_ "verif/simtest/c18" // cache set / get / clean
	. "verif/simtest/env"
	"verif/simtest/syssim"
)

func gen(p *simrt.Tape) any {
	pl := &syssim.Plan{
		Seed:                  uint64(p.Intn(1 << 16)),
		SecondsPerSlot:        12,
		SlotsPerEpoch:         4,
		EpochsPerPeriod:       8,
		TotalValidators:       p.Range(8, 12),
		Committees:            2,
		TargetAggregators:     16,
		Nodes:                 p.Range(2, 3),
		FastTrackAttestations: p.Bool(),
		FastTrackSync:         p.Bool(),
		FastTrackGrace:        500 * time.Millisecond,
		AccountKind:           int(KindMulti),
		Multinode:             p.Pct(60),
		DataStrategy:          []string{"", "first", "best"}[p.Pick(3)],
	}
	slot := time.Duration(pl.SecondsPerSlot) * time.Second
	pl.MaxAttestationDelay = slot / 3
	pl.AggregationDelay = slot * 2 / 3
	pl.MaxSyncMessageDelay = slot / 3
	pl.SyncAggregationDelay = slot * 2 / 3
	nOurs := p.Range(2, 5)
	perm := make([]int, pl.TotalValidators)
	for i := range perm {
		perm[i] = i
	}
	for i := len(perm) - 1; i > 0; i-- {
		j := p.Intn(i + 1)
		perm[i], perm[j] = perm[j], perm[i]
	}
	pl.Ours = append([]int{}, perm[:nOurs]...)
	sort.Ints(pl.Ours)
	epoch := slot * time.Duration(pl.SlotsPerEpoch)
	pl.StartOffset = epoch + time.Duration(p.Intn(int(epoch/time.Millisecond)))*time.Millisecond
	startSlot := uint64(pl.StartOffset / slot)
	pl.HorizonSlots = startSlot + 2*pl.SlotsPerEpoch + 2
	pl.HeadLatencyMs = []int{[]int{400, 1000, 3000}[p.Pick(3)]}
	for i, n := 0, p.Pick(3); i < n; i++ {
		pl.Reorgs = append(pl.Reorgs, syssim.Reorg{Slot: startSlot + 1 + uint64(p.Intn(int(2*pl.SlotsPerEpoch))), Kind: p.Pick(3)})
	}
	// a slow remote signer keeps preparation and signing steps in flight while later jobs come due
	if p.Pct(35) {
		pl.SignerSlow = []time.Duration{200 * time.Millisecond, slot / 3, slot}[p.Pick(3)]
	}
	return pl
}

// raceLog returns the path of this process's race report file (GORACE log_path), "" if none.
func raceLog() string {
	for _, f := range strings.Fields(os.Getenv("GORACE")) {
		if strings.HasPrefix(f, "log_path=") {
			return fmt.Sprintf("%s.%d", strings.TrimPrefix(f, "log_path="), os.Getpid())
		}
	}
	return ""
}

func fileSize(path string) int64 {
	st, err := os.Stat(path)
	if err != nil {
		return 0
	}
	return st.Size()
}

// Race is one report of the detector, reduced to the two vouch functions involved.
type Race struct {
	A, B string
	Text string
}

const vouchMod = "github.com/attestantio/vouch/"

// ParseRaces extracts the reports whose two access stacks both lie in vouch code
// (first frame outside the Go runtime/standard library is a vouch function).
func ParseRaces(text string) []Race {
	var out []Race
	for _, rep := range strings.Split(text, "==================") {
		if !strings.Contains(rep, "WARNING: DATA RACE") {
			continue
		}
		// sections start with "Read at", "Write at", "Previous read at", "Previous write at", then "Goroutine ... created at"
		var sections []string
		var cur []string
		flush := func() {
			if len(cur) > 0 {
				sections = append(sections, strings.Join(cur, "\n"))
			}
			cur = nil
		}
		for _, l := range strings.Split(rep, "\n") {
			t := strings.TrimSpace(l)
			if strings.HasPrefix(t, "Read at") || strings.HasPrefix(t, "Write at") || strings.HasPrefix(t, "Previous read at") || strings.HasPrefix(t, "Previous write at") ||
				strings.HasPrefix(t, "Atomic") || strings.HasPrefix(t, "Previous atomic") {
				flush()
				cur = append(cur, t)
				continue
			}
			if strings.HasPrefix(t, "Goroutine ") {
				flush()
				break
			}
			if len(cur) > 0 {
				cur = append(cur, t)
			}
		}
		flush()
		if len(sections) < 2 {
			continue
		}
		site := func(sec string) string {
			for _, l := range strings.Split(sec, "\n")[1:] {
				if l == "" || strings.HasPrefix(l, "/") {
					continue
				}
				fn := l
				if i := strings.LastIndex(fn, "("); i > 0 {
					fn = fn[:i]
				}
				switch {
				case strings.HasPrefix(fn, vouchMod):
					return strings.TrimPrefix(strings.TrimPrefix(fn, vouchMod), "services/")
				case strings.HasPrefix(fn, "verif/"):
					return "" // harness code on top: not vouch's race
				case !strings.Contains(fn, "/") || strings.HasPrefix(fn, "runtime.") || strings.HasPrefix(fn, "sync") || strings.HasPrefix(fn, "internal/"):
					continue // runtime / standard library helper (map access, memmove ...)
				default:
					return "" // third-party library on top
				}
			}
			return ""
		}
		a, b := site(sections[0]), site(sections[1])
		if a == "" || b == "" {
			continue
		}
		if a > b {
			a, b = b, a
		}
		out = append(out, Race{A: a, B: b, Text: strings.TrimSpace(rep)})
	}
	return out
}

// Judge turns the race reports written during a run into a violation.
func Judge(before int64, out *sim.Outcome) {
	path := raceLog()
	if path == "" || !simrt.RaceEnabled {
		return
	}
	f, err := os.Open(path)
	if err != nil {
		return
	}
	defer f.Close()
	st, _ := f.Stat()
	if st.Size() <= before {
		return
	}
	buf := make([]byte, st.Size()-before)
	f.ReadAt(buf, before)
	races := ParseRaces(string(buf))
	out.Probes["race-reports-in-vouch"] += len(races)
	if len(races) == 0 {
		return
	}
	r := races[0]
	// The detector reports each race once per process, so the run that exposed this race in a
	// long-lived worker may show other (earlier reported) races first when replayed in a fresh process.
	if want := os.Getenv("VERIF_EXPECT"); want != "" {
		for _, x := range races {
			if "C17/race/"+x.A+"+"+x.B == want {
				r = x
			}
		}
	}
	text := r.Text
	if len(text) > 6000 {
		text = text[:6000]
	}
	out.Violation = &simrt.Violation{Kind: "C17/race/" + r.A + "+" + r.B, Detail: text}
}

func exec(plan any, sched *simrt.Tape) *sim.Outcome {
	pl := plan.(*syssim.Plan)
	out := &sim.Outcome{Probes: map[string]int{}, Sample: pl, Nontrivial: true}
	before := fileSize(raceLog())
	var rec *syssim.Record
	slot := time.Duration(pl.SecondsPerSlot) * time.Second
	horizon := 10*time.Minute + time.Duration(pl.HorizonSlots+2)*slot + time.Minute
	res := sim.Run(sched, horizon, 800000, nil, func(ctx context.Context) {
		rec = syssim.Run(ctx, pl, nil)
		simrt.Sleep(ctx, slot, "c17/drain")
	})
	out.Res = res
	if res.Violation != nil {
		out.Violation = res.Violation
		switch res.Violation.Kind {
		case "panic", "deadlock", "horizon":
			out.Violation.Kind = "C17/" + res.Violation.Kind
		}
		return out
	}
	if len(rec.BuildErrors) > 0 {
		out.Violation = Viol("harness-build", "services failed to start: %v", rec.BuildErrors)
		return out
	}
	Judge(before, out)
	return out
}

// focused scenarios of other properties, re-run in the -race binary: only the race detector's verdict counts here
var focused = [][2]string{
	{"C12", "config-source-chaos"}, {"C12", "lookups-and-rounds"}, {"C11", "registration-rounds"},
	{"C05", "propose"}, {"C18", "cache"}, {"C08", "multinode-attestations"}, {"C08", "multinode-sync-committee-messages"}, {"C01", "attest-runs"}, {"C13", "dirk"}, {"C13", "wallet"},
}

func init() {
	sim.Register(&sim.Scenario{Property: "C17", Name: "system", Gen: gen, Exec: exec, Weight: 3, Race: true})
	for _, ref := range focused {
		src := sim.Find(ref[0], ref[1])
		if src == nil {
			continue
		}
		inner := src.Exec
		sim.Register(&sim.Scenario{Property: "C17", Name: ref[0] + "-" + ref[1], Gen: src.Gen, Weight: 3, Race: true, Exec: func(plan any, sched *simrt.Tape) *sim.Outcome {
			before := fileSize(raceLog())
			c12.AtomicityClauses = true
			c13.AtomicityClauses = true
			o := inner(plan, sched)
			if o == nil {
				return o
			}
			if o.Violation != nil && o.Violation.Kind == "C01/double-sign-request" && strings.Contains(o.Violation.Detail, attsim.OverlapMarker) {
				// two overlapping duty jobs both signed for one validator and epoch: the outcome of
				// no sequential order of the two jobs (the check-and-mark of the attester is not atomic)
				o.Violation.Kind = "C17/non-sequential/double-attestation-by-overlapping-duty-jobs"
				return o
			}
			if o.Violation != nil && strings.HasPrefix(o.Violation.Kind, "C17/non-sequential/") {
				return o
			}
			if o.Violation != nil && !strings.HasPrefix(o.Violation.Kind, "harness-") {
				o.Violation = nil // that verdict belongs to the other property's check
			}
			if o.Probes == nil {
				o.Probes = map[string]int{}
			}
			o.Nontrivial = true
			if o.Violation == nil {
				Judge(before, o)
			}
			return o
		}})
	}
}
