package c17

import (
	"context"
	"os"
	"testing"
	"testing/synctest"
	"time"

	"github.com/attestantio/go-eth2-client/spec/phase0"
	"github.com/attestantio/vouch/services/synccommitteemessenger"

	"verif/sim"
	"verif/simrt"
)

// TestRaceAcrossTime: does the detector report two unsynchronised accesses that are separated by simulated time?
func TestRaceAcrossTime(t *testing.T) {
	if os.Getenv("VERIF_ACROSS") == "" {
		t.Skip()
	}
	synctest.Test(t, func(t *testing.T) {
		tape := simrt.NewTape(1, nil)
		sim.Run(tape, time.Minute, 10000, nil, func(ctx context.Context) {
			d := synccommitteemessenger.NewDuty(5, map[phase0.ValidatorIndex][]phase0.CommitteeIndex{1: {0}})
			simrt.Go("reader", func() {
				simrt.Sleep(ctx, time.Second, "r")
				_ = d.AggregatorSubcommittees(1)
			})
			simrt.Sleep(ctx, 500*time.Millisecond, "w")
			d.SetAggregatorSubcommittees(1, 0, phase0.BLSSignature{})
			simrt.Sleep(ctx, 2*time.Second, "end")
		})
	})
}
