package env

import (
	"context"
	"time"

	eth2client "github.com/attestantio/go-eth2-client"
	"github.com/attestantio/go-eth2-client/api"
	apiv1 "github.com/attestantio/go-eth2-client/api/v1"
	"github.com/attestantio/go-eth2-client/spec/phase0"
	"github.com/attestantio/vouch/services/chaintime"
	standardchaintime "github.com/attestantio/vouch/services/chaintime/standard"
	"github.com/rs/zerolog"
)

// Chain holds the consensus parameters of one simulated chain.
type Chain struct {
	GenesisTime                          time.Time
	SecondsPerSlot                       uint64
	SlotsPerEpoch                        uint64
	EpochsPerSyncCommitteePeriod         uint64
	SyncCommitteeSize                    uint64
	SyncCommitteeSubnetCount             uint64
	TargetAggregatorsPerCommittee        uint64
	TargetAggregatorsPerSyncSubcommittee uint64
	GenesisValidatorsRoot                phase0.Root
	GenesisForkVersion                   phase0.Version
	// Fork epochs; FarFuture = not scheduled.
	AltairForkEpoch, BellatrixForkEpoch, CapellaForkEpoch, DenebForkEpoch phase0.Epoch
	// Extra lets a scenario override or add spec entries.
	Extra map[string]any
}

// FarFuture is the "never" epoch.
const FarFuture = phase0.Epoch(0xffffffffffffffff)

// DefaultChain returns mainnet-like parameters with short epochs, genesis at
// the start of simulated time plus offset.
func DefaultChain(genesisOffset time.Duration) *Chain {
	c := &Chain{
		GenesisTime:                          SimEpoch.Add(genesisOffset),
		SecondsPerSlot:                       12,
		SlotsPerEpoch:                        8,
		EpochsPerSyncCommitteePeriod:         4,
		SyncCommitteeSize:                    16,
		SyncCommitteeSubnetCount:             4,
		TargetAggregatorsPerCommittee:        16,
		TargetAggregatorsPerSyncSubcommittee: 16,
		GenesisForkVersion:                   phase0.Version{0, 0, 0, 1},
		AltairForkEpoch:                      0,
		BellatrixForkEpoch:                   0,
		CapellaForkEpoch:                     0,
		DenebForkEpoch:                       0,
	}
	for i := range c.GenesisValidatorsRoot {
		c.GenesisValidatorsRoot[i] = byte(0xa0 + i%16)
	}
	return c
}

// Domain types of the consensus and builder specifications.
var (
	DomainBeaconProposer              = phase0.DomainType{0, 0, 0, 0}
	DomainBeaconAttester              = phase0.DomainType{1, 0, 0, 0}
	DomainRandao                      = phase0.DomainType{2, 0, 0, 0}
	DomainDeposit                     = phase0.DomainType{3, 0, 0, 0}
	DomainVoluntaryExit               = phase0.DomainType{4, 0, 0, 0}
	DomainSelectionProof              = phase0.DomainType{5, 0, 0, 0}
	DomainAggregateAndProof           = phase0.DomainType{6, 0, 0, 0}
	DomainSyncCommittee               = phase0.DomainType{7, 0, 0, 0}
	DomainSyncCommitteeSelectionProof = phase0.DomainType{8, 0, 0, 0}
	DomainContributionAndProof        = phase0.DomainType{9, 0, 0, 0}
	DomainBlobSidecar                 = phase0.DomainType{11, 0, 0, 0}
	DomainApplicationBuilder          = phase0.DomainType{0, 0, 0, 1}
)

// ForkVersionAt returns the fork version in force at epoch (distinct per fork).
func (c *Chain) ForkVersionAt(epoch phase0.Epoch) phase0.Version {
	v := c.GenesisForkVersion
	if c.AltairForkEpoch != FarFuture && epoch >= c.AltairForkEpoch {
		v = phase0.Version{1, 0, 0, 1}
	}
	if c.BellatrixForkEpoch != FarFuture && epoch >= c.BellatrixForkEpoch {
		v = phase0.Version{2, 0, 0, 1}
	}
	if c.CapellaForkEpoch != FarFuture && epoch >= c.CapellaForkEpoch {
		v = phase0.Version{3, 0, 0, 1}
	}
	if c.DenebForkEpoch != FarFuture && epoch >= c.DenebForkEpoch {
		v = phase0.Version{4, 0, 0, 1}
	}
	return v
}

// ComputeDomain is the consensus specification's compute_domain.
func ComputeDomain(domainType phase0.DomainType, forkVersion phase0.Version, genesisValidatorsRoot phase0.Root) phase0.Domain {
	fd := &phase0.ForkData{CurrentVersion: forkVersion, GenesisValidatorsRoot: genesisValidatorsRoot}
	root, err := fd.HashTreeRoot()
	if err != nil {
		panic(err)
	}
	var d phase0.Domain
	copy(d[:4], domainType[:])
	copy(d[4:], root[:28])
	return d
}

// DomainAt is the spec domain for a duty of the given type in epoch.  The
// builder domain uses the genesis fork version and a zero validators root.
func (c *Chain) DomainAt(domainType phase0.DomainType, epoch phase0.Epoch) phase0.Domain {
	if domainType == DomainApplicationBuilder {
		return ComputeDomain(domainType, c.GenesisForkVersion, phase0.Root{})
	}
	return ComputeDomain(domainType, c.ForkVersionAt(epoch), c.GenesisValidatorsRoot)
}

// SpecMap renders the parameters the way go-eth2-client's Spec() does.
func (c *Chain) SpecMap() map[string]any {
	m := map[string]any{
		"SECONDS_PER_SLOT":                         time.Duration(c.SecondsPerSlot) * time.Second,
		"SLOTS_PER_EPOCH":                          c.SlotsPerEpoch,
		"EPOCHS_PER_SYNC_COMMITTEE_PERIOD":         c.EpochsPerSyncCommitteePeriod,
		"SYNC_COMMITTEE_SIZE":                      c.SyncCommitteeSize,
		"SYNC_COMMITTEE_SUBNET_COUNT":              c.SyncCommitteeSubnetCount,
		"TARGET_AGGREGATORS_PER_COMMITTEE":         c.TargetAggregatorsPerCommittee,
		"TARGET_AGGREGATORS_PER_SYNC_SUBCOMMITTEE": c.TargetAggregatorsPerSyncSubcommittee,
		"DOMAIN_BEACON_PROPOSER":                   DomainBeaconProposer,
		"DOMAIN_BEACON_ATTESTER":                   DomainBeaconAttester,
		"DOMAIN_RANDAO":                            DomainRandao,
		"DOMAIN_DEPOSIT":                           DomainDeposit,
		"DOMAIN_VOLUNTARY_EXIT":                    DomainVoluntaryExit,
		"DOMAIN_SELECTION_PROOF":                   DomainSelectionProof,
		"DOMAIN_AGGREGATE_AND_PROOF":               DomainAggregateAndProof,
		"DOMAIN_SYNC_COMMITTEE":                    DomainSyncCommittee,
		"DOMAIN_SYNC_COMMITTEE_SELECTION_PROOF":    DomainSyncCommitteeSelectionProof,
		"DOMAIN_CONTRIBUTION_AND_PROOF":            DomainContributionAndProof,
		"DOMAIN_BLOB_SIDECAR":                      DomainBlobSidecar,
		"DOMAIN_APPLICATION_BUILDER":               DomainApplicationBuilder,
		"GENESIS_FORK_VERSION":                     c.GenesisForkVersion,
		"PROPOSER_WEIGHT":                          uint64(8),
		"SYNC_REWARD_WEIGHT":                       uint64(2),
		"TIMELY_HEAD_WEIGHT":                       uint64(14),
		"TIMELY_SOURCE_WEIGHT":                     uint64(14),
		"TIMELY_TARGET_WEIGHT":                     uint64(26),
		"WEIGHT_DENOMINATOR":                       uint64(64),
	}
	if c.AltairForkEpoch != FarFuture {
		m["ALTAIR_FORK_EPOCH"] = uint64(c.AltairForkEpoch)
	}
	if c.BellatrixForkEpoch != FarFuture {
		m["BELLATRIX_FORK_EPOCH"] = uint64(c.BellatrixForkEpoch)
	}
	if c.CapellaForkEpoch != FarFuture {
		m["CAPELLA_FORK_EPOCH"] = uint64(c.CapellaForkEpoch)
	}
	if c.DenebForkEpoch != FarFuture {
		m["DENEB_FORK_EPOCH"] = uint64(c.DenebForkEpoch)
	}
	for k, v := range c.Extra {
		m[k] = v
	}
	return m
}

// ChainProviders serves Genesis, Spec, Domain, FarFutureEpoch and
// ForkSchedule from the chain parameters, with no latency and no faults.
type ChainProviders struct {
	C *Chain
	// OmitSpec: keys left out of the specification the node serves.
	OmitSpec []string
}

var (
	_ eth2client.GenesisProvider = (*ChainProviders)(nil)
	_ eth2client.SpecProvider    = (*ChainProviders)(nil)
	_ eth2client.DomainProvider  = (*ChainProviders)(nil)
)

func (p *ChainProviders) Name() string    { return "chain" }
func (p *ChainProviders) Address() string { return "chain" }
func (p *ChainProviders) IsActive() bool  { return true }
func (p *ChainProviders) IsSynced() bool  { return true }

func (p *ChainProviders) Genesis(_ context.Context, _ *api.GenesisOpts) (*api.Response[*apiv1.Genesis], error) {
	return &api.Response[*apiv1.Genesis]{Data: &apiv1.Genesis{GenesisTime: p.C.GenesisTime, GenesisValidatorsRoot: p.C.GenesisValidatorsRoot, GenesisForkVersion: p.C.GenesisForkVersion}, Metadata: map[string]any{}}, nil
}

func (p *ChainProviders) Spec(_ context.Context, _ *api.SpecOpts) (*api.Response[map[string]any], error) {
	m := p.C.SpecMap()
	for _, k := range p.OmitSpec {
		delete(m, k) // a node that does not know the key (older release, other fork schedule)
	}
	return &api.Response[map[string]any]{Data: m, Metadata: map[string]any{}}, nil
}

func (p *ChainProviders) Domain(_ context.Context, domainType phase0.DomainType, epoch phase0.Epoch) (phase0.Domain, error) {
	return p.C.DomainAt(domainType, epoch), nil
}

func (p *ChainProviders) GenesisDomain(_ context.Context, domainType phase0.DomainType) (phase0.Domain, error) {
	return ComputeDomain(domainType, p.C.GenesisForkVersion, phase0.Root{}), nil
}

func (p *ChainProviders) FarFutureEpoch(_ context.Context) (phase0.Epoch, error) {
	return FarFuture, nil
}

func (p *ChainProviders) ForkSchedule(_ context.Context, _ *api.ForkScheduleOpts) (*api.Response[[]*phase0.Fork], error) {
	var out []*phase0.Fork
	prev := p.C.GenesisForkVersion
	out = append(out, &phase0.Fork{PreviousVersion: prev, CurrentVersion: prev, Epoch: 0})
	for _, e := range []phase0.Epoch{p.C.AltairForkEpoch, p.C.BellatrixForkEpoch, p.C.CapellaForkEpoch, p.C.DenebForkEpoch} {
		if e == FarFuture {
			continue
		}
		cur := p.C.ForkVersionAt(e)
		if cur == prev {
			continue
		}
		out = append(out, &phase0.Fork{PreviousVersion: prev, CurrentVersion: cur, Epoch: e})
		prev = cur
	}
	return &api.Response[[]*phase0.Fork]{Data: out, Metadata: map[string]any{}}, nil
}

// NewChainTime builds the real chaintime service over the chain parameters.
func NewChainTime(ctx context.Context, c *Chain) chaintime.Service {
	p := &ChainProviders{C: c}
	ct, err := standardchaintime.New(ctx, standardchaintime.WithLogLevel(zerolog.Disabled), standardchaintime.WithGenesisProvider(p), standardchaintime.WithSpecProvider(p))
	if err != nil {
		panic(err)
	}
	return ct
}

// Slot/epoch arithmetic of the oracle (independent of vouch's chaintime).
func (c *Chain) SlotStart(slot uint64) time.Time {
	return c.GenesisTime.Add(time.Duration(slot*c.SecondsPerSlot) * time.Second)
}
func (c *Chain) EpochOf(slot uint64) uint64 { return slot / c.SlotsPerEpoch }
func (c *Chain) SlotAt(t time.Time) uint64 {
	if t.Before(c.GenesisTime) {
		return 0
	}
	return uint64(t.Sub(c.GenesisTime)/time.Second) / c.SecondsPerSlot
}
