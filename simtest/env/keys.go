package env

import (
	"context"
	"crypto/sha256"
	"encoding/binary"
	"errors"
	"fmt"
	"sync"
	"time"

	"github.com/attestantio/go-eth2-client/spec/phase0"
	"github.com/google/uuid"
	e2types "github.com/wealdtech/go-eth2-types/v2"
	e2wtypes "github.com/wealdtech/go-eth2-wallet-types/v2"

	"verif/simrt"
)

var blsOnce sync.Once

// InitBLS initialises the BLS library (idempotent).
func InitBLS() {
	blsOnce.Do(func() {
		if err := e2types.InitBLS(); err != nil {
			panic(err)
		}
	})
}

var keyCache sync.Map // int -> *e2types.BLSPrivateKey

// PrivKey returns the deterministic BLS private key number i.
func PrivKey(i int) *e2types.BLSPrivateKey {
	InitBLS()
	if k, ok := keyCache.Load(i); ok {
		return k.(*e2types.BLSPrivateKey)
	}
	h := sha256.Sum256([]byte(fmt.Sprintf("verif-bls-key-%d", i)))
	h[0] &= 0x3f // keep it below the group order
	k, err := e2types.BLSPrivateKeyFromBytes(h[:])
	if err != nil {
		panic(err)
	}
	keyCache.Store(i, k)
	return k
}

// PubKey returns the public key of key i in go-eth2-client form.
func PubKey(i int) phase0.BLSPubKey {
	var pk phase0.BLSPubKey
	copy(pk[:], PrivKey(i).PublicKey().Marshal())
	return pk
}

// AccountKind selects which of the wallet interfaces a stub account offers.
type AccountKind int

const (
	// KindPlain offers AccountSigner only (like a local nd wallet account).
	KindPlain AccountKind = iota
	// KindProtecting offers AccountProtectingSigner (single requests).
	KindProtecting
	// KindMulti offers AccountProtectingSigner and AccountProtectingMultiSigner (like Dirk).
	KindMulti
	// KindDistributed is KindMulti plus the DistributedAccount methods (share key != composite key).
	KindDistributed
)

// SignReq is one request seen by the (simulated) remote signer.
type SignReq struct {
	Seq        int           // index in the log
	Step       int           // simrt step at which it arrived
	T          time.Duration // simulated time
	Method     string        // Sign | SignGeneric | SignGenericMulti | SignBeaconAttestation | SignBeaconAttestations | SignBeaconProposal
	KeyIndex   int           // which validator key (composite key for distributed accounts)
	BatchIndex int           // position in a multi request
	BatchSize  int
	Data       []byte // object root (generic) or the pre-hashed signing root (Sign)
	Domain     []byte
	// attestation / proposal fields (protecting methods)
	Slot, CommitteeIndex, SourceEpoch, TargetEpoch, ProposerIndex      uint64
	BlockRoot, SourceRoot, TargetRoot, ParentRoot, StateRoot, BodyRoot []byte
	Outcome                                                            string // ok | error | zero(nil signature in batch)
	Signature                                                          []byte
	Tag                                                                string // free-form tag set by the scenario (e.g. which run)
}

// SignerFault decides the fate of one signing request: "" (sign), "error"
// (the whole call fails), "zero" (that entry gets no signature; batches only).
type SignerFault func(r *SignReq) (outcome string, latency time.Duration)

// SignerLog is the signer-side history; it survives restarts of vouch.
type SignerLog struct {
	Reqs  []*SignReq
	Fault SignerFault
}

func (l *SignerLog) add(r *SignReq) {
	simrt.Crit(func() {
		r.Seq = len(l.Reqs)
		l.Reqs = append(l.Reqs, r)
	})
}

// Snapshot returns the requests recorded so far.
func (l *SignerLog) Snapshot() []*SignReq {
	var out []*SignReq
	simrt.Crit(func() { out = append(out, l.Reqs...) })
	return out
}

// BySignature finds the request that produced a signature.
func (l *SignerLog) BySignature(sig []byte) *SignReq {
	for _, r := range l.Snapshot() {
		if r.Signature != nil && string(r.Signature) == string(sig) {
			return r
		}
	}
	return nil
}

// StubAccount is a simulated wallet account backed by a real BLS key.
type StubAccount struct {
	id       uuid.UUID
	name     string
	KeyIndex int // validator (composite) key
	ShareKey int // distributed accounts: key returned by PublicKey()
	Kind     AccountKind
	Log      *SignerLog
	wallet   e2wtypes.Wallet
}

func (a *StubAccount) ID() uuid.UUID { return a.id }
func (a *StubAccount) Name() string  { return a.name }
func (a *StubAccount) PublicKey() e2types.PublicKey {
	if a.Kind == KindDistributed {
		return PrivKey(a.ShareKey).PublicKey()
	}
	return PrivKey(a.KeyIndex).PublicKey()
}
func (a *StubAccount) Wallet() e2wtypes.Wallet     { return a.wallet }
func (a *StubAccount) SetWallet(w e2wtypes.Wallet) { a.wallet = w }

// ValidatorPubKey is the key the chain knows the validator by.
func (a *StubAccount) ValidatorPubKey() phase0.BLSPubKey { return PubKey(a.KeyIndex) }

func (a *StubAccount) begin(ctx context.Context, r *SignReq) (string, error) {
	r.Step, r.T, r.KeyIndex = simrt.Step(), simrt.Now(), a.KeyIndex
	outcome := ""
	var lat time.Duration
	if a.Log.Fault != nil {
		outcome, lat = a.Log.Fault(r)
	}
	a.Log.add(r)
	if err := simrt.Sleep(ctx, lat, "signer/"+r.Method); err != nil {
		r.Outcome = "cancelled"
		return "error", err
	}
	if outcome != "" {
		simrt.Probe("fault:signer-" + outcome)
	}
	return outcome, nil
}

func signingRoot(data, domain []byte) [32]byte {
	var sd phase0.SigningData
	copy(sd.ObjectRoot[:], data)
	copy(sd.Domain[:], domain)
	root, err := sd.HashTreeRoot()
	if err != nil {
		panic(err)
	}
	return root
}

func (a *StubAccount) sign(r *SignReq, root []byte) e2types.Signature {
	sig := PrivKey(a.KeyIndex).Sign(root)
	r.Signature = sig.Marshal()
	r.Outcome = "ok"
	return sig
}

var errSigner = errors.New("simulated signer failure")

func attDataRoot(slot, committeeIndex uint64, blockRoot []byte, sourceEpoch uint64, sourceRoot []byte, targetEpoch uint64, targetRoot []byte) []byte {
	ad := &phase0.AttestationData{Slot: phase0.Slot(slot), Index: phase0.CommitteeIndex(committeeIndex),
		Source: &phase0.Checkpoint{Epoch: phase0.Epoch(sourceEpoch)}, Target: &phase0.Checkpoint{Epoch: phase0.Epoch(targetEpoch)}}
	copy(ad.BeaconBlockRoot[:], blockRoot)
	copy(ad.Source.Root[:], sourceRoot)
	copy(ad.Target.Root[:], targetRoot)
	root, err := ad.HashTreeRoot()
	if err != nil {
		panic(err)
	}
	return root[:]
}

// plainAccount exposes Sign only.
type plainAccount struct{ *StubAccount }

func (a plainAccount) Sign(ctx context.Context, data []byte) (e2types.Signature, error) {
	r := &SignReq{Method: "Sign", Data: append([]byte{}, data...), BatchSize: 1}
	out, err := a.begin(ctx, r)
	if err != nil {
		return nil, err
	}
	if out != "" {
		r.Outcome = out
		return nil, errSigner
	}
	return a.sign(r, data), nil
}

// protAccount exposes the protecting single-request methods.
type protAccount struct{ *StubAccount }

func (a protAccount) SignGeneric(ctx context.Context, data []byte, domain []byte) (e2types.Signature, error) {
	r := &SignReq{Method: "SignGeneric", Data: append([]byte{}, data...), Domain: append([]byte{}, domain...), BatchSize: 1}
	out, err := a.begin(ctx, r)
	if err != nil {
		return nil, err
	}
	if out != "" {
		r.Outcome = out
		return nil, errSigner
	}
	root := signingRoot(data, domain)
	return a.sign(r, root[:]), nil
}

func (a protAccount) SignBeaconProposal(ctx context.Context, slot uint64, proposerIndex uint64, parentRoot []byte, stateRoot []byte, bodyRoot []byte, domain []byte) (e2types.Signature, error) {
	r := &SignReq{Method: "SignBeaconProposal", Slot: slot, ProposerIndex: proposerIndex, ParentRoot: append([]byte{}, parentRoot...),
		StateRoot: append([]byte{}, stateRoot...), BodyRoot: append([]byte{}, bodyRoot...), Domain: append([]byte{}, domain...), BatchSize: 1}
	out, err := a.begin(ctx, r)
	if err != nil {
		return nil, err
	}
	if out != "" {
		r.Outcome = out
		return nil, errSigner
	}
	hdr := &phase0.BeaconBlockHeader{Slot: phase0.Slot(slot), ProposerIndex: phase0.ValidatorIndex(proposerIndex)}
	copy(hdr.ParentRoot[:], parentRoot)
	copy(hdr.StateRoot[:], stateRoot)
	copy(hdr.BodyRoot[:], bodyRoot)
	hr, err := hdr.HashTreeRoot()
	if err != nil {
		return nil, err
	}
	r.Data = hr[:]
	root := signingRoot(hr[:], domain)
	return a.sign(r, root[:]), nil
}

func (a protAccount) SignBeaconAttestation(ctx context.Context, slot uint64, committeeIndex uint64, blockRoot []byte, sourceEpoch uint64, sourceRoot []byte, targetEpoch uint64, targetRoot []byte, domain []byte) (e2types.Signature, error) {
	r := &SignReq{Method: "SignBeaconAttestation", Slot: slot, CommitteeIndex: committeeIndex, BlockRoot: append([]byte{}, blockRoot...),
		SourceEpoch: sourceEpoch, SourceRoot: append([]byte{}, sourceRoot...), TargetEpoch: targetEpoch, TargetRoot: append([]byte{}, targetRoot...),
		Domain: append([]byte{}, domain...), BatchSize: 1}
	out, err := a.begin(ctx, r)
	if err != nil {
		return nil, err
	}
	if out != "" {
		r.Outcome = out
		return nil, errSigner
	}
	r.Data = attDataRoot(slot, committeeIndex, blockRoot, sourceEpoch, sourceRoot, targetEpoch, targetRoot)
	root := signingRoot(r.Data, domain)
	return a.sign(r, root[:]), nil
}

// multiAccount adds the batch methods.
type multiAccount struct{ protAccount }

func stubOf(acc e2wtypes.Account) *StubAccount {
	switch a := acc.(type) {
	case plainAccount:
		return a.StubAccount
	case protAccount:
		return a.StubAccount
	case multiAccount:
		return a.StubAccount
	case distAccount:
		return a.StubAccount
	}
	return nil
}

// StubOf returns the stub behind an account handed out by NewAccount (nil otherwise).
func StubOf(acc e2wtypes.Account) *StubAccount { return stubOf(acc) }

func (a multiAccount) SignBeaconAttestations(ctx context.Context, slot uint64, accounts []e2wtypes.Account, committeeIndices []uint64, blockRoot []byte, sourceEpoch uint64, sourceRoot []byte, targetEpoch uint64, targetRoot []byte, domain []byte) ([]e2types.Signature, error) {
	sigs := make([]e2types.Signature, len(accounts))
	reqs := make([]*SignReq, len(accounts))
	fail := false
	var lat time.Duration
	for i, acc := range accounts {
		sa := stubOf(acc)
		r := &SignReq{Method: "SignBeaconAttestations", Slot: slot, BlockRoot: append([]byte{}, blockRoot...),
			SourceEpoch: sourceEpoch, SourceRoot: append([]byte{}, sourceRoot...), TargetEpoch: targetEpoch, TargetRoot: append([]byte{}, targetRoot...),
			Domain: append([]byte{}, domain...), BatchIndex: i, BatchSize: len(accounts)}
		if i < len(committeeIndices) {
			r.CommitteeIndex = committeeIndices[i]
		}
		r.Step, r.T = simrt.Step(), simrt.Now()
		if sa == nil {
			r.KeyIndex = -1
			r.Outcome = "nil-account"
			a.Log.add(r)
			reqs[i] = r
			continue
		}
		r.KeyIndex = sa.KeyIndex
		if a.Log.Fault != nil {
			o, l := a.Log.Fault(r)
			r.Outcome = o
			if l > lat {
				lat = l
			}
			if o == "error" {
				fail = true
			}
		}
		a.Log.add(r)
		reqs[i] = r
	}
	if err := simrt.Sleep(ctx, lat, "signer/SignBeaconAttestations"); err != nil {
		return nil, err
	}
	if fail {
		simrt.Probe("fault:signer-error")
		return nil, errSigner
	}
	for i, r := range reqs {
		if r.Outcome == "zero" {
			simrt.Probe("fault:signer-zero")
			continue
		}
		if r.KeyIndex < 0 {
			continue
		}
		sa := stubOf(accounts[i])
		r.Data = attDataRoot(slot, r.CommitteeIndex, blockRoot, sourceEpoch, sourceRoot, targetEpoch, targetRoot)
		root := signingRoot(r.Data, domain)
		sigs[i] = sa.sign(r, root[:])
	}
	return sigs, nil
}

func (a multiAccount) SignGenericMulti(ctx context.Context, accounts []e2wtypes.Account, data [][]byte, domain []byte) ([]e2types.Signature, error) {
	sigs := make([]e2types.Signature, len(accounts))
	reqs := make([]*SignReq, len(accounts))
	fail := false
	var lat time.Duration
	for i, acc := range accounts {
		sa := stubOf(acc)
		r := &SignReq{Method: "SignGenericMulti", Domain: append([]byte{}, domain...), BatchIndex: i, BatchSize: len(accounts)}
		if i < len(data) {
			r.Data = append([]byte{}, data[i]...)
		}
		r.Step, r.T = simrt.Step(), simrt.Now()
		if sa == nil {
			r.KeyIndex = -1
			r.Outcome = "nil-account"
			a.Log.add(r)
			reqs[i] = r
			continue
		}
		r.KeyIndex = sa.KeyIndex
		if a.Log.Fault != nil {
			o, l := a.Log.Fault(r)
			r.Outcome = o
			if l > lat {
				lat = l
			}
			if o == "error" {
				fail = true
			}
		}
		a.Log.add(r)
		reqs[i] = r
	}
	if err := simrt.Sleep(ctx, lat, "signer/SignGenericMulti"); err != nil {
		return nil, err
	}
	if fail {
		simrt.Probe("fault:signer-error")
		return nil, errSigner
	}
	for i, r := range reqs {
		if r.Outcome == "zero" {
			simrt.Probe("fault:signer-zero")
			continue
		}
		if r.KeyIndex < 0 || r.Data == nil {
			continue
		}
		root := signingRoot(r.Data, domain)
		sigs[i] = stubOf(accounts[i]).sign(r, root[:])
	}
	return sigs, nil
}

// distAccount adds the distributed-account methods.
type distAccount struct{ multiAccount }

func (a distAccount) CompositePublicKey() e2types.PublicKey { return PrivKey(a.KeyIndex).PublicKey() }
func (a distAccount) SigningThreshold() uint32              { return 2 }
func (a distAccount) Participants() map[uint64]string {
	return map[uint64]string{1: "signer1:1", 2: "signer2:1", 3: "signer3:1"}
}

// NewAccount creates a stub account of the given kind for validator key keyIndex.
func NewAccount(log *SignerLog, kind AccountKind, keyIndex int, name string) e2wtypes.Account {
	InitBLS()
	var idb [16]byte
	binary.BigEndian.PutUint64(idb[8:], uint64(keyIndex)+1)
	sa := &StubAccount{id: uuid.UUID(idb), name: name, KeyIndex: keyIndex, ShareKey: 100000 + keyIndex, Kind: kind, Log: log}
	switch kind {
	case KindPlain:
		return plainAccount{sa}
	case KindProtecting:
		return protAccount{sa}
	case KindMulti:
		return multiAccount{protAccount{sa}}
	default:
		return distAccount{multiAccount{protAccount{sa}}}
	}
}

// VerifySig checks sig against the key of keyIndex over signingRoot(objectRoot, domain).
func VerifySig(keyIndex int, objectRoot [32]byte, domain phase0.Domain, sig phase0.BLSSignature) bool {
	s, err := e2types.BLSSignatureFromBytes(sig[:])
	if err != nil {
		return false
	}
	root := signingRoot(objectRoot[:], domain[:])
	return s.Verify(root[:], PrivKey(keyIndex).PublicKey())
}
