package env

import (
	"context"
	"errors"
	"fmt"
	"time"

	"verif/simrt"
)

// Outcome of one call to a simulated party, fixed by the plan before the run.
type Outcome struct {
	Latency time.Duration `json:"lat"`
	// Kind: "" answer normally | "error" | "hang" (no answer until the caller
	// gives up or ClientTimeout passes, then an error) | "blackhole" (no answer ever: only the
	// caller's context ends the request) | "odd" (scenario-defined odd content)
	Kind    string `json:"kind,omitempty"`
	Variant int    `json:"variant,omitempty"` // scenario-defined content selector
}

// ClientTimeout is what a "hang" turns into, like the HTTP client's own timeout.
const ClientTimeout = 2 * time.Minute

// ErrSimulated is returned for injected errors.
var ErrSimulated = errors.New("simulated failure")

// Script hands out per-(party, method, call index) outcomes.
type Script struct {
	// Outcomes[party+"/"+method] is consumed in call order; when exhausted Default applies.
	Outcomes map[string][]Outcome
	Default  Outcome
	counts   map[string]int
	Calls    []CallRec
}

// CallRec records one call to a party.
type CallRec struct {
	Party, Method string
	Index         int
	Step          int
	T             time.Duration
	EndStep       int
	EndT          time.Duration
	Outcome       Outcome
	Cancelled     bool
	Arg           any
}

// Next returns the outcome for the next call of party/method and records the call.
func (s *Script) Next(party, method string, arg any) (Outcome, *CallRec) {
	var o Outcome
	var rec *CallRec
	simrt.Crit(func() {
		if s.counts == nil {
			s.counts = map[string]int{}
		}
		key := party + "/" + method
		i := s.counts[key]
		s.counts[key] = i + 1
		o = s.Default
		if l := s.Outcomes[key+"!"]; len(l) > 0 {
			o = l[0] // "party/method!": every call
		} else if l := s.Outcomes[key]; i < len(l) {
			o = l[i]
		} else if l := s.Outcomes[party+"/*"]; i < len(l) {
			o = l[i]
		}
		s.Calls = append(s.Calls, CallRec{Party: party, Method: method, Index: i, Step: simrt.Step(), T: simrt.Now(), Outcome: o, Arg: arg})
		rec = &s.Calls[len(s.Calls)-1]
	})
	return o, rec
}

// Do performs the timing part of a simulated call: waits the latency (or hangs),
// honours ctx cancellation like the real clients, and returns the injected error if any.
// The returned *CallRec pointer is only valid until the next call to Next; use Finish to stamp it.
func (s *Script) Do(ctx context.Context, party, method string, arg any) (Outcome, error) {
	o, _ := s.Next(party, method, arg)
	idx := -1
	simrt.Crit(func() { idx = len(s.Calls) - 1 })
	finish := func(cancelled bool) {
		simrt.Crit(func() {
			s.Calls[idx].EndStep, s.Calls[idx].EndT, s.Calls[idx].Cancelled = simrt.Step(), simrt.Now(), cancelled
		})
	}
	lat := o.Latency
	if o.Kind == "hang" {
		lat = ClientTimeout
	}
	if o.Kind == "blackhole" {
		// never answers and the client has no timeout of its own: the request only ends with its context
		simrt.Probe("fault:" + method + "-blackhole")
		lat = 1000 * time.Hour
	}
	if err := simrt.Sleep(ctx, lat, party+"/"+method); err != nil {
		finish(true)
		return o, err
	}
	finish(false)
	switch o.Kind {
	case "error":
		simrt.Probe("fault:" + method + "-error")
		return o, fmt.Errorf("%s %s: %w", party, method, ErrSimulated)
	case "hang", "blackhole":
		simrt.Probe("fault:" + method + "-hang")
		return o, fmt.Errorf("%s %s: timeout: %w", party, method, ErrSimulated)
	case "odd":
		simrt.Probe("fault:" + method + "-odd")
	}
	if o.Latency > 0 {
		simrt.Probe("fault:latency")
	}
	return o, nil
}

// CallsOf returns the recorded calls of party/method ("" = any).
func (s *Script) CallsOf(party, method string) []CallRec {
	var out []CallRec
	simrt.Crit(func() {
		for _, c := range s.Calls {
			if (party == "" || c.Party == party) && (method == "" || c.Method == method) {
				out = append(out, c)
			}
		}
	})
	return out
}

// LatencyLattice returns latencies around the deadlines of a call with the
// given timeout: well before, just before, at, just after the soft (t/2) and hard (t) deadline.
func LatencyLattice(timeout time.Duration) []time.Duration {
	soft := timeout / 2
	return []time.Duration{0, 1, time.Millisecond, soft - 1, soft, soft + 1, (soft + timeout) / 2, timeout - 1, timeout, timeout + 1, timeout + time.Second}
}
