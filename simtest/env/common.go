// Package env holds what the per-property scenario packages share: stub
// parties, key material, chain parameters and small helpers.
package env

import (
	"fmt"
	"sort"
	"time"

	"github.com/rs/zerolog"
	"github.com/sasha-s/go-deadlock"

	"verif/simrt"
)

func init() {
	zerolog.SetGlobalLevel(zerolog.Disabled)
	// go-deadlock identifies goroutines through petermattis/goid, which
	// returns 0 for every goroutine under go1.26; its own detector would then
	// raise false "recursive locking" alarms.  Lock misuse is detected by the
	// simulator's modelled locks instead.
	deadlock.Opts.Disable = true
}

func Viol(kind, format string, a ...any) *simrt.Violation {
	return &simrt.Violation{Kind: kind, Detail: fmt.Sprintf(format, a...)}
}

func SortedKeys[V any](m map[string]V) []string {
	ks := make([]string, 0, len(m))
	for k := range m {
		ks = append(ks, k)
	}
	sort.Strings(ks)
	return ks
}

// SimEpoch is the fake clock's start inside every bubble.
var SimEpoch = time.Date(2000, 1, 1, 0, 0, 0, 0, time.UTC)
