// Package env holds what the per-property scenario packages share: stub
// parties, key material, chain parameters and small helpers.
package env

import (
	"fmt"
	"sort"
	"strings"
	"time"

	"github.com/rs/zerolog"
	"github.com/sasha-s/go-deadlock"

	"verif/simrt"
)

func init() {
	zerolog.SetGlobalLevel(zerolog.Disabled)
	// go-deadlock identifies goroutines through petermattis/goid, which
	// returns 0 for every goroutine under go1.26; its own detector would then
	// raise false "recursive locking" alarms.  Lock misuse is detected by the
	// simulator's modelled locks instead.
	deadlock.Opts.Disable = true
}

func Viol(kind, format string, a ...any) *simrt.Violation {
	return &simrt.Violation{Kind: kind, Detail: fmt.Sprintf(format, a...)}
}

func SortedKeys[V any](m map[string]V) []string {
	ks := make([]string, 0, len(m))
	for k := range m {
		ks = append(ks, k)
	}
	sort.Strings(ks)
	return ks
}

// SimEpoch is the fake clock's start inside every bubble.
var SimEpoch = time.Date(2000, 1, 1, 0, 0, 0, 0, time.UTC)

// PanicSite extracts the vouch function in which a recorded panic occurred
// (first frame below the panic inside github.com/attestantio/vouch), for use in
// violation fingerprints: e.g. "strategies/beaconblockroot/latest.(*Service).beaconBlockRoot".
func PanicSite(detail string) string {
	const mod = "github.com/attestantio/vouch/"
	i := strings.Index(detail, "\npanic(")
	if i < 0 {
		i = 0
	}
	rest := detail[i:]
	for _, line := range strings.Split(rest, "\n") {
		if strings.HasPrefix(line, mod) {
			fn := strings.TrimPrefix(line, mod)
			if j := strings.Index(fn, "("); j >= 0 {
				// keep "(*Service).method" but drop the argument list
				if k := strings.LastIndex(fn, "("); k > j || !strings.Contains(fn[:k], ")") {
					fn = fn[:strings.LastIndex(fn, "(")]
				}
			}
			fn = strings.TrimPrefix(fn, "services/")
			return fn
		}
	}
	return "unknown"
}
