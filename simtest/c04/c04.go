// Package c04 — each attestation carries exactly its validator's assignment and the agreed data.
//
// Same component scenario as C01 (simtest/c01/attsim) with the generator
// biased towards duty composition and skipped validators; the oracle is
// attsim.OracleC04.
package c04

import (
	"verif/sim"
	"verif/simrt"
	"verif/simtest/c01/attsim"
)

func exec(plan any, sched *simrt.Tape) *sim.Outcome {
	pl := plan.(*attsim.Plan)
	out := &sim.Outcome{Probes: map[string]int{}, Sample: pl}
	h := attsim.Exec(pl, sched, "C04", out)
	if out.Violation != nil {
		return out
	}
	out.Violation = attsim.OracleC04(h, out)
	return out
}

func init() {
	sim.Register(&sim.Scenario{Property: "C04", Name: "attest-content", Gen: attsim.GenC04, Exec: exec, Weight: 3})
	sim.Register(&sim.Scenario{Property: "C04", Name: "attest-runs", Gen: attsim.GenC01, Exec: exec, Weight: 1})
}
