package c04

import (
	"encoding/json"
	"os"
	"testing"

	"verif/sim"
	"verif/simrt"
	"verif/simtest/c01/attsim"
	"verif/simtest/env"
)

// TestMinimalIndexMap replays the smallest plan that shows the triaged C04
// defect (index map built from the filtered validator list).  Documentation,
// not a check: it only runs with VERIF_MINIMAL=1 and must be built through the overlay:
//
//	VERIF_MINIMAL=1 go test -overlay build/overlay/overlay.json -run TestMinimal -v ./simtest/c04
func TestMinimalIndexMap(t *testing.T) {
	if os.Getenv("VERIF_MINIMAL") == "" {
		t.Skip("VERIF_MINIMAL not set")
	}
	sizes := [4]uint64{12, 20, 28, 36}
	pl := &attsim.Plan{Focus: "c04", BaseEpoch: 3, Mode: "direct", NNodes: 1, Clients: 1,
		Vals: []attsim.Val{{Index: 100, Key: 0, Kind: int(env.KindMulti)}, {Index: 107, Key: 1, Kind: int(env.KindMulti)}, {Index: 114, Key: 2, Kind: int(env.KindMulti)}},
		Runs: []attsim.RunPlan{
			// validator 100 attests in slot 24 ...
			{Origin: "fresh", SlotIn: 0, Sizes: sizes, Entries: []attsim.Entry{{V: 0, Committee: 0, Pos: 4}}, Nodes: []attsim.NodeOut{{}}},
			// ... and is delivered again, with 107 and 114, for slot 27 of the same epoch
			{Origin: "fresh", SlotIn: 3, Sizes: sizes, Entries: []attsim.Entry{{V: 0, Committee: 0, Pos: 4}, {V: 1, Committee: 1, Pos: 5}, {V: 2, Committee: 2, Pos: 6}}, Nodes: []attsim.NodeOut{{}}},
		},
	}
	sc := &sim.Scenario{Property: "C04", Name: "minimal", Gen: func(*simrt.Tape) any { return pl }, Exec: exec}
	o := sim.RunOnce(t, sc, simrt.NewTape(0, []uint32{}), simrt.NewTape(0, []uint32{}))
	b, _ := json.Marshal(pl)
	t.Logf("plan: %s", b)
	if o.Violation == nil {
		t.Logf("no violation")
		return
	}
	t.Logf("violation: %s | %s", o.Violation.Kind, o.Violation.Detail)
}
