package c18

import (
	"context"
	"fmt"
	"sort"
	"time"

	eth2client "github.com/attestantio/go-eth2-client"
	"github.com/attestantio/go-eth2-client/api"
	apiv1 "github.com/attestantio/go-eth2-client/api/v1"
	"github.com/attestantio/go-eth2-client/spec"
	"github.com/attestantio/go-eth2-client/spec/bellatrix"
	"github.com/attestantio/go-eth2-client/spec/phase0"
	standardcache "github.com/attestantio/vouch/services/cache/standard"
	nullmetrics "github.com/attestantio/vouch/services/metrics/null"
	"github.com/attestantio/vouch/services/scheduler/advanced"
	"github.com/rs/zerolog"

	"verif/sim"
	"verif/simtest/c07"
	"verif/simrt"
	. "verif/simtest/env"
)

// C18 — a block root always maps to that block's slot.
//
// Real code: services/cache/standard (block root -> slot cache, its event
// handlers and its cleaning job), services/scheduler/advanced (runs the
// cleaning job), services/chaintime/standard.  Stubs: events provider (keeps
// the handlers the cache registers; harness tasks deliver events through
// them), beacon block header provider and signed beacon block provider
// (scripted).  Oracle: reference map root -> slot ("the chain"), fed to the
// event stream and to the header stub alike.
//
// Retention window: the only statement in the tree is the comment in
// services/cache/standard/blockroottoslot.go cleanBlockRootToSlot: "Keep 64
// epochs of information around, to cover most scenarios." (nothing in
// /repo/docs mentions the cache).  The oracle reads it as: at a moment whose
// epoch is E, an entry for a block of epoch >= E-64 is inside the window.

// c18RetentionEpochs is the retention the source comment states.
const c18RetentionEpochs = 64

// c18CleanPeriod is only used by the plan generator to aim blocks and lookups
// at the cleaning runs ("Run approximately every 15 minutes", service.go); the
// oracle does not depend on it.
const c18CleanPeriod = 15 * time.Minute

type c18Block struct {
	Slot uint64 `json:"slot"`
	// AnnounceAt: simulated time of the block event; <0: never announced.
	AnnounceAt time.Duration `json:"announce_at"`
	// Dup: the block event is delivered a second time one slot later.
	Dup bool `json:"dup,omitempty"`
	// Missing: no node knows this root (header requests for it fail).
	Missing bool `json:"missing,omitempty"`
}

type c18Lookup struct {
	At      time.Duration `json:"at"`
	Block   int           `json:"block"`
	Timeout time.Duration `json:"timeout,omitempty"` // 0: none
}

type c18Head struct {
	At      time.Duration `json:"at"`
	Block   int           `json:"block"`
	Outcome Outcome       `json:"outcome"`
}

type c18Plan struct {
	SecondsPerSlot uint64        `json:"seconds_per_slot"`
	SlotsPerEpoch  uint64        `json:"slots_per_epoch"`
	GenesisBack    time.Duration `json:"genesis_back"` // genesis lies this long before the start of the run
	Blocks         []c18Block    `json:"blocks"`
	Clients        [][]c18Lookup `json:"clients"`
	Header         []Outcome     `json:"header"` // per header request, in call order
	Heads          []c18Head     `json:"heads,omitempty"`
	End            time.Duration `json:"end"`
	// OddHeaders (probe only, run by C16 for crashes): the n-th header request that would succeed is answered
	// with content lacking its data (1), its header (2) or its header's message (3).
	OddHeaders map[int]int `json:"odd_headers,omitempty"`
}

func (pl *c18Plan) epochDur() time.Duration {
	return time.Duration(pl.SecondsPerSlot*pl.SlotsPerEpoch) * time.Second
}

// natural is the simulated time at which slot starts (may be negative).
func (pl *c18Plan) natural(slot uint64) time.Duration {
	return time.Duration(slot*pl.SecondsPerSlot)*time.Second - pl.GenesisBack
}

func c18Root(i int) phase0.Root {
	var r phase0.Root
	r[0] = 0xb1
	r[1] = byte(i + 1)
	r[30] = 0x18
	r[31] = byte(0xff - i)
	return r
}

var c18HeaderLat = []time.Duration{0, 0, 1, time.Millisecond, time.Second, 20 * time.Second}

func c18Gen(p *simrt.Tape) any {
	pl := &c18Plan{}
	pl.SecondsPerSlot = []uint64{1, 2, 3, 4}[p.Pick(4)]
	pl.SlotsPerEpoch = []uint64{2, 3, 4}[p.Pick(3)]
	pl.GenesisBack = []time.Duration{0, 0, 7 * time.Second, 100 * time.Second, 1000 * time.Second}[p.Pick(5)]
	k := p.Range(2, 4)
	pl.End = time.Duration(k)*c18CleanPeriod + 40*time.Second
	nClients := p.Range(2, 4)
	pl.Clients = make([][]c18Lookup, nClients)
	spe := pl.SlotsPerEpoch
	used := map[uint64]bool{}
	addBlock := func(slot uint64, at time.Duration) int {
		if slot == 0 {
			slot = 1
		}
		for used[slot] {
			slot++
		}
		used[slot] = true
		pl.Blocks = append(pl.Blocks, c18Block{Slot: slot, AnnounceAt: at})
		return len(pl.Blocks) - 1
	}
	addLookup := func(c int, at time.Duration, b int) {
		if at < 0 {
			at = 0
		}
		if at > pl.End-30*time.Second {
			at = pl.End - 30*time.Second
		}
		l := c18Lookup{At: at, Block: b}
		if p.Pct(10) {
			l.Timeout = []time.Duration{500 * time.Millisecond, 1500 * time.Millisecond, 30 * time.Second}[p.Pick(3)]
		}
		pl.Clients[c] = append(pl.Clients[c], l)
	}
	slotAt := func(t time.Duration) uint64 {
		return uint64((t+pl.GenesisBack)/time.Second) / pl.SecondsPerSlot
	}
	// Blocks on the edge of the retention window of a cleaning run, looked up right after it.
	for i := 1; i <= k; i++ {
		if !p.Pct(75) {
			continue
		}
		tc := time.Duration(i) * c18CleanPeriod
		ek := slotAt(tc) / spe
		if ek <= c18RetentionEpochs {
			continue
		}
		base := (ek - c18RetentionEpochs) * spe
		cands := []uint64{base - 1, base, base, base + 1, base + spe - 1, base - spe, base + spe}
		n := p.Range(1, 3)
		for j := 0; j < n; j++ {
			slot := cands[p.Pick(len(cands))]
			at := pl.natural(slot) + []time.Duration{0, time.Second, 100 * time.Second}[p.Pick(3)]
			if at < 0 {
				at = time.Duration(p.Range(0, 3)) * time.Second
			}
			if at >= tc {
				at = tc - time.Second
			}
			var b int
			if p.Pct(25) {
				// never announced: brought into the cache by a lookup shortly before the cleaning run
				b = addBlock(slot, -1)
				addLookup(p.Pick(nClients), tc-time.Duration(p.Range(1, 60))*time.Second, b)
			} else {
				b = addBlock(slot, at)
			}
			nl := p.Range(1, 3)
			for q := 0; q < nl; q++ {
				d := []time.Duration{-1, 0, 1, time.Second, pl.epochDur(), 5 * time.Second}[p.Pick(6)]
				addLookup(p.Pick(nClients), tc+d, b)
			}
		}
	}
	// Blocks of the moment.
	nb := p.Range(1, 4)
	for j := 0; j < nb; j++ {
		t := time.Duration(p.Range(0, int((pl.End-60*time.Second)/time.Second))) * time.Second
		slot := slotAt(t)
		var b int
		if p.Pct(35) {
			b = addBlock(slot, -1)
		} else {
			b = addBlock(slot, t+[]time.Duration{0, 1, 300 * time.Millisecond}[p.Pick(3)])
			pl.Blocks[b].Dup = p.Pct(15)
		}
		nl := p.Range(1, 4)
		same := p.Pct(40) // concurrent lookups of the same root at the same instant
		at := t + []time.Duration{0, 1, 300 * time.Millisecond, time.Second, 30 * time.Second}[p.Pick(5)]
		for q := 0; q < nl; q++ {
			if !same {
				at = t + []time.Duration{-time.Second, 0, 1, 300 * time.Millisecond, time.Second, 30 * time.Second, 10 * time.Minute, 20 * time.Minute, 40 * time.Minute}[p.Pick(9)]
			}
			addLookup((j+q)%nClients, at, b)
		}
		if p.Pct(30) {
			pl.Heads = append(pl.Heads, c18Head{At: t + time.Second, Block: b, Outcome: Outcome{Kind: []string{"", "", "error", "odd"}[p.Pick(4)], Latency: c18HeaderLat[p.Pick(len(c18HeaderLat))]}})
		}
	}
	// A root no node knows.
	if p.Pct(35) {
		b := addBlock(slotAt(pl.End)+1000, -1)
		pl.Blocks[b].Missing = true
		nl := p.Range(1, 3)
		t := time.Duration(p.Range(0, int((pl.End-60*time.Second)/time.Second))) * time.Second
		for q := 0; q < nl; q++ {
			addLookup(p.Pick(nClients), t+time.Duration(q)*[]time.Duration{0, time.Second}[p.Pick(2)], b)
		}
	}
	total := 0
	for c := range pl.Clients {
		sort.SliceStable(pl.Clients[c], func(i, j int) bool { return pl.Clients[c][i].At < pl.Clients[c][j].At })
		total += len(pl.Clients[c])
	}
	for i := 0; i < total; i++ {
		o := Outcome{Latency: c18HeaderLat[p.Pick(len(c18HeaderLat))]}
		switch r := p.Pick(100); {
		case r < 15:
			o.Kind = "error"
		case r < 20:
			o.Kind = "hang"
		}
		pl.Header = append(pl.Header, o)
	}
	return pl
}

type c18LookupKey struct{}

// c18Fetch is one header request as seen by the header stub.
type c18Fetch struct {
	lookup            int // id of the lookup whose context carried the request (-1: none)
	block             int // index of the requested root (-1: not a root of the plan)
	callT, endT       time.Duration
	callStep, endStep int
	failed            bool
}

type c18LookupRec struct {
	id, client        int
	l                 c18Lookup
	callT, retT       time.Duration
	callStep, retStep int
	slot              phase0.Slot
	err               error
	called, done      bool
}

type c18Delivery struct {
	block             int
	callStep, retStep int
	retT              time.Duration
}

type c18Events struct {
	handlers map[string]eth2client.EventHandlerFunc
}

func (e *c18Events) Events(_ context.Context, topics []string, handler eth2client.EventHandlerFunc) error {
	for _, t := range topics {
		e.handlers[t] = handler
	}
	return nil
}

type c18Node struct {
	pl      *c18Plan
	script  *Script
	byRoot  map[string]int
	fetches []*c18Fetch
	served  int
}

func (n *c18Node) BeaconBlockHeader(ctx context.Context, opts *api.BeaconBlockHeaderOpts) (*api.Response[*apiv1.BeaconBlockHeader], error) {
	f := &c18Fetch{lookup: -1, block: -1, callT: simrt.Now(), callStep: simrt.Step()}
	if id, ok := ctx.Value(c18LookupKey{}).(int); ok {
		f.lookup = id
	}
	// the request is under way from here on (the oracle counts it as pending) ...
	simrt.Crit(func() { n.fetches = append(n.fetches, f) })
	// ... but the client library reads its options when it builds the request, which is not the instant the
	// caller filled them in: another goroutine may run in between
	simrt.Yield("bn/BeaconBlockHeader/entry")
	if b, ok := n.byRoot[opts.Block]; ok {
		simrt.Crit(func() { f.block = b })
	}
	_, err := n.script.Do(ctx, "bn", "BeaconBlockHeader", opts.Block)
	if err == nil && (f.block < 0 || n.pl.Blocks[f.block].Missing) {
		err = &api.Error{Method: "GET", Endpoint: "/eth/v1/beacon/headers/" + opts.Block, StatusCode: 404, Data: []byte(`{"code":404,"message":"NOT_FOUND: beacon block with root ` + opts.Block + `"}`)}
	}
	simrt.Crit(func() { f.endT, f.endStep, f.failed = simrt.Now(), simrt.Step(), err != nil })
	if err != nil {
		return nil, err
	}
	blk := n.pl.Blocks[f.block]
	root := c18Root(f.block)
	var served int
	simrt.Crit(func() { served = n.served; n.served++ })
	switch n.pl.OddHeaders[served] {
	case 1:
		simrt.Probe("fault:header-without-data")
		return &api.Response[*apiv1.BeaconBlockHeader]{Data: nil, Metadata: map[string]any{}}, nil
	case 2:
		simrt.Probe("fault:header-without-header")
		return &api.Response[*apiv1.BeaconBlockHeader]{Data: &apiv1.BeaconBlockHeader{Root: root, Canonical: true}, Metadata: map[string]any{}}, nil
	case 3:
		simrt.Probe("fault:header-without-message")
		return &api.Response[*apiv1.BeaconBlockHeader]{Data: &apiv1.BeaconBlockHeader{Root: root, Canonical: true, Header: &phase0.SignedBeaconBlockHeader{}}, Metadata: map[string]any{}}, nil
	}
	return &api.Response[*apiv1.BeaconBlockHeader]{
		Data: &apiv1.BeaconBlockHeader{
			Root:      root,
			Canonical: true,
			Header: &phase0.SignedBeaconBlockHeader{
				Message: &phase0.BeaconBlockHeader{Slot: phase0.Slot(blk.Slot), ProposerIndex: phase0.ValidatorIndex(f.block), ParentRoot: n.parentRoot(f.block)},
			},
		},
		Metadata: map[string]any{},
	}, nil
}

// parentRoot links the blocks of the plan into a chain: the parent of a block is the block with the
// greatest smaller slot (slots have gaps, like a chain with empty slots).
func (n *c18Node) parentRoot(b int) phase0.Root {
	best := -1
	for i, x := range n.pl.Blocks {
		if x.Slot < n.pl.Blocks[b].Slot && (best < 0 || x.Slot > n.pl.Blocks[best].Slot) {
			best = i
		}
	}
	if best < 0 {
		return phase0.Root{}
	}
	return c18Root(best)
}

func (n *c18Node) SignedBeaconBlock(ctx context.Context, opts *api.SignedBeaconBlockOpts) (*api.Response[*spec.VersionedSignedBeaconBlock], error) {
	o, err := n.script.Do(ctx, "bn", "SignedBeaconBlock", opts.Block)
	if err != nil {
		return nil, err
	}
	slot := phase0.Slot(1)
	var parent phase0.Root
	if b, ok := n.byRoot[opts.Block]; ok {
		slot = phase0.Slot(n.pl.Blocks[b].Slot)
		parent = n.parentRoot(b)
	}
	if o.Kind == "odd" {
		// a pre-merge style block: execution payload present but zeroed
		return &api.Response[*spec.VersionedSignedBeaconBlock]{Data: &spec.VersionedSignedBeaconBlock{
			Version:   spec.DataVersionBellatrix,
			Bellatrix: &bellatrix.SignedBeaconBlock{Message: &bellatrix.BeaconBlock{Slot: slot, ParentRoot: parent, Body: &bellatrix.BeaconBlockBody{ExecutionPayload: &bellatrix.ExecutionPayload{}}}},
		}, Metadata: map[string]any{}}, nil
	}
	return &api.Response[*spec.VersionedSignedBeaconBlock]{Data: &spec.VersionedSignedBeaconBlock{
		Version: spec.DataVersionBellatrix,
		Bellatrix: &bellatrix.SignedBeaconBlock{Message: &bellatrix.BeaconBlock{Slot: slot, ParentRoot: parent, Body: &bellatrix.BeaconBlockBody{
			ExecutionPayload: &bellatrix.ExecutionPayload{StateRoot: [32]byte{1}, BlockNumber: uint64(slot), BlockHash: phase0.Hash32{2, byte(slot)}},
		}}},
	}, Metadata: map[string]any{}}, nil
}

func c18Exec(plan any, sched *simrt.Tape) *sim.Outcome {
	pl := plan.(*c18Plan)
	out := &sim.Outcome{Probes: map[string]int{}, Sample: pl}
	chain := DefaultChain(-pl.GenesisBack)
	chain.SecondsPerSlot, chain.SlotsPerEpoch = pl.SecondsPerSlot, pl.SlotsPerEpoch

	script := &Script{Outcomes: map[string][]Outcome{"bn/BeaconBlockHeader": pl.Header}}
	for _, h := range pl.Heads {
		// call 0 of SignedBeaconBlock is the constructor's "head" request
		if len(script.Outcomes["bn/SignedBeaconBlock"]) == 0 {
			script.Outcomes["bn/SignedBeaconBlock"] = []Outcome{{}}
		}
		script.Outcomes["bn/SignedBeaconBlock"] = append(script.Outcomes["bn/SignedBeaconBlock"], h.Outcome)
	}
	node := &c18Node{pl: pl, script: script, byRoot: map[string]int{}}
	for i := range pl.Blocks {
		node.byRoot[c18Root(i).String()] = i
	}
	events := &c18Events{handlers: map[string]eth2client.EventHandlerFunc{}}
	var lookups []*c18LookupRec
	var deliveries []*c18Delivery

	res := sim.Run(sched, pl.End+10*time.Minute, 60000, nil, func(ctx context.Context) {
		ct := NewChainTime(ctx, chain)
		sch, err := advanced.New(ctx, advanced.WithLogLevel(zerolog.Disabled), advanced.WithMonitor(nullmetrics.New()))
		if err != nil {
			panic(err)
		}
		cache, err := standardcache.New(ctx,
			standardcache.WithLogLevel(zerolog.Disabled),
			standardcache.WithMonitor(nullmetrics.New()),
			standardcache.WithChainTime(ct),
			standardcache.WithScheduler(sch),
			standardcache.WithEventsProvider(events),
			standardcache.WithSignedBeaconBlockProvider(node),
			standardcache.WithBeaconBlockHeadersProvider(node),
		)
		if err != nil {
			panic(err)
		}
		blockHandler, headHandler := events.handlers["block"], events.handlers["head"]
		if blockHandler == nil || headHandler == nil {
			panic("cache did not subscribe to block and head events")
		}

		// The block event stream: one task, events in time order (as one SSE connection delivers them).
		type ev struct {
			at time.Duration
			b  int
		}
		var evs []ev
		for i, b := range pl.Blocks {
			if b.AnnounceAt >= 0 {
				evs = append(evs, ev{b.AnnounceAt, i})
				if b.Dup {
					evs = append(evs, ev{b.AnnounceAt + time.Duration(pl.SecondsPerSlot)*time.Second, i})
				}
			}
		}
		sort.SliceStable(evs, func(i, j int) bool { return evs[i].at < evs[j].at })
		simrt.Go("block-events", func() {
			for _, e := range evs {
				if d := e.at - simrt.Now(); d > 0 {
					simrt.Sleep(ctx, d, "c18/blockwait")
				}
				d := &c18Delivery{block: e.b, callStep: simrt.Step()}
				blockHandler(&apiv1.Event{Topic: "block", Data: &apiv1.BlockEvent{Slot: phase0.Slot(pl.Blocks[e.b].Slot), Block: c18Root(e.b)}})
				simrt.Yield("c18/blockdelivered")
				d.retStep, d.retT = simrt.Step(), simrt.Now()
				simrt.Crit(func() { deliveries = append(deliveries, d) })
			}
		})
		heads := append([]c18Head{}, pl.Heads...)
		sort.SliceStable(heads, func(i, j int) bool { return heads[i].At < heads[j].At })
		simrt.Go("head-events", func() {
			for _, h := range heads {
				if d := h.At - simrt.Now(); d > 0 {
					simrt.Sleep(ctx, d, "c18/headwait")
				}
				headHandler(&apiv1.Event{Topic: "head", Data: &apiv1.HeadEvent{Slot: phase0.Slot(pl.Blocks[h.Block].Slot), Block: c18Root(h.Block)}})
				simrt.Yield("c18/headdelivered")
			}
		})
		id := 0
		for c := range pl.Clients {
			var recs []*c18LookupRec
			for _, l := range pl.Clients[c] {
				r := &c18LookupRec{id: id, client: c, l: l}
				id++
				recs = append(recs, r)
				lookups = append(lookups, r)
			}
			simrt.Go(fmt.Sprintf("client%d", c), func() {
				for _, r := range recs {
					if d := r.l.At - simrt.Now(); d > 0 {
						simrt.Sleep(ctx, d, "c18/lookupwait")
					}
					lctx := context.WithValue(ctx, c18LookupKey{}, r.id)
					cancel := func() {}
					if r.l.Timeout > 0 {
						lctx, cancel = context.WithTimeout(lctx, r.l.Timeout)
					}
					simrt.Yield("c18/lookupcall")
					simrt.Crit(func() { r.callT, r.callStep, r.called = simrt.Now(), simrt.Step(), true })
					slot, err := cache.BlockRootToSlot(lctx, c18Root(r.l.Block))
					simrt.Crit(func() { r.slot, r.err, r.retT, r.retStep, r.done = slot, err, simrt.Now(), simrt.Step(), true })
					cancel()
					simrt.Yield("c18/lookupret")
				}
			})
		}
		simrt.Sleep(ctx, pl.End+125*time.Second, "c18/end")
	})
	out.Res = res
	if res.Violation != nil {
		out.Violation = res.Violation
		if res.Violation.Kind == "panic" || res.Violation.Kind == "deadlock" {
			out.Violation.Kind = "C18/" + res.Violation.Kind
		}
		return out
	}
	out.Violation = c18Oracle(pl, chain, lookups, deliveries, node.fetches, out)
	return out
}

func c18Oracle(pl *c18Plan, chain *Chain, lookups []*c18LookupRec, deliveries []*c18Delivery, fetches []*c18Fetch, out *sim.Outcome) *simrt.Violation {
	epochAt := func(t time.Duration) uint64 { return chain.EpochOf(chain.SlotAt(SimEpoch.Add(t))) }
	// The reference: what the chain says.
	truth := func(b int) (uint64, bool) {
		if pl.Blocks[b].Missing {
			return 0, false
		}
		return pl.Blocks[b].Slot, true
	}
	otherRootWithSlot := func(b int, s uint64) int {
		for i, o := range pl.Blocks {
			if i != b && o.Slot == s {
				return i
			}
		}
		return -1
	}
	byLookup := map[int][]*c18Fetch{}
	for _, f := range fetches {
		if f.lookup >= 0 {
			byLookup[f.lookup] = append(byLookup[f.lookup], f)
		}
	}
	for i, f := range fetches {
		for _, g := range fetches[i+1:] {
			if f.block == g.block && g.callStep < f.endStep {
				out.Probes["concurrent-fetches-of-one-root"]++
			}
		}
	}
	var v *simrt.Violation
	report := func(nv *simrt.Violation) {
		// keep the first violation, but prefer one that is not the plain miss-path class
		if v == nil || (v.Kind == "C18/wrong-slot-after-fetch" && nv.Kind != v.Kind) {
			v = nv
		}
	}
	for _, l := range lookups {
		if !l.called {
			out.Probes["lookup-not-reached"]++
			continue
		}
		if !l.done && l.callT >= pl.End {
			// delayed past the end of the run by earlier lookups of its client that hung: just called, not yet run
			out.Probes["lookup-not-reached"]++
			continue
		}
		if !l.done {
			// a lookup can only be outstanding at the end if its header request is still pending
			pending := false
			for _, f := range byLookup[l.id] {
				if f.endStep == 0 {
					pending = true
				}
			}
			if !pending {
				report(Viol("C18/lookup-never-returned", "lookup %d of block %d called at %v had not returned by %v and no header request was pending", l.id, l.l.Block, l.callT, pl.End))
			}
			continue
		}
		fs := byLookup[l.id]
		var okFetch, failedFetch bool
		for _, f := range fs {
			if f.block != l.l.Block {
				report(Viol("C18/fetched-other-root", "lookup %d of block %d requested the header of block %d", l.id, l.l.Block, f.block))
			}
			if f.failed {
				failedFetch = true
			} else {
				okFetch = true
			}
		}
		want, exists := truth(l.l.Block)
		desc := fmt.Sprintf("lookup %d (client %d, t=%v) of block %d (slot %d)", l.id, l.client, l.callT, l.l.Block, pl.Blocks[l.l.Block].Slot)
		switch {
		case l.err != nil:
			out.Probes["lookup-error"]++
			if !failedFetch {
				report(Viol("C18/error-without-failed-fetch", "%s returned error %q although no header request of it failed (%d requests)", desc, l.err, len(fs)))
			}
		case failedFetch && !okFetch:
			if !exists || uint64(l.slot) != want {
				report(Viol("C18/slot-despite-failed-fetch", "%s returned slot %d and no error although its header request failed", desc, l.slot))
			}
		case !exists:
			report(Viol("C18/slot-for-unknown-root", "%s returned slot %d for a root no node knows", desc, l.slot))
		case uint64(l.slot) != want:
			extra := ""
			if o := otherRootWithSlot(l.l.Block, uint64(l.slot)); o >= 0 {
				extra = fmt.Sprintf(" (that is the slot of block %d)", o)
			}
			if len(fs) > 0 {
				report(Viol("C18/wrong-slot-after-fetch", "%s returned slot %d%s after fetching the header (which said %d)", desc, l.slot, extra, want))
			} else {
				report(Viol("C18/wrong-slot-from-cache", "%s returned slot %d%s from the cache", desc, l.slot, extra))
			}
		}
		if len(fs) == 0 {
			out.Probes["hit"]++
		} else {
			out.Probes["miss"]++
			if failedFetch {
				out.Probes["miss-fetch-failed"]++
			}
			for _, f := range fs {
				if f.endT-f.callT >= time.Second {
					out.Probes["miss-late-answer"]++
				}
			}
		}
		// Was the root put into the cache before this lookup began?
		stored := false
		for _, d := range deliveries {
			if d.block == l.l.Block && d.retStep < l.callStep {
				stored = true
			}
		}
		for _, o := range lookups {
			if o != l && o.done && o.l.Block == l.l.Block && o.err == nil && o.retStep < l.callStep {
				for _, f := range byLookup[o.id] {
					if !f.failed {
						stored = true
					}
				}
			}
		}
		if stored && exists {
			eNow := epochAt(l.callT)
			eBlk := chain.EpochOf(want)
			inside := eBlk+c18RetentionEpochs >= eNow
			if inside {
				if eNow > c18RetentionEpochs {
					out.Probes["lookup-inside-window-after-cleaning-possible"]++
					if eBlk+c18RetentionEpochs == eNow {
						out.Probes["lookup-on-window-edge"]++
						out.Nontrivial = true
					}
				}
				if len(fs) > 0 {
					report(Viol("C18/entry-inside-window-lost", "%s: the root was cached before (epoch of block %d, epoch now %d, retention %d epochs) yet a header request was issued", desc, eBlk, eNow, c18RetentionEpochs))
				}
			} else if len(fs) > 0 {
				out.Probes["refetch-after-cleaning"]++
			} else {
				out.Probes["old-entry-still-cached"]++
			}
		}
		if len(fs) > 0 && l.err == nil {
			out.Nontrivial = true
		}
	}
	return v
}

func init() {
	// the strategies that consult the cache: an answer ranked by another slot than its block's
	for _, sc := range c07.SlotScenarios("C18") {
		sim.Register(sc)
	}
	sim.Register(&sim.Scenario{Property: "C18", Name: "cache", Gen: c18Gen, Exec: c18Exec, Weight: 3})
	sim.Register(&sim.Scenario{Property: "C18PROBE", Name: "odd-headers", Exec: c18Exec, Gen: func(p *simrt.Tape) any {
		pl := c18Gen(p).(*c18Plan)
		pl.OddHeaders = map[int]int{}
		for i, n := 0, p.Range(1, 3); i < n; i++ {
			pl.OddHeaders[p.Pick(6)] = p.Range(1, 3)
		}
		return pl
	}})
}
