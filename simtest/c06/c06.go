// Package c06 — every signature is over the consensus-spec signing root for that duty and key.
//
// Real code: services/signer/standard, driven through all its public signing
// methods.  Stubs: wallet accounts of four kinds backed by real BLS keys (env),
// a simulated beacon node as domain provider over a generated fork schedule
// (latency, errors), signer faults (error, no signature for an entry, latency).
// Oracle: every returned non-zero signature verifies with BLS under the
// requested account's validator key against compute_signing_root(object root,
// domain), both computed here from the message and the consensus / builder
// specifications.
package c06

import (
	"context"
	"encoding/binary"
	"fmt"
	"time"

	builderapi "github.com/attestantio/go-builder-client/api"
	builderv1 "github.com/attestantio/go-builder-client/api/v1"
	builderspec "github.com/attestantio/go-builder-client/spec"
	"github.com/attestantio/go-eth2-client/spec/altair"
	"github.com/attestantio/go-eth2-client/spec/bellatrix"
	"github.com/attestantio/go-eth2-client/spec/phase0"
	nullmetrics "github.com/attestantio/vouch/services/metrics/null"
	standardsigner "github.com/attestantio/vouch/services/signer/standard"
	"github.com/rs/zerolog"
	e2wtypes "github.com/wealdtech/go-eth2-wallet-types/v2"

	"verif/sim"
	"verif/simrt"
	"verif/simtest/env"
)

const slotsPerEpoch = 8

// Op is one call of a public signing method.
type Op struct {
	Client   int      `json:"client"`
	Kind     string   `json:"kind"`
	Accounts []int    `json:"accounts"` // indices into Plan.Kinds (distinct within an op)
	Slot     uint64   `json:"slot"`
	Seed     uint64   `json:"seed"`              // message content
	Indices  []uint64 `json:"indices,omitempty"` // committee / subcommittee index per account
	// faults
	Domain   env.Outcome   `json:"domain"`              // the node's answer to the domain request
	SignKind string        `json:"sign_kind,omitempty"` // "" | error | zero | lat
	SignMask int           `json:"sign_mask,omitempty"` // bit per account index
	SignLat  time.Duration `json:"sign_lat,omitempty"`
}

// Plan is the whole case.
type Plan struct {
	Forks [4]int64 `json:"forks"` // altair, bellatrix, capella, deneb fork epochs; -1 = not scheduled
	Kinds []int    `json:"kinds"` // account i has key i and this env.AccountKind
	// Clients issue their ops one after the other, concurrently with the other
	// client; account i is used by client i%Clients only, so that a signer-side
	// request is attributable to the op its client is executing.
	Clients int  `json:"clients"`
	Ops     []Op `json:"ops"`
	// NoBuilderDomain: the node's specification lacks DOMAIN_APPLICATION_BUILDER (the signer then has no
	// domain type for registrations: it may refuse them, it may not sign them over anything else).
	NoBuilderDomain bool `json:"no_builder_domain,omitempty"`
}

var opKinds = []string{
	"attestation", "attestations", "attestations", "proposal", "randao", "slot-selections", "sync-selections",
	"aggregate-and-proof", "sync-roots", "contributions", "registration", "blob-sidecar",
}

func batchKind(k string) bool {
	switch k {
	case "attestations", "slot-selections", "sync-selections", "sync-roots", "contributions":
		return true
	}
	return false
}

func gen(p *simrt.Tape) any {
	pl := &Plan{}
	// fork schedule: non-decreasing epochs, later forks possibly not scheduled
	e := int64(0)
	for i := range pl.Forks {
		if i > 0 || p.Pct(70) {
			e += int64(p.Pick(4))
		}
		pl.Forks[i] = e
		if i >= 1 && p.Pct(15) {
			for j := i; j < 4; j++ {
				pl.Forks[j] = -1
			}
			break
		}
	}
	pl.Clients = 1 + p.Pick(2)
	na := p.Range(2*pl.Clients, 4+2*pl.Clients)
	for i := 0; i < na; i++ {
		k := int(env.KindMulti)
		switch {
		case p.Pct(35):
			k = int(env.KindDistributed)
		case p.Pct(30):
			k = int(env.KindPlain)
		case p.Pct(12):
			k = int(env.KindProtecting)
		}
		pl.Kinds = append(pl.Kinds, k)
	}
	nops := p.Range(2, 8)
	budget := 40
	for i := 0; i < nops && budget > 0; i++ {
		op := Op{Client: p.Pick(pl.Clients), Kind: opKinds[p.Pick(len(opKinds))], Seed: p.Uint64()}
		// the duty's epoch: before, at or after a fork boundary
		var fe []int64
		for _, f := range pl.Forks {
			if f >= 0 {
				fe = append(fe, f)
			}
		}
		epoch := fe[p.Pick(len(fe))] + int64(p.Pick(3)) - 1
		if epoch < 0 {
			epoch = 0
		}
		op.Slot = uint64(epoch)*slotsPerEpoch + []uint64{0, slotsPerEpoch - 1, uint64(p.Pick(slotsPerEpoch))}[p.Pick(3)]
		var perm []int
		for j := 0; j < na; j++ {
			if j%pl.Clients == op.Client {
				perm = append(perm, j)
			}
		}
		n := 1
		if batchKind(op.Kind) {
			n = min(p.Range(1, len(perm)), budget)
		}
		for j := 0; j < n; j++ {
			k := j + p.Pick(len(perm)-j)
			perm[j], perm[k] = perm[k], perm[j]
			op.Accounts = append(op.Accounts, perm[j])
			op.Indices = append(op.Indices, uint64(p.Pick(4)))
		}
		// a validator that sits in two subcommittees appears twice in one batch, with different messages
		if (op.Kind == "sync-selections" || op.Kind == "contributions") && p.Pct(35) {
			j := p.Pick(len(op.Accounts))
			op.Accounts = append(op.Accounts, op.Accounts[j])
			op.Indices = append(op.Indices, (op.Indices[j]+1+uint64(p.Pick(3)))%4)
			n++
		}
		budget -= n
		if p.Pct(12) {
			switch p.Pick(3) {
			case 0:
				op.Domain.Kind = "error"
			case 1:
				op.Domain.Latency = []time.Duration{time.Millisecond, time.Second, 30 * time.Second}[p.Pick(3)]
			case 2:
				op.Domain.Kind = "hang"
			}
		}
		if p.Pct(22) {
			op.SignKind = []string{"error", "zero", "zero", "lat"}[p.Pick(4)]
			for _, a := range op.Accounts {
				if p.Bool() {
					op.SignMask |= 1 << a
				}
			}
			if op.SignMask == 0 {
				op.SignMask = 1 << op.Accounts[p.Pick(len(op.Accounts))]
			}
			op.SignLat = []time.Duration{time.Millisecond, time.Second}[p.Pick(2)]
		}
		pl.Ops = append(pl.Ops, op)
	}
	pl.NoBuilderDomain = p.Pct(12)
	return pl
}

// ---- messages ----

func seedRoot(seed uint64, tag byte) phase0.Root {
	var r phase0.Root
	binary.LittleEndian.PutUint64(r[:], seed)
	r[8], r[31] = tag, tag
	for i := 9; i < 31; i++ {
		r[i] = byte(seed>>(uint(i)%8)) ^ byte(i) ^ tag
	}
	return r
}

func seedSig(seed uint64, tag byte) phase0.BLSSignature {
	var s phase0.BLSSignature
	r := seedRoot(seed, tag)
	copy(s[:], r[:])
	copy(s[32:], r[:])
	copy(s[64:], r[:])
	return s
}

func uint64Root(v uint64) phase0.Root {
	// hash_tree_root of a uint64: the value little-endian, right-padded to 32 bytes
	var r phase0.Root
	binary.LittleEndian.PutUint64(r[:8], v)
	return r
}

func must(r [32]byte, err error) phase0.Root {
	if err != nil {
		panic(err)
	}
	return r
}

// expectation for one entry of an op
type expect struct {
	key    int
	root   phase0.Root
	domain phase0.Domain
}

type opMsgs struct {
	attData       []*phase0.AttestationData
	header        *phase0.BeaconBlockHeader
	aggregate     *phase0.AggregateAndProof
	contributions []*altair.ContributionAndProof
	registration  *builderv1.ValidatorRegistration
	blockRoot     phase0.Root
	sidecarRoot   phase0.Root
}

// build derives the messages of an op and what the specification says must be signed.
func build(chain *env.Chain, pl *Plan, op *Op) (*opMsgs, []expect) {
	m := &opMsgs{}
	epoch := phase0.Epoch(op.Slot / slotsPerEpoch)
	var exp []expect
	add := func(acc int, root phase0.Root, dt phase0.DomainType) {
		exp = append(exp, expect{key: acc, root: root, domain: chain.DomainAt(dt, epoch)})
	}
	switch op.Kind {
	case "attestation", "attestations":
		for i, a := range op.Accounts {
			src := uint64(epoch)
			if src > 0 {
				src--
			}
			d := &phase0.AttestationData{Slot: phase0.Slot(op.Slot), Index: phase0.CommitteeIndex(op.Indices[i]), BeaconBlockRoot: seedRoot(op.Seed, 1),
				Source: &phase0.Checkpoint{Epoch: phase0.Epoch(src), Root: seedRoot(op.Seed, 2)}, Target: &phase0.Checkpoint{Epoch: epoch, Root: seedRoot(op.Seed, 3)}}
			m.attData = append(m.attData, d)
			add(a, must(d.HashTreeRoot()), env.DomainBeaconAttester)
		}
	case "proposal":
		m.header = &phase0.BeaconBlockHeader{Slot: phase0.Slot(op.Slot), ProposerIndex: phase0.ValidatorIndex(op.Seed % 1000), ParentRoot: seedRoot(op.Seed, 4), StateRoot: seedRoot(op.Seed, 5), BodyRoot: seedRoot(op.Seed, 6)}
		add(op.Accounts[0], must(m.header.HashTreeRoot()), env.DomainBeaconProposer)
	case "randao":
		add(op.Accounts[0], uint64Root(uint64(epoch)), env.DomainRandao)
	case "slot-selections":
		for _, a := range op.Accounts {
			add(a, uint64Root(op.Slot), env.DomainSelectionProof)
		}
	case "sync-selections":
		for i, a := range op.Accounts {
			sd := &altair.SyncAggregatorSelectionData{Slot: phase0.Slot(op.Slot), SubcommitteeIndex: op.Indices[i]}
			add(a, must(sd.HashTreeRoot()), env.DomainSyncCommitteeSelectionProof)
		}
	case "aggregate-and-proof":
		d := &phase0.AttestationData{Slot: phase0.Slot(op.Slot), Index: phase0.CommitteeIndex(op.Indices[0]), BeaconBlockRoot: seedRoot(op.Seed, 1),
			Source: &phase0.Checkpoint{Epoch: 0, Root: seedRoot(op.Seed, 2)}, Target: &phase0.Checkpoint{Epoch: epoch, Root: seedRoot(op.Seed, 3)}}
		m.aggregate = &phase0.AggregateAndProof{AggregatorIndex: phase0.ValidatorIndex(op.Seed % 997),
			Aggregate:      &phase0.Attestation{AggregationBits: []byte{byte(op.Seed), byte(op.Seed >> 8), 0x01}, Data: d, Signature: seedSig(op.Seed, 7)},
			SelectionProof: seedSig(op.Seed, 8)}
		add(op.Accounts[0], must(m.aggregate.HashTreeRoot()), env.DomainAggregateAndProof)
	case "sync-roots":
		m.blockRoot = seedRoot(op.Seed, 9)
		for _, a := range op.Accounts {
			add(a, m.blockRoot, env.DomainSyncCommittee)
		}
	case "contributions":
		for i, a := range op.Accounts {
			bits := make([]byte, 16)
			bits[0], bits[15] = byte(op.Seed)+byte(i), byte(i)
			c := &altair.ContributionAndProof{AggregatorIndex: phase0.ValidatorIndex(100 + a),
				Contribution:   &altair.SyncCommitteeContribution{Slot: phase0.Slot(op.Slot), BeaconBlockRoot: seedRoot(op.Seed, 10), SubcommitteeIndex: op.Indices[i], AggregationBits: bits, Signature: seedSig(op.Seed+uint64(i), 11)},
				SelectionProof: seedSig(op.Seed+uint64(i), 12)}
			m.contributions = append(m.contributions, c)
			add(a, must(c.HashTreeRoot()), env.DomainContributionAndProof)
		}
	case "registration":
		var fr bellatrix.ExecutionAddress
		r := seedRoot(op.Seed, 13)
		copy(fr[:], r[:])
		m.registration = &builderv1.ValidatorRegistration{FeeRecipient: fr, GasLimit: 30000000 + op.Seed%1000, Timestamp: time.Unix(int64(946684800+op.Seed%100000), 0), Pubkey: env.PubKey(op.Accounts[0])}
		// builder specification: genesis fork version and an empty validators root, whatever the epoch
		exp = append(exp, expect{key: op.Accounts[0], root: must(m.registration.HashTreeRoot()), domain: env.ComputeDomain(env.DomainApplicationBuilder, chain.GenesisForkVersion, phase0.Root{})})
	case "blob-sidecar":
		m.sidecarRoot = seedRoot(op.Seed, 14)
		add(op.Accounts[0], m.sidecarRoot, env.DomainBlobSidecar)
	}
	return m, exp
}

// ---- simulated node: domain provider ----

type domainNode struct {
	cp     *env.ChainProviders
	script *env.Script
}

type clientKey struct{}

func opOf(ctx context.Context) int {
	if v, ok := ctx.Value(clientKey{}).(int); ok {
		return v
	}
	return -1
}

func (n *domainNode) Domain(ctx context.Context, dt phase0.DomainType, epoch phase0.Epoch) (phase0.Domain, error) {
	if _, err := n.script.Do(ctx, fmt.Sprintf("op%d", opOf(ctx)), "Domain", nil); err != nil {
		return phase0.Domain{}, err
	}
	// like a real node/client library: fork version in force at the epoch; the
	// chain's genesis validators root except for the builder domain type
	return nodeDomain(n.cp.C, dt, n.cp.C.ForkVersionAt(epoch)), nil
}

func nodeDomain(c *env.Chain, dt phase0.DomainType, version phase0.Version) phase0.Domain {
	gvr := c.GenesisValidatorsRoot
	if dt == env.DomainApplicationBuilder {
		gvr = phase0.Root{}
	}
	return env.ComputeDomain(dt, version, gvr)
}

func (n *domainNode) GenesisDomain(ctx context.Context, dt phase0.DomainType) (phase0.Domain, error) {
	if _, err := n.script.Do(ctx, fmt.Sprintf("op%d", opOf(ctx)), "Domain", nil); err != nil {
		return phase0.Domain{}, err
	}
	return nodeDomain(n.cp.C, dt, n.cp.C.GenesisForkVersion), nil
}

type opRec struct {
	sigs              []phase0.BLSSignature
	err               error
	callStep, retStep int
	done              bool
}

func exec(plan any, sched *simrt.Tape) *sim.Outcome {
	pl := plan.(*Plan)
	out := &sim.Outcome{Probes: map[string]int{}, Sample: pl}
	chain := env.DefaultChain(-100 * time.Hour)
	fe := []*phase0.Epoch{&chain.AltairForkEpoch, &chain.BellatrixForkEpoch, &chain.CapellaForkEpoch, &chain.DenebForkEpoch}
	for i, f := range pl.Forks {
		if f < 0 {
			*fe[i] = env.FarFuture
		} else {
			*fe[i] = phase0.Epoch(f)
		}
	}
	log := &env.SignerLog{}
	script := &env.Script{Outcomes: map[string][]env.Outcome{}}
	for i := range pl.Ops {
		script.Outcomes[fmt.Sprintf("op%d/Domain", i)] = []env.Outcome{pl.Ops[i].Domain}
	}
	cur := make([]int, pl.Clients) // the op each client is executing
	for c := range cur {
		cur[c] = -1
	}
	log.Fault = func(r *env.SignReq) (string, time.Duration) {
		oi := -1
		if r.KeyIndex >= 0 {
			oi = cur[r.KeyIndex%pl.Clients]
		}
		r.Tag = fmt.Sprintf("op=%d", oi)
		if oi < 0 {
			return "", 0
		}
		op := &pl.Ops[oi]
		affected := r.KeyIndex >= 0 && op.SignMask&(1<<r.KeyIndex) != 0
		switch op.SignKind {
		case "error":
			if affected {
				return "error", op.SignLat
			}
		case "zero":
			if affected {
				return "zero", 0
			}
		case "lat":
			return "", op.SignLat
		}
		return "", 0
	}
	recs := make([]*opRec, len(pl.Ops))
	msgs := make([]*opMsgs, len(pl.Ops))
	exps := make([][]expect, len(pl.Ops))
	for i := range pl.Ops {
		recs[i] = &opRec{}
		msgs[i], exps[i] = build(chain, pl, &pl.Ops[i])
	}

	res := sim.Run(sched, time.Hour, 40000, nil, func(ctx context.Context) {
		cp := &env.ChainProviders{C: chain}
		if pl.NoBuilderDomain {
			cp.OmitSpec = []string{"DOMAIN_APPLICATION_BUILDER"}
		}
		mon := nullmetrics.New()
		var accs []e2wtypes.Account
		for i, k := range pl.Kinds {
			accs = append(accs, env.NewAccount(log, env.AccountKind(k), i, fmt.Sprintf("acc%d", i)))
		}
		node := &domainNode{cp: cp, script: script}
		s, err := standardsigner.New(ctx, standardsigner.WithLogLevel(zerolog.Disabled), standardsigner.WithMonitor(mon),
			standardsigner.WithClientMonitor(mon), standardsigner.WithSpecProvider(cp), standardsigner.WithDomainProvider(node))
		if err != nil {
			panic(err)
		}
		done := 0
		runOp := func(ctx context.Context, i int) {
			op := &pl.Ops[i]
			m := msgs[i]
			rec := recs[i]
			var batch []e2wtypes.Account
			for _, a := range op.Accounts {
				batch = append(batch, accs[a])
			}
			cur[op.Client] = i
			ctx = context.WithValue(ctx, clientKey{}, i)
			simrt.Yield("c06/call")
			rec.callStep = simrt.Step()
			slot := phase0.Slot(op.Slot)
			one := func(sig phase0.BLSSignature, err error) {
				rec.sigs, rec.err = []phase0.BLSSignature{sig}, err
			}
			switch op.Kind {
			case "attestation":
				d := m.attData[0]
				one(s.SignBeaconAttestation(ctx, batch[0], slot, d.Index, d.BeaconBlockRoot, d.Source.Epoch, d.Source.Root, d.Target.Epoch, d.Target.Root))
			case "attestations":
				d := m.attData[0]
				var cis []phase0.CommitteeIndex
				for _, ad := range m.attData {
					cis = append(cis, ad.Index)
				}
				rec.sigs, rec.err = s.SignBeaconAttestations(ctx, batch, slot, cis, d.BeaconBlockRoot, d.Source.Epoch, d.Source.Root, d.Target.Epoch, d.Target.Root)
			case "proposal":
				h := m.header
				one(s.SignBeaconBlockProposal(ctx, batch[0], slot, h.ProposerIndex, h.ParentRoot, h.StateRoot, h.BodyRoot))
			case "randao":
				one(s.SignRANDAOReveal(ctx, batch[0], slot))
			case "slot-selections":
				rec.sigs, rec.err = s.SignSlotSelections(ctx, batch, slot)
			case "sync-selections":
				rec.sigs, rec.err = s.SignSyncCommitteeSelections(ctx, batch, slot, op.Indices)
			case "aggregate-and-proof":
				one(s.SignAggregateAndProof(ctx, batch[0], slot, must(m.aggregate.HashTreeRoot())))
			case "sync-roots":
				rec.sigs, rec.err = s.SignSyncCommitteeRoots(ctx, batch, phase0.Epoch(op.Slot/slotsPerEpoch), m.blockRoot)
			case "contributions":
				rec.sigs, rec.err = s.SignContributionAndProofs(ctx, batch, m.contributions)
			case "registration":
				one(s.SignValidatorRegistration(ctx, batch[0], &builderapi.VersionedValidatorRegistration{Version: builderspec.BuilderVersionV1, V1: m.registration}))
			case "blob-sidecar":
				one(s.SignBlobSidecar(ctx, batch[0], slot, m.sidecarRoot))
			}
			simrt.Yield("c06/ret")
			rec.retStep = simrt.Step()
			rec.done = true
			cur[op.Client] = -1
		}
		for c := 0; c < pl.Clients; c++ {
			simrt.Go(fmt.Sprintf("client%d", c), func() {
				defer simrt.Crit(func() { done++ })
				for i := range pl.Ops {
					if pl.Ops[i].Client == c {
						runOp(ctx, i)
					}
				}
			})
		}
		for {
			n := 0
			simrt.Crit(func() { n = done })
			if n == pl.Clients {
				break
			}
			simrt.Sleep(ctx, time.Second, "main/wait")
		}
	})
	out.Res = res
	if res.Violation != nil {
		out.Violation = res.Violation
		if res.Violation.Kind == "panic" || res.Violation.Kind == "deadlock" || res.Violation.Kind == "horizon" {
			out.Violation.Kind = "C06/" + res.Violation.Kind
		}
		return out
	}
	out.Violation = oracle(pl, chain, log.Snapshot(), script, recs, exps, out)
	return out
}

func oracle(pl *Plan, chain *env.Chain, reqs []*env.SignReq, script *env.Script, recs []*opRec, exps [][]expect, out *sim.Outcome) *simrt.Violation {
	for i := range pl.Ops {
		op := &pl.Ops[i]
		rec := recs[i]
		exp := exps[i]
		if !rec.done {
			return env.Viol("harness-c06-op-not-run", "op %d did not complete", i)
		}
		tag := fmt.Sprintf("op=%d", i)
		// which faults fired inside this call
		domainFailed, signerFailed := false, false
		zeroFor := map[int]bool{}
		for _, c := range script.CallsOf(fmt.Sprintf("op%d", i), "Domain") {
			if c.Outcome.Kind == "error" || c.Outcome.Kind == "hang" {
				domainFailed = true
			}
		}
		for _, r := range reqs {
			if r.Tag != tag {
				continue
			}
			switch r.Outcome {
			case "error", "cancelled":
				signerFailed = true
			case "zero":
				if r.BatchSize > 1 || r.Method == "SignBeaconAttestations" || r.Method == "SignGenericMulti" {
					zeroFor[r.KeyIndex] = true
				} else {
					signerFailed = true
				}
			}
		}
		fork := "after"
		epoch := int64(op.Slot / slotsPerEpoch)
		for _, f := range pl.Forks {
			if f == epoch {
				fork = "at"
			} else if f == epoch+1 && fork != "at" {
				fork = "before"
			}
		}
		if rec.err != nil {
			out.Probes["call-failed:"+op.Kind]++
			if domainFailed || signerFailed || refused(pl, op) {
				continue
			}
			return env.Viol("C06/unexpected-failure", "op %d %s accounts %v kinds %v slot %d: no fault fired but the call returned %v", i, op.Kind, op.Accounts, kindsOf(pl, op), op.Slot, rec.err)
		}
		if len(rec.sigs) != len(exp) {
			return env.Viol("C06/signature-count-mismatch", "op %d %s: %d accounts, %d signatures", i, op.Kind, len(exp), len(rec.sigs))
		}
		if domainFailed {
			return env.Viol("C06/signed-without-domain", "op %d %s: the node refused the domain request but the call succeeded", i, op.Kind)
		}
		mixed := false
		for j, e := range exp {
			if pl.Kinds[e.key] != pl.Kinds[exp[0].key] {
				mixed = true
			}
			sig := rec.sigs[j]
			if sig.IsZero() {
				if zeroFor[e.key] {
					out.Probes["zero-entry-under-fault"]++
					continue
				}
				return env.Viol("C06/zero-signature-without-fault", "op %d %s entry %d (account %d kind %d): zero signature, the signer was not told to withhold it", i, op.Kind, j, e.key, pl.Kinds[e.key])
			}
			if !env.VerifySig(e.key, e.root, e.domain, sig) {
				return env.Viol("C06/signature-does-not-verify:"+op.Kind, "op %d %s entry %d/%d (account %d kind %d, accounts %v kinds %v) slot %d epoch %d forks %v: %s",
					i, op.Kind, j, len(exp), e.key, pl.Kinds[e.key], op.Accounts, kindsOf(pl, op), op.Slot, epoch, pl.Forks, diagnose(pl, chain, op, exp, sig))
			}
			if zeroFor[e.key] {
				return env.Viol("C06/signature-for-withheld-entry", "op %d %s entry %d: the signer withheld the signature of account %d but one was returned", i, op.Kind, j, e.key)
			}
			out.Probes["verified:"+op.Kind]++
			out.Probes["verified-fork-"+fork]++
			out.Nontrivial = true
		}
		if mixed && len(exp) > 1 {
			out.Probes["mixed-kind-batch-verified"]++
		}
	}
	return nil
}

func kindsOf(pl *Plan, op *Op) []int {
	var k []int
	for _, a := range op.Accounts {
		k = append(k, pl.Kinds[a])
	}
	return k
}

// refused reports a limitation of the stub accounts, not of vouch: the generic
// batch path signs one by one through the plain Sign method when the first
// account of a group is not a multi-signer, and the protecting/multi/distributed
// stubs have no Sign method.
func refused(pl *Plan, op *Op) bool {
	if op.Kind == "registration" && pl.NoBuilderDomain {
		return true
	}
	if !batchKind(op.Kind) || op.Kind == "attestations" {
		return false
	}
	var groups [2][]int
	for _, a := range op.Accounts {
		g := 0
		if pl.Kinds[a] == int(env.KindDistributed) {
			g = 1
		}
		groups[g] = append(groups[g], pl.Kinds[a])
	}
	for _, g := range groups {
		if len(g) == 0 || g[0] == int(env.KindMulti) || g[0] == int(env.KindDistributed) {
			continue
		}
		for _, k := range g {
			if k != int(env.KindPlain) {
				return true
			}
		}
	}
	return false
}

// diagnose looks for what a bad signature does verify against (only on failure).
func diagnose(pl *Plan, chain *env.Chain, op *Op, exp []expect, sig phase0.BLSSignature) string {
	types := map[string]phase0.DomainType{"proposer": env.DomainBeaconProposer, "attester": env.DomainBeaconAttester, "randao": env.DomainRandao,
		"selection": env.DomainSelectionProof, "aggregate": env.DomainAggregateAndProof, "sync": env.DomainSyncCommittee,
		"sync-selection": env.DomainSyncCommitteeSelectionProof, "contribution": env.DomainContributionAndProof, "blob": env.DomainBlobSidecar, "builder": env.DomainApplicationBuilder}
	epoch := op.Slot / slotsPerEpoch
	for j, e := range exp {
		for key := range pl.Kinds {
			for _, name := range env.SortedKeys(types) {
				for de := int64(-2); de <= 2; de++ {
					ep := int64(epoch) + de
					if ep < 0 {
						continue
					}
					if env.VerifySig(key, e.root, chain.DomainAt(types[name], phase0.Epoch(ep)), sig) {
						return fmt.Sprintf("it verifies for account %d, message of entry %d, domain type %s, fork version of epoch %d", key, j, name, ep)
					}
				}
			}
		}
	}
	return "it verifies for no (account, message of this call, domain type, nearby epoch)"
}

func init() {
	sim.Register(&sim.Scenario{Property: "C06", Name: "signer-methods", Gen: gen, Exec: exec})
}
