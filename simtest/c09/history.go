package c09

// Scenario C09/relay-address-history: several auctions in one process life, between which the relay
// configuration changes the way an execution-configuration reload changes it - the same relay host is listed
// first without its public key and later as scheme://0xPUBKEY@host (or the other way round, or first with
// another key).  docs/execlayer.md: "If the public key is present in the URL then signed bids provided by this
// relay will be verified by Vouch before being considered for inclusion, otherwise bids from the relay are
// considered trusted and not verified."  Whether a relay's key is known is therefore a property of the relay
// configuration in force for THAT auction, not of what was configured earlier.
//
// Unlike the other scenarios of this package the builder clients are not stubs put into the client cache: the
// strategies obtain them from the real util.FetchBuilderClient (go-builder-client's HTTP client, which takes the
// key from the URL), and the relays are HTTP servers on the loopback interface.  The servers live outside the
// synctest bubble; a round trip is an uninstrumented operation, i.e. it happens within one scheduling step (the
// controller's synctest.Wait does not return while a bubble goroutine is in network I/O), and every response
// closes its connection so that no connection goroutine outlives the step.  What a relay answers is a pure
// function of the plan and of the number of requests it has had in the current auction, so the outcome stays a
// function of the tapes; the (kernel-assigned) port numbers appear in addresses only.

import (
	"context"
	"encoding/json"
	"fmt"
	"net"
	"net/http"
	"net/url"
	"sync"
	"time"

	builderclient "github.com/attestantio/go-builder-client"
	builderspec "github.com/attestantio/go-builder-client/spec"
	"github.com/attestantio/go-eth2-client/spec"
	"github.com/attestantio/go-eth2-client/spec/phase0"
	"github.com/attestantio/vouch/services/beaconblockproposer"
	nullmetrics "github.com/attestantio/vouch/services/metrics/null"
	bestbid "github.com/attestantio/vouch/strategies/builderbid/best"
	deadlinebid "github.com/attestantio/vouch/strategies/builderbid/deadline"
	"github.com/attestantio/vouch/util"
	"github.com/rs/zerolog"
	"github.com/shopspring/decimal"
	"github.com/spf13/viper"

	"verif/sim"
	"verif/simrt"
	. "verif/simtest/env"
)

// ---------------------------------------------------------------------------
// plan

type c09HistRelay struct {
	Present bool `json:"present"`
	// Addr is the form of the relay's address in this auction's configuration:
	// plain (scheme://host) | key (scheme://0xOWNKEY@host) | otherkey (scheme://0xFOREIGNKEY@host)
	Addr string `json:"addr"`
	// Cfg: "own" = the relay configuration carries public_key (the relay's own key)
	Cfg    string   `json:"cfg,omitempty"`
	Min    uint64   `json:"min"`
	Rounds []c09Bid `json:"rounds"` // answer k of this auction (the last one is repeated)
}

type c09HistPhase struct {
	Relays []c09HistRelay `json:"relays"` // by relay (host) index
}

type c09HistPlan struct {
	Strategy string         `json:"strategy"`
	Timeout  time.Duration  `json:"timeout"`
	BidGap   time.Duration  `json:"bid_gap,omitempty"`
	Builders []c09Builder   `json:"builders"`
	Stories  []string       `json:"stories"` // how each relay's address develops (documentation of the plan)
	Phases   []c09HistPhase `json:"phases"`
}

const c09HistMaxRelays = 3

func c09GenHistBid(p *simrt.Tape, min uint64, nextHeader *int) c09Bid {
	vals := []uint64{100, 200, 300, 400, 500, 1000, 101, 299}
	b := c09Bid{Value: vals[p.Pick(len(vals))], Builder: p.Pick(c09NBuilders), Version: p.Pick(3)}
	if b.Value < min && p.Pct(80) {
		b.Value = min + []uint64{0, 1, 100, 300}[p.Pick(4)]
	}
	*nextHeader++
	b.Header = *nextHeader // every bid of a run has its own header: a bid is identified by its content
	if p.Pct(4) {
		b.TsOff = []int64{-1, 1, 12, -12}[p.Pick(4)]
	}
	if p.Pct(3) {
		b.FeeZero = true
	}
	if p.Pct(35) {
		b.Sig = []string{"other", "wrongmsg", "wrongdomain", "garbage"}[p.Pick(4)]
	}
	switch r := p.Draw(100); {
	case r < 5:
		b.Kind = "error" // HTTP 500
	case r < 9:
		b.Kind = "nil" // HTTP 204, the relay has no bid
	}
	return b
}

func c09GenHistory(p *simrt.Tape) any {
	c09NetStart() // outside the bubble: the relay servers must not be bubble goroutines
	pl := &c09HistPlan{Strategy: []string{"best", "deadline"}[p.Pick(2)]}
	pl.Builders = c09GenBuilders(p)
	if pl.Strategy == "best" {
		pl.Timeout = []time.Duration{time.Second, 2 * time.Second}[p.Pick(2)]
	} else {
		pl.Timeout = []time.Duration{time.Second, 1500 * time.Millisecond}[p.Pick(2)]
		pl.BidGap = []time.Duration{300 * time.Millisecond, 500 * time.Millisecond}[p.Pick(2)]
	}
	nr := p.Range(1, c09HistMaxRelays)
	np := p.Range(2, 3)
	mins := []uint64{0, 0, 0, 200, 300}
	forms := []string{"plain", "key", "otherkey"}
	pl.Phases = make([]c09HistPhase, np)
	nextHeader := 0
	for i := 0; i < nr; i++ {
		story := "independent"
		switch r := p.Draw(100); {
		case r < 45:
			story = "plain-then-key"
		case r < 60:
			story = "otherkey-then-key"
		case r < 72:
			story = "key-then-plain"
		case r < 80:
			story = "configured-key"
		}
		pl.Stories = append(pl.Stories, story)
		turn := p.Range(1, np-1) // first auction with the later form
		min := mins[p.Pick(len(mins))]
		for k := 0; k < np; k++ {
			hr := c09HistRelay{Present: i == 0 || p.Pct(85), Min: min}
			form, cfg := forms[p.Pick(3)], p.Pct(10)
			switch story {
			case "plain-then-key":
				form, cfg = "plain", false
				if k >= turn {
					form = "key"
				}
			case "otherkey-then-key":
				form, cfg = "otherkey", false
				if k >= turn {
					form = "key"
				}
			case "key-then-plain":
				form, cfg = "key", false
				if k >= turn {
					form = "plain"
				}
			case "configured-key":
				form, cfg = "plain", true
			}
			hr.Addr = form
			if cfg && form != "otherkey" { // two different keys for one relay: the documentation gives no precedence
				hr.Cfg = "own"
			}
			hr.Rounds = append(hr.Rounds, c09GenHistBid(p, min, &nextHeader))
			if p.Pct(40) {
				// a later, higher bid of the same builder
				b := c09GenHistBid(p, min, &nextHeader)
				prev := hr.Rounds[0]
				b.Builder = prev.Builder
				b.Value = prev.Value + []uint64{1, 50, 100, 300}[p.Pick(4)]
				hr.Rounds = append(hr.Rounds, b)
			}
			pl.Phases[k].Relays = append(pl.Phases[k].Relays, hr)
		}
	}
	return pl
}

// c09HistKeyKind: which key the configuration in force gives for the relay, in the vocabulary of c09Relay.Key.
func c09HistKeyKind(hr *c09HistRelay) string {
	switch {
	case hr.Cfg == "own" || hr.Addr == "key":
		return "config" // the relay's own key is known
	case hr.Addr == "otherkey":
		return "wrongconfig" // a key is known, and it is not the one the relay signs with
	}
	return "none"
}

// ---------------------------------------------------------------------------
// the relays: HTTP servers on loopback, outside the bubble

type c09NetAnswer struct {
	status  int
	version string
	body    []byte
	rec     c09Rec // template of the history record (bid, roots, signature)
}

type c09NetRun struct {
	now     time.Duration // simulated time, stamped by the controller before every scheduling step
	phase   int
	slots   []phase0.Slot
	answers [][][]c09NetAnswer // [phase][relay] -> answers; nil: relay not configured in that auction
	served  [][]int            // [phase][relay] requests so far
	recs    [][]*c09Rec        // [phase] bids handed out
	stray   int                // requests that match no configured relay / auction
}

var c09Net struct {
	once  sync.Once
	mu    sync.Mutex // a real mutex: shared between bubble goroutines and the servers' goroutines
	up    bool
	hosts []string
	cur   *c09NetRun
}

func c09NetStart() {
	c09Net.once.Do(func() {
		var lns []net.Listener
		for i := 0; i < c09HistMaxRelays; i++ {
			ln, err := net.Listen("tcp4", "127.0.0.1:0")
			if err != nil {
				for _, l := range lns {
					l.Close()
				}
				return
			}
			lns = append(lns, ln)
		}
		for i, ln := range lns {
			c09Net.hosts = append(c09Net.hosts, ln.Addr().String())
			srv := &http.Server{Handler: http.HandlerFunc(func(w http.ResponseWriter, r *http.Request) { c09NetServe(i, w, r) })}
			go func() { _ = srv.Serve(ln) }()
		}
		c09Net.up = true
	})
}

func c09NetServe(relay int, w http.ResponseWriter, r *http.Request) {
	c09Net.mu.Lock()
	defer c09Net.mu.Unlock()
	// one connection per request: an idle connection's reader would be a bubble goroutine waiting for the network
	w.Header().Set("Connection", "close")
	run := c09Net.cur
	var slot uint64
	var rest string
	if n, _ := fmt.Sscanf(r.URL.Path, "/eth/v1/builder/header/%d/%s", &slot, &rest); n != 2 || run == nil || r.Method != http.MethodGet {
		if run != nil {
			run.stray++
		}
		w.WriteHeader(http.StatusNotFound)
		return
	}
	ph := run.phase
	if ph < 0 || ph >= len(run.answers) || run.answers[ph][relay] == nil || phase0.Slot(slot) != run.slots[ph] {
		run.stray++
		w.WriteHeader(http.StatusNotFound)
		return
	}
	k := run.served[ph][relay]
	run.served[ph][relay]++
	as := run.answers[ph][relay]
	if k >= len(as) {
		k = len(as) - 1
	}
	a := &as[k]
	if a.status != http.StatusOK {
		w.WriteHeader(a.status)
		return
	}
	rec := a.rec
	rec.startT, rec.endT, rec.returned = run.now, run.now, true
	run.recs[ph] = append(run.recs[ph], &rec)
	w.Header().Set("Content-Type", "application/json")
	w.Header().Set("Eth-Consensus-Version", a.version)
	_, _ = w.Write(a.body)
}

func c09NetDo(f func(run *c09NetRun)) {
	c09Net.mu.Lock()
	defer c09Net.mu.Unlock()
	f(c09Net.cur)
}

// ---------------------------------------------------------------------------
// execution

func c09HistAddress(form string, relay int) string {
	switch form {
	case "key":
		return fmt.Sprintf("http://%#x@%s", PubKey(c09RelayKey0+relay), c09Net.hosts[relay])
	case "otherkey":
		return fmt.Sprintf("http://%#x@%s", PubKey(c09ForeignKey+1), c09Net.hosts[relay])
	}
	return "http://" + c09Net.hosts[relay]
}

func c09HistExec(plan any, sched *simrt.Tape) *sim.Outcome {
	pl := plan.(*c09HistPlan)
	out := &sim.Outcome{Probes: map[string]int{}, Sample: pl}
	if !c09Net.up {
		out.Probes["loopback-unavailable"]++
		return out
	}
	InitBLS()
	ch := DefaultChain(0)
	parent := phase0.Hash32(c09Hash("parent", 0))
	proposer := PubKey(1)

	// what the relays will answer
	nrun := &c09NetRun{phase: -1}
	for k := range pl.Phases {
		slot := phase0.Slot(c09Slot + k)
		nrun.slots = append(nrun.slots, slot)
		row := make([][]c09NetAnswer, c09HistMaxRelays)
		for i := range pl.Phases[k].Relays {
			hr := &pl.Phases[k].Relays[i]
			if !hr.Present {
				continue
			}
			for n := range hr.Rounds {
				b := &hr.Rounds[n]
				switch b.Kind {
				case "error":
					row[i] = append(row[i], c09NetAnswer{status: http.StatusInternalServerError})
					continue
				case "nil":
					row[i] = append(row[i], c09NetAnswer{status: http.StatusNoContent})
					continue
				}
				bid, msgRoot, hdrRoot := c09BuildBidAt(ch, slot, parent, i, b)
				a := c09NetAnswer{status: http.StatusOK, rec: c09Rec{relay: i, round: n, spec: b, bid: bid, msgRoot: msgRoot, hdrRoot: hdrRoot, slot: slot}}
				a.rec.sig, _ = bid.Signature()
				var data []byte
				var err error
				switch bid.Version {
				case spec.DataVersionBellatrix:
					a.version = "bellatrix"
					data, err = json.Marshal(bid.Bellatrix)
				case spec.DataVersionCapella:
					a.version = "capella"
					data, err = json.Marshal(bid.Capella)
				default:
					a.version = "deneb"
					data, err = json.Marshal(bid.Deneb)
				}
				if err != nil {
					panic(err)
				}
				a.body = []byte(fmt.Sprintf(`{"version":%q,"data":%s}`, a.version, data))
				row[i] = append(row[i], a)
			}
		}
		nrun.answers = append(nrun.answers, row)
		nrun.served = append(nrun.served, make([]int, c09HistMaxRelays))
		nrun.recs = append(nrun.recs, nil)
	}
	c09Net.mu.Lock()
	c09Net.cur = nrun
	c09Net.mu.Unlock()
	defer func() {
		c09Net.mu.Lock()
		c09Net.cur = nil
		c09Net.mu.Unlock()
	}()
	// vouch's defaults (main.go): builder clients take their timeout from the configuration
	viper.Set("timeout", 2*time.Second)
	viper.Set("log-level", "none")
	defer func() {
		viper.Set("timeout", nil)
		viper.Set("log-level", nil)
	}()

	runs := make([]*c09Run, len(pl.Phases))
	phasePlans := make([]*c09Plan, len(pl.Phases))
	stamp := func() *simrt.Violation {
		now := simrt.Now()
		c09NetDo(func(r *c09NetRun) { r.now = now })
		return nil
	}
	res := sim.Run(sched, 10*time.Minute, 60000, stamp, func(ctx context.Context) {
		util.VerifResetBuilderClients()
		cp := &ChainProviders{C: ch}
		ct := NewChainTime(ctx, ch)
		var strat c09Strategy
		var err error
		if pl.Strategy == "best" {
			strat, err = bestbid.New(ctx, bestbid.WithLogLevel(zerolog.Disabled), bestbid.WithMonitor(nullmetrics.New()), bestbid.WithSpecProvider(cp),
				bestbid.WithDomainProvider(cp), bestbid.WithChainTime(ct), bestbid.WithTimeout(pl.Timeout), bestbid.WithReleaseVersion("sim"))
		} else {
			strat, err = deadlinebid.New(ctx, deadlinebid.WithLogLevel(zerolog.Disabled), deadlinebid.WithMonitor(nullmetrics.New()), deadlinebid.WithSpecProvider(cp),
				deadlinebid.WithDomainProvider(cp), deadlinebid.WithChainTime(ct), deadlinebid.WithDeadline(pl.Timeout), deadlinebid.WithBidGap(pl.BidGap), deadlinebid.WithReleaseVersion("sim"))
		}
		if err != nil {
			panic(err)
		}
		bcfg := c09BuilderConfigs(&c09Plan{Builders: pl.Builders})
		for k := range pl.Phases {
			slot := nrun.slots[k]
			// the configuration in force for this auction
			pc := &beaconblockproposer.ProposerConfig{}
			pc.FeeRecipient[0] = 1
			pp := &c09Plan{Strategy: pl.Strategy, Timeout: pl.Timeout, BidGap: pl.BidGap, Builders: pl.Builders}
			for i := range pl.Phases[k].Relays {
				hr := &pl.Phases[k].Relays[i]
				pp.Relays = append(pp.Relays, c09Relay{Min: hr.Min, Key: c09HistKeyKind(hr)})
				if !hr.Present {
					continue
				}
				rc := &beaconblockproposer.RelayConfig{Address: c09HistAddress(hr.Addr, i), GasLimit: 30000000, MinValue: decimal.NewFromInt(int64(hr.Min))}
				rc.FeeRecipient[0] = 1
				if hr.Cfg == "own" {
					own := PubKey(c09RelayKey0 + i)
					rc.PublicKey = &own
				}
				pc.Relays = append(pc.Relays, rc)
			}
			phasePlans[k] = pp
			if err := simrt.Sleep(ctx, ch.SlotStart(uint64(slot)).Sub(SimEpoch)-simrt.Now(), "c09/until-auction"); err != nil {
				return
			}
			c09NetDo(func(r *c09NetRun) { r.phase = k })
			run := &c09Run{hist: &c09Hist{}, ch: ch, slot: slot}
			run.callT = simrt.Now()
			r, e := strat.BuilderBid(ctx, slot, parent, proposer, pc, bcfg)
			run.res, run.err, run.retT, run.returned = r, e, simrt.Now(), true
			// requests of the best strategy are not cancelled when it returns: they belong to this auction
			simrt.Sleep(ctx, 3*time.Second, "c09/after-auction")
			c09NetDo(func(r *c09NetRun) { r.phase = -1 })
			runs[k] = run
		}
	})
	out.Res = res
	if res.Violation != nil {
		out.Violation = res.Violation
		if res.Violation.Kind == "panic" || res.Violation.Kind == "deadlock" || res.Violation.Kind == "horizon" {
			out.Violation.Kind = "C09/" + res.Violation.Kind
		}
		return out
	}
	if len(res.Stranded) > 0 {
		out.Probes["stranded-tasks"] += len(res.Stranded)
	}
	if nrun.stray > 0 {
		out.Probes["history:stray-request"] += nrun.stray
	}

	hostRelay := func(addr string) int {
		u, err := url.Parse(addr)
		if err != nil {
			return -1
		}
		for i, h := range c09Net.hosts {
			if u.Host == h {
				return i
			}
		}
		return -1
	}
	knownBefore := make([]string, c09HistMaxRelays) // key kind under which the host was last configured
	for k, run := range runs {
		if run == nil {
			continue
		}
		run.hist.recs = nrun.recs[k]
		run.relayOf = func(p builderclient.BuilderBidProvider) int {
			i := hostRelay(p.Address())
			if i >= 0 && i < len(pl.Phases[k].Relays) && pl.Phases[k].Relays[i].Present {
				return i
			}
			return -1 // not a relay of this auction's configuration
		}
		run.sameBid = func(r *c09Rec, bid *builderspec.VersionedSignedBuilderBid) bool {
			root, err := bid.MessageHashTreeRoot()
			if err != nil {
				return false
			}
			sig, err := bid.Signature()
			return err == nil && root == r.msgRoot && sig == r.sig
		}
		// did the run reach the situations this scenario is for?
		for i := range pl.Phases[k].Relays {
			hr := &pl.Phases[k].Relays[i]
			if !hr.Present {
				continue
			}
			kind := c09HistKeyKind(hr)
			if knownBefore[i] != "" && knownBefore[i] != kind {
				out.Probes["history:key-of-host-changed:"+knownBefore[i]+"->"+kind]++
				for _, r := range run.hist.recs {
					if r.relay == i && r.spec.Sig != "" {
						out.Probes["history:badly-signed-bid-after-key-change"]++
						break
					}
				}
			}
			knownBefore[i] = kind
		}
		if v := c09Oracle(phasePlans[k], run, out); v != nil {
			v.Detail = fmt.Sprintf("auction %d of %d (relay addresses %s): %s", k+1, len(runs), c09HistForms(pl, k), v.Detail)
			out.Violation = v
			return out
		}
	}
	return out
}

func c09HistForms(pl *c09HistPlan, upto int) string {
	s := ""
	for i := range pl.Phases[0].Relays {
		if i > 0 {
			s += "; "
		}
		s += fmt.Sprintf("relay%d:", i)
		for k := 0; k <= upto; k++ {
			hr := &pl.Phases[k].Relays[i]
			f := hr.Addr
			if hr.Cfg != "" {
				f += "+public_key"
			}
			if !hr.Present {
				f = "absent"
			}
			s += " " + f
		}
	}
	return s
}

func init() {
	sim.Register(&sim.Scenario{Property: "C09", Name: "relay-address-history", Gen: c09GenHistory, Exec: c09HistExec})
}
