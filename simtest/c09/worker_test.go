//go:debug randseednop=0
package c09

import (
	"testing"

	"verif/sim"
	_ "verif/simtest/c12" // registers C09/rest-builder-bid (bids as the REST interface hands them out)
)

// randseednop=0: the scenario of package c12 seeds the math/rand global source from its plan (vouch draws the
// registration job's time from it).
func TestWorker(t *testing.T) { sim.WorkerMain(t) }
