// Package c09: the relay auction selects the best eligible bid and only eligible bids.
//
// Real code: strategies/builderbid/best and strategies/builderbid/deadline,
// driven through their BuilderBid method with proposer configurations built
// here.  Stubs: relays (go-builder-client interfaces) that serve bids signed
// with real BLS relay keys over the builder domain.  Oracle: eligibility and
// score from the property statement / docs/configuration.md, evaluated over the
// bids the relay stubs actually returned and the instant the strategy returned.
package c09

import (
	"context"
	"crypto/sha256"
	"encoding/binary"
	"fmt"
	"math/big"
	"sync"
	"time"

	"github.com/attestantio/go-block-relay/services/blockauctioneer"
	builderclient "github.com/attestantio/go-builder-client"
	builderapi "github.com/attestantio/go-builder-client/api"
	builderbellatrix "github.com/attestantio/go-builder-client/api/bellatrix"
	buildercapella "github.com/attestantio/go-builder-client/api/capella"
	builderdeneb "github.com/attestantio/go-builder-client/api/deneb"
	builderspec "github.com/attestantio/go-builder-client/spec"
	consensusapi "github.com/attestantio/go-eth2-client/api"
	"github.com/attestantio/go-eth2-client/spec"
	"github.com/attestantio/go-eth2-client/spec/bellatrix"
	"github.com/attestantio/go-eth2-client/spec/capella"
	"github.com/attestantio/go-eth2-client/spec/deneb"
	"github.com/attestantio/go-eth2-client/spec/phase0"
	"github.com/attestantio/vouch/services/beaconblockproposer"
	"github.com/attestantio/vouch/services/blockrelay"
	nullmetrics "github.com/attestantio/vouch/services/metrics/null"
	bestbid "github.com/attestantio/vouch/strategies/builderbid/best"
	deadlinebid "github.com/attestantio/vouch/strategies/builderbid/deadline"
	"github.com/attestantio/vouch/util"
	"github.com/holiman/uint256"
	"github.com/rs/zerolog"
	"github.com/shopspring/decimal"
	e2types "github.com/wealdtech/go-eth2-types/v2"

	"verif/sim"
	"verif/simrt"
	. "verif/simtest/env"
)

// ---------------------------------------------------------------------------
// plan

type c09Bid struct {
	Lat     time.Duration `json:"lat"`
	Kind    string        `json:"kind,omitempty"` // "" bid | error | hang | nil (no data) | empty (container without bid)
	Value   uint64        `json:"value"`
	Builder int           `json:"builder"`
	TsOff   int64         `json:"ts_off,omitempty"`   // timestamp - slot start, seconds
	FeeZero bool          `json:"fee_zero,omitempty"` // zero fee recipient in the header
	Sig     string        `json:"sig,omitempty"`      // "" valid | other | wrongmsg | wrongdomain | garbage
	Header  int           `json:"header"`             // header identity (equal => same execution payload header)
	Version int           `json:"version"`            // 0 bellatrix, 1 capella, 2 deneb
}

type c09Relay struct {
	Min    uint64        `json:"min"`
	Grace  time.Duration `json:"grace,omitempty"`
	Key    string        `json:"key"` // config | provider | both | none | wrongconfig
	Rounds []c09Bid      `json:"rounds"`
}

type c09Builder struct {
	Kind     string `json:"kind,omitempty"` // "" no configuration | cfg | excluded | privileged
	Offset   *int64 `json:"offset,omitempty"`
	Factor   *int64 `json:"factor,omitempty"`
	Category string `json:"category,omitempty"`
}

type c09Plan struct {
	Strategy string        `json:"strategy"` // best | deadline
	Timeout  time.Duration `json:"timeout"`  // best: hard timeout; deadline: deadline after the slot start
	BidGap   time.Duration `json:"bid_gap,omitempty"`
	CallOff  time.Duration `json:"call_off"` // call instant relative to the slot start
	Relays   []c09Relay    `json:"relays"`
	Builders []c09Builder  `json:"builders"`
	// BadAddress is only set by the probe scenario (not part of C09's space):
	// relay 0 is configured with an address for which no builder client can be obtained.
	BadAddress bool `json:"bad_address,omitempty"`
	BadKind    int  `json:"bad_kind,omitempty"`
	// Earlier (probe only): auctions held before the judged one with the same relays, so that a client that
	// could not be obtained is asked for a second time.
	Earlier int `json:"earlier,omitempty"`
}

const (
	c09Slot       = 2
	c09NBuilders  = 4
	c09RelayKey0  = 1000
	c09BuilderKey = 2000
	c09ForeignKey = 1900
)

func i64(v int64) *int64 { return &v }

func c09GenBuilders(p *simrt.Tape) []c09Builder {
	factors := []*int64{nil, i64(0), i64(50), i64(100), i64(150), i64(200), i64(110)}
	offsets := []*int64{nil, nil, i64(0), i64(100), i64(1000), i64(-100), i64(-300), i64(-1000), i64(10)}
	var out []c09Builder
	for i := 0; i < c09NBuilders; i++ {
		r := p.Draw(100)
		switch {
		case r < 35:
			out = append(out, c09Builder{})
		case r < 50:
			out = append(out, c09Builder{Kind: "excluded"})
		case r < 55:
			out = append(out, c09Builder{Kind: "privileged"})
		default:
			b := c09Builder{Kind: "cfg", Factor: factors[p.Pick(len(factors))], Offset: offsets[p.Pick(len(offsets))], Category: "standard"}
			if p.Pct(30) {
				b.Category = "custom"
			}
			out = append(out, b)
		}
	}
	return out
}

func c09GenBidContent(p *simrt.Tape, pl *c09Plan, rel *c09Relay, nextHeader *int) c09Bid {
	vals := []uint64{100, 200, 300, 400, 500, 1000, 101, 299}
	if rel.Min > 0 {
		vals = append(vals, rel.Min-1, rel.Min, rel.Min+1, rel.Min, rel.Min-1)
	}
	b := c09Bid{Value: vals[p.Pick(len(vals))], Builder: p.Pick(c09NBuilders), Version: p.Pick(3)}
	if b.Value < rel.Min && p.Pct(70) {
		b.Value = rel.Min + []uint64{0, 1, 100, 300}[p.Pick(4)]
	}
	if p.Pct(3) {
		b.Value = 0
	}
	*nextHeader++
	b.Header = *nextHeader
	if p.Pct(8) {
		b.TsOff = []int64{-1, 1, 12, -12}[p.Pick(4)]
	}
	if p.Pct(6) {
		b.FeeZero = true
	}
	if p.Pct(13) {
		b.Sig = []string{"other", "wrongmsg", "wrongdomain", "garbage"}[p.Pick(4)]
	}
	r := p.Draw(100)
	switch {
	case r < 8:
		b.Kind = "error"
	case r < 12:
		b.Kind = "hang"
	case r < 16:
		b.Kind = "nil"
	case r < 18:
		b.Kind = "empty"
	}
	// the same header offered by another relay
	if p.Pct(30) {
		var cands []c09Bid
		for i := range pl.Relays {
			for _, o := range pl.Relays[i].Rounds {
				if o.Kind == "" {
					cands = append(cands, o)
				}
			}
		}
		if len(cands) > 0 {
			o := cands[p.Pick(len(cands))]
			b.Header, b.Version, b.FeeZero, b.TsOff = o.Header, o.Version, o.FeeZero, o.TsOff
			if p.Pct(60) {
				b.Value, b.Builder = o.Value, o.Builder
			}
			if p.Pct(70) {
				b.Kind, b.Sig = "", ""
			}
		}
	}
	return b
}

func c09Gen(p *simrt.Tape) any {
	pl := &c09Plan{Strategy: "best"}
	return c09GenFor(p, pl)
}

func c09GenDeadline(p *simrt.Tape) any {
	pl := &c09Plan{Strategy: "deadline"}
	return c09GenFor(p, pl)
}

func c09GenFor(p *simrt.Tape, pl *c09Plan) any {
	pl.Builders = c09GenBuilders(p)
	nr := p.Range(1, 4)
	mins := []uint64{0, 0, 200, 300, 500}
	graces := []time.Duration{0, 0, 0, 100 * time.Millisecond, 400 * time.Millisecond}
	keys := []string{"config", "config", "config", "provider", "provider", "both", "both", "none", "none", "config", "both", "wrongconfig"}
	nextHeader := 0
	if pl.Strategy == "best" {
		pl.Timeout = []time.Duration{time.Second, 2 * time.Second}[p.Pick(2)]
		pl.CallOff = []time.Duration{0, 0, -500 * time.Millisecond, 300 * time.Millisecond}[p.Pick(4)]
		lattice := LatencyLattice(pl.Timeout)
		for i := 0; i < nr; i++ {
			rel := c09Relay{Min: mins[p.Pick(len(mins))], Grace: graces[p.Pick(len(graces))], Key: keys[p.Pick(len(keys))]}
			pl.Relays = append(pl.Relays, rel)
			r := &pl.Relays[i]
			b := c09GenBidContent(p, pl, r, &nextHeader)
			var at time.Duration
			if p.Pct(55) {
				at = lattice[p.Pick(4)]
			} else {
				at = lattice[p.Pick(len(lattice))]
			}
			b.Lat = at - r.Grace
			if b.Lat < 0 {
				b.Lat = 0
			}
			r.Rounds = append(r.Rounds, b)
		}
		return pl
	}
	pl.Timeout = []time.Duration{time.Second, 1500 * time.Millisecond}[p.Pick(2)]
	pl.BidGap = []time.Duration{300 * time.Millisecond, 500 * time.Millisecond}[p.Pick(2)]
	pl.CallOff = []time.Duration{0, 0, 0, 0, 0, -500 * time.Millisecond, -500 * time.Millisecond, 100 * time.Millisecond, 100 * time.Millisecond, pl.Timeout - pl.BidGap, pl.Timeout - 1, pl.Timeout, pl.Timeout + time.Second}[p.Pick(13)]
	for i := 0; i < nr; i++ {
		rel := c09Relay{Min: mins[p.Pick(len(mins))], Grace: graces[p.Pick(len(graces))], Key: keys[p.Pick(len(keys))]}
		pl.Relays = append(pl.Relays, rel)
		r := &pl.Relays[i]
		improving := p.Pct(70)
		at := pl.CallOff + r.Grace // relative to the slot start
		for k := 0; k < 6; k++ {
			b := c09GenBidContent(p, pl, r, &nextHeader)
			if improving && k > 0 {
				prev := r.Rounds[k-1]
				b.Value = prev.Value + []uint64{0, 1, 50, 100, 300}[p.Pick(5)]
				if p.Pct(60) {
					b.Builder = prev.Builder
				}
			}
			rem := pl.Timeout - at
			lats := []time.Duration{0, 0, time.Millisecond, 20 * time.Millisecond, 100 * time.Millisecond}
			if rem > 1 {
				lats = append(lats, rem-1, rem, rem+1, rem/2)
			}
			b.Lat = lats[p.Pick(len(lats))]
			r.Rounds = append(r.Rounds, b)
			at += b.Lat + pl.BidGap
		}
	}
	return pl
}

// ---------------------------------------------------------------------------
// bid construction (relay side)

func c09Hash(tag string, n int) (h [32]byte) {
	var b [8]byte
	binary.LittleEndian.PutUint64(b[:], uint64(n))
	return sha256.Sum256(append([]byte("c09-"+tag+"-"), b[:]...))
}

var c09SigCache sync.Map // string -> []byte

func c09Sign(key int, root [32]byte) []byte {
	k := fmt.Sprintf("%d/%x", key, root)
	if v, ok := c09SigCache.Load(k); ok {
		return v.([]byte)
	}
	sig := PrivKey(key).Sign(root[:]).Marshal()
	c09SigCache.Store(k, sig)
	return sig
}

func c09SigningRoot(obj [32]byte, domain phase0.Domain) [32]byte {
	sd := &phase0.SigningData{ObjectRoot: obj, Domain: domain}
	r, err := sd.HashTreeRoot()
	if err != nil {
		panic(err)
	}
	return r
}

// c09BuildBid renders bid content b as the versioned signed bid relay
// relayIdx serves.  It returns the bid, the hash tree root of its message and
// of its header (computed with the builder-spec types' own HashTreeRoot).
func c09BuildBid(ch *Chain, parent phase0.Hash32, relayIdx int, b *c09Bid) (*builderspec.VersionedSignedBuilderBid, [32]byte, [32]byte) {
	return c09BuildBidAt(ch, c09Slot, parent, relayIdx, b)
}

// c09BuildBidAt: the same for an auction of the given slot.
func c09BuildBidAt(ch *Chain, slot phase0.Slot, parent phase0.Hash32, relayIdx int, b *c09Bid) (*builderspec.VersionedSignedBuilderBid, [32]byte, [32]byte) {
	ts := uint64(ch.SlotStart(uint64(slot)).Unix() + b.TsOff)
	var fee bellatrix.ExecutionAddress
	if !b.FeeZero {
		for i := range fee {
			fee[i] = byte(0x10 + i)
		}
	}
	state, receipts, randao := c09Hash("state", b.Header), c09Hash("receipts", b.Header), c09Hash("randao", b.Header)
	blockHash := phase0.Hash32(c09Hash("block", b.Header))
	txRoot := phase0.Root(c09Hash("tx", b.Header))
	wdRoot := phase0.Root(c09Hash("wd", b.Header))
	pub := PubKey(c09BuilderKey + b.Builder)
	value := uint256.NewInt(b.Value)
	var msgRoot, hdrRoot [32]byte
	var err error
	out := &builderspec.VersionedSignedBuilderBid{}
	var setSig func(s phase0.BLSSignature)
	switch b.Version {
	case 0:
		h := &bellatrix.ExecutionPayloadHeader{ParentHash: parent, FeeRecipient: fee, StateRoot: state, ReceiptsRoot: receipts, PrevRandao: randao,
			BlockNumber: 100, GasLimit: 30000000, GasUsed: uint64(b.Header), Timestamp: ts, ExtraData: []byte{}, BlockHash: blockHash, TransactionsRoot: txRoot}
		h.BaseFeePerGas[0] = 7
		m := &builderbellatrix.BuilderBid{Header: h, Value: value, Pubkey: pub}
		sb := &builderbellatrix.SignedBuilderBid{Message: m}
		out.Version, out.Bellatrix = spec.DataVersionBellatrix, sb
		setSig = func(s phase0.BLSSignature) { sb.Signature = s }
		if msgRoot, err = m.HashTreeRoot(); err == nil {
			hdrRoot, err = h.HashTreeRoot()
		}
	case 1:
		h := &capella.ExecutionPayloadHeader{ParentHash: parent, FeeRecipient: fee, StateRoot: state, ReceiptsRoot: receipts, PrevRandao: randao,
			BlockNumber: 100, GasLimit: 30000000, GasUsed: uint64(b.Header), Timestamp: ts, ExtraData: []byte{}, BlockHash: blockHash, TransactionsRoot: txRoot, WithdrawalsRoot: wdRoot}
		h.BaseFeePerGas[0] = 7
		m := &buildercapella.BuilderBid{Header: h, Value: value, Pubkey: pub}
		sb := &buildercapella.SignedBuilderBid{Message: m}
		out.Version, out.Capella = spec.DataVersionCapella, sb
		setSig = func(s phase0.BLSSignature) { sb.Signature = s }
		if msgRoot, err = m.HashTreeRoot(); err == nil {
			hdrRoot, err = h.HashTreeRoot()
		}
	default:
		h := &deneb.ExecutionPayloadHeader{ParentHash: parent, FeeRecipient: fee, StateRoot: state, ReceiptsRoot: receipts, PrevRandao: randao,
			BlockNumber: 100, GasLimit: 30000000, GasUsed: uint64(b.Header), Timestamp: ts, ExtraData: []byte{}, BaseFeePerGas: uint256.NewInt(7),
			BlockHash: blockHash, TransactionsRoot: txRoot, WithdrawalsRoot: wdRoot, BlobGasUsed: 131072}
		m := &builderdeneb.BuilderBid{Header: h, BlobKZGCommitments: []deneb.KZGCommitment{}, Value: value, Pubkey: pub}
		sb := &builderdeneb.SignedBuilderBid{Message: m}
		out.Version, out.Deneb = spec.DataVersionDeneb, sb
		setSig = func(s phase0.BLSSignature) { sb.Signature = s }
		if msgRoot, err = m.HashTreeRoot(); err == nil {
			hdrRoot, err = h.HashTreeRoot()
		}
	}
	if err != nil {
		panic(err)
	}
	domain := ch.DomainAt(DomainApplicationBuilder, 0)
	var sig phase0.BLSSignature
	switch b.Sig {
	case "":
		copy(sig[:], c09Sign(c09RelayKey0+relayIdx, c09SigningRoot(msgRoot, domain)))
	case "other":
		copy(sig[:], c09Sign(c09ForeignKey, c09SigningRoot(msgRoot, domain)))
	case "wrongmsg":
		other := msgRoot
		other[0] ^= 1
		copy(sig[:], c09Sign(c09RelayKey0+relayIdx, c09SigningRoot(other, domain)))
	case "wrongdomain":
		copy(sig[:], c09Sign(c09RelayKey0+relayIdx, c09SigningRoot(msgRoot, ch.DomainAt(DomainBeaconProposer, 0))))
	default: // garbage
		for i := range sig {
			sig[i] = 0xff
		}
	}
	setSig(sig)
	return out, msgRoot, hdrRoot
}

// ---------------------------------------------------------------------------
// relay stub

type c09Rec struct {
	relay, round int
	spec         *c09Bid
	bid          *builderspec.VersionedSignedBuilderBid
	msgRoot      [32]byte
	hdrRoot      [32]byte
	sig          phase0.BLSSignature
	startT, endT time.Duration
	returned     bool        // the stub handed a bid to vouch
	slot         phase0.Slot // slot of the auction the bid was served for (0: c09Slot)
}

func (r *c09Rec) slotOf() phase0.Slot {
	if r.slot == 0 {
		return c09Slot
	}
	return r.slot
}

type c09Hist struct{ recs []*c09Rec }

type c09RelayStub struct {
	idx    int
	name   string
	addr   string
	pub    *phase0.BLSPubKey
	pl     *c09Plan
	ch     *Chain
	parent phase0.Hash32
	sc     *Script
	h      *c09Hist
}

func (r *c09RelayStub) Name() string              { return r.name }
func (r *c09RelayStub) Address() string           { return r.addr }
func (r *c09RelayStub) Pubkey() *phase0.BLSPubKey { return r.pub }

func (r *c09RelayStub) BuilderBid(ctx context.Context, _ *builderapi.BuilderBidOpts) (*builderapi.Response[*builderspec.VersionedSignedBuilderBid], error) {
	startT := simrt.Now()
	o, _ := r.sc.Next(r.name, "BuilderBid", nil)
	if err := c09Wait(ctx, o, r.name+"/BuilderBid"); err != nil {
		return nil, err
	}
	if o.Variant < 0 {
		return nil, fmt.Errorf("%s: no more bids: %w", r.name, ErrSimulated)
	}
	b := &r.pl.Relays[r.idx].Rounds[o.Variant]
	switch b.Kind {
	case "nil":
		return &builderapi.Response[*builderspec.VersionedSignedBuilderBid]{Metadata: map[string]any{}}, nil
	case "empty":
		return &builderapi.Response[*builderspec.VersionedSignedBuilderBid]{Data: &builderspec.VersionedSignedBuilderBid{Version: spec.DataVersionCapella}, Metadata: map[string]any{}}, nil
	}
	bid, msgRoot, hdrRoot := c09BuildBid(r.ch, r.parent, r.idx, b)
	rec := &c09Rec{relay: r.idx, round: o.Variant, spec: b, bid: bid, msgRoot: msgRoot, hdrRoot: hdrRoot, startT: startT, endT: simrt.Now(), returned: true}
	rec.sig, _ = bid.Signature()
	simrt.Crit(func() { r.h.recs = append(r.h.recs, rec) })
	return &builderapi.Response[*builderspec.VersionedSignedBuilderBid]{Data: bid, Metadata: map[string]any{}}, nil
}

// c09Wait is the timing part of a simulated relay call (env.Script.Do's
// job), written so that a latency timer and the caller's context deadline are
// never both pending in one uninstrumented select: when the answer is due at
// the very instant of the deadline the stub waits for the deadline alone and
// the schedule tape decides whether the answer or the cancellation wins.
// (With two runtime timers at the same instant the Go runtime picks the
// select case, which is not replayable.)
func c09Wait(ctx context.Context, o Outcome, site string) error {
	lat := o.Latency
	if o.Kind == "hang" {
		lat = ClientTimeout
	}
	if dl, ok := ctx.Deadline(); ok {
		rem := time.Until(dl)
		if lat >= rem {
			<-ctx.Done()
			simrt.Yield(site)
			if lat == rem && ctx.Err() == context.DeadlineExceeded && o.Kind == "" {
				simrt.Probe("answer-due-at-deadline-instant")
				if simrt.Draw(2) == 1 {
					simrt.Probe("answer-wins-at-deadline-instant")
					return nil
				}
			}
			return ctx.Err()
		}
	}
	if err := simrt.Sleep(ctx, lat, site); err != nil {
		return err
	}
	switch o.Kind {
	case "error":
		simrt.Probe("fault:BuilderBid-error")
		return fmt.Errorf("%s: %w", site, ErrSimulated)
	case "hang":
		simrt.Probe("fault:BuilderBid-hang")
		return fmt.Errorf("%s: timeout: %w", site, ErrSimulated)
	}
	if lat > 0 {
		simrt.Probe("fault:latency")
	}
	return nil
}

func (r *c09RelayStub) UnblindProposal(_ context.Context, _ *builderapi.UnblindProposalOpts) (*builderapi.Response[*consensusapi.VersionedSignedProposal], error) {
	return nil, fmt.Errorf("%s: not used in this scenario: %w", r.name, ErrSimulated)
}

func c09RelayName(i int) string { return fmt.Sprintf("relay%d", i) }
func c09RelayAddr(i int) string { return fmt.Sprintf("http://relay%d.sim:18550", i) }

// knownKey is the key index vouch has been given for relay i (-1: none).
func c09KnownKey(rel *c09Relay, i int) int {
	switch rel.Key {
	case "config", "provider", "both":
		return c09RelayKey0 + i
	case "wrongconfig":
		return c09ForeignKey + 1
	}
	return -1
}

type c09Strategy interface {
	BuilderBid(ctx context.Context, slot phase0.Slot, parentHash phase0.Hash32, pubkey phase0.BLSPubKey,
		proposerConfig *beaconblockproposer.ProposerConfig, builderConfigs map[phase0.BLSPubKey]*blockrelay.BuilderConfig,
	) (*blockauctioneer.Results, error)
}

// c09BuilderConfigs renders the builder configurations the way vouch's
// start-up code (main.go obtainBuilderConfigs*) does.
func c09BuilderConfigs(pl *c09Plan) map[phase0.BLSPubKey]*blockrelay.BuilderConfig {
	out := map[phase0.BLSPubKey]*blockrelay.BuilderConfig{}
	for i, b := range pl.Builders {
		pk := PubKey(c09BuilderKey + i)
		switch b.Kind {
		case "excluded":
			out[pk] = &blockrelay.BuilderConfig{Category: "excluded", Factor: big.NewInt(0)}
		case "privileged":
			out[pk] = &blockrelay.BuilderConfig{Category: "privileged", Factor: big.NewInt(1000000000000000000)}
		case "cfg":
			c := &blockrelay.BuilderConfig{Category: b.Category}
			if b.Factor != nil {
				c.Factor = big.NewInt(*b.Factor)
			}
			if b.Offset != nil {
				c.Offset = big.NewInt(*b.Offset)
			}
			out[pk] = c
		}
	}
	return out
}

// ---------------------------------------------------------------------------
// execution

type c09Run struct {
	callT, retT time.Duration
	returned    bool
	res         *blockauctioneer.Results
	err         error
	hist        *c09Hist
	stubs       []*c09RelayStub
	ch          *Chain
	// Set by scenarios whose relays are not the stubs of this file (history.go: real builder clients that talk
	// to simulated relays over HTTP); the zero values mean: slot c09Slot, bids and providers are identified by
	// object identity.
	slot    phase0.Slot
	sameBid func(r *c09Rec, bid *builderspec.VersionedSignedBuilderBid) bool
	relayOf func(p builderclient.BuilderBidProvider) int
}

func (run *c09Run) slotOf() phase0.Slot {
	if run.slot == 0 {
		return c09Slot
	}
	return run.slot
}

func c09Exec(plan any, sched *simrt.Tape) *sim.Outcome {
	pl := plan.(*c09Plan)
	out := &sim.Outcome{Probes: map[string]int{}, Sample: pl}
	InitBLS()
	run := &c09Run{hist: &c09Hist{}, ch: DefaultChain(0)}
	parent := phase0.Hash32(c09Hash("parent", 0))
	proposer := PubKey(1)

	res := sim.Run(sched, 10*time.Minute, 60000, nil, func(ctx context.Context) {
		util.VerifResetBuilderClients()
		cp := &ChainProviders{C: run.ch}
		ct := NewChainTime(ctx, run.ch)
		sc := &Script{Outcomes: map[string][]Outcome{}, Default: Outcome{Kind: "", Variant: -1}}
		pc := &beaconblockproposer.ProposerConfig{}
		pc.FeeRecipient[0] = 1
		for i := range pl.Relays {
			rel := &pl.Relays[i]
			st := &c09RelayStub{idx: i, name: c09RelayName(i), addr: c09RelayAddr(i), pl: pl, ch: run.ch, parent: parent, sc: sc, h: run.hist}
			rc := &beaconblockproposer.RelayConfig{Address: st.addr, GasLimit: 30000000, Grace: rel.Grace, MinValue: decimal.NewFromInt(int64(rel.Min))}
			rc.FeeRecipient[0] = 1
			own := PubKey(c09RelayKey0 + i)
			switch rel.Key {
			case "config":
				rc.PublicKey = &own
			case "provider":
				st.pub = &own
			case "both":
				rc.PublicKey = &own
				st.pub = &own
			case "wrongconfig":
				other := PubKey(c09ForeignKey + 1)
				rc.PublicKey = &other
				st.pub = &own
			}
			for k, b := range rel.Rounds {
				o := Outcome{Latency: b.Lat, Variant: k}
				if b.Kind == "error" || b.Kind == "hang" {
					o.Kind = b.Kind
				}
				sc.Outcomes[st.name+"/BuilderBid"] = append(sc.Outcomes[st.name+"/BuilderBid"], o)
			}
			util.VerifSetBuilderClient(st.addr, st)
			if pl.BadAddress && i == 0 {
				// FetchBuilderClient fails before any I/O: no address; parses as a URL but the builder client
				// refuses it (public key in the user part is not hex / port is not a number); not a URL at all
				rc.Address = []string{"", "https://0xnot-a-public-key@relay8.example.com/", "relay.example.com:8o80", "https://relay seven.example.com/"}[pl.BadKind%4]
			}
			run.stubs = append(run.stubs, st)
			pc.Relays = append(pc.Relays, rc)
		}
		var strat c09Strategy
		var err error
		if pl.Strategy == "best" {
			strat, err = bestbid.New(ctx, bestbid.WithLogLevel(zerolog.Disabled), bestbid.WithMonitor(nullmetrics.New()), bestbid.WithSpecProvider(cp),
				bestbid.WithDomainProvider(cp), bestbid.WithChainTime(ct), bestbid.WithTimeout(pl.Timeout), bestbid.WithReleaseVersion("sim"))
		} else {
			strat, err = deadlinebid.New(ctx, deadlinebid.WithLogLevel(zerolog.Disabled), deadlinebid.WithMonitor(nullmetrics.New()), deadlinebid.WithSpecProvider(cp),
				deadlinebid.WithDomainProvider(cp), deadlinebid.WithChainTime(ct), deadlinebid.WithDeadline(pl.Timeout), deadlinebid.WithBidGap(pl.BidGap), deadlinebid.WithReleaseVersion("sim"))
		}
		if err != nil {
			panic(err)
		}
		bcfg := c09BuilderConfigs(pl)
		simrt.Sleep(ctx, run.ch.SlotStart(c09Slot).Sub(SimEpoch)+pl.CallOff, "c09/until-call")
		for i := 0; i < pl.Earlier; i++ {
			ectx, ecancel := context.WithTimeout(ctx, time.Millisecond)
			_, _ = strat.BuilderBid(ectx, c09Slot, parent, proposer, pc, bcfg)
			ecancel()
		}
		simrt.Go("auction", func() {
			run.callT = simrt.Now()
			r, e := strat.BuilderBid(ctx, c09Slot, parent, proposer, pc, bcfg)
			t := simrt.Now()
			simrt.Crit(func() { run.res, run.err, run.retT, run.returned = r, e, t, true })
		})
		// Relay requests of the best strategy are not cancelled when it returns;
		// let them run out (a hang ends after the client timeout).
		simrt.Sleep(ctx, ClientTimeout+time.Minute, "c09/drain")
	})
	out.Res = res
	if res.Violation != nil {
		out.Violation = res.Violation
		if res.Violation.Kind == "panic" || res.Violation.Kind == "deadlock" || res.Violation.Kind == "horizon" {
			out.Violation.Kind = "C09/" + res.Violation.Kind
		}
		return out
	}
	if len(res.Stranded) > 0 {
		out.Probes["stranded-tasks"] += len(res.Stranded)
	}
	out.Violation = c09Oracle(pl, run, out)
	return out
}

// ---------------------------------------------------------------------------
// oracle

// c09Score is the documented score (docs/configuration.md, builder-configs):
// (value + offset) * factor / 100; offset defaults to 0, factor to 100.
// ambiguous: the documentation does not say how a negative quotient is rounded.
func c09Score(value uint64, b c09Builder) (*big.Int, bool) {
	offset, factor := big.NewInt(0), big.NewInt(100)
	switch b.Kind {
	case "excluded":
		factor = big.NewInt(0)
	case "privileged":
		factor = big.NewInt(1000000000000000000)
	case "cfg":
		if b.Offset != nil {
			offset = big.NewInt(*b.Offset)
		}
		if b.Factor != nil {
			factor = big.NewInt(*b.Factor)
		}
	}
	num := new(big.Int).Add(new(big.Int).SetUint64(value), offset)
	num.Mul(num, factor)
	hundred := big.NewInt(100)
	amb := num.Sign() < 0 && new(big.Int).Rem(num, hundred).Sign() != 0
	return new(big.Int).Quo(num, hundred), amb
}

var c09VerifyCache sync.Map

func c09Verify(key int, root [32]byte, sig phase0.BLSSignature) bool {
	k := fmt.Sprintf("%d/%x/%x", key, root, sig)
	if v, ok := c09VerifyCache.Load(k); ok {
		return v.(bool)
	}
	ok := false
	if s, err := e2types.BLSSignatureFromBytes(sig[:]); err == nil {
		ok = s.Verify(root[:], PrivKey(key).PublicKey())
	}
	c09VerifyCache.Store(k, ok)
	return ok
}

// c09Ineligible returns "" when the bid is eligible by the property statement,
// else the first reason it is not.
func c09Ineligible(pl *c09Plan, ch *Chain, r *c09Rec) (string, *big.Int, bool) {
	rel := &pl.Relays[r.relay]
	score, amb := c09Score(r.spec.Value, pl.Builders[r.spec.Builder])
	// what the relay actually sent, not what the plan intended
	value, _ := r.bid.Value()
	fee, _ := r.bid.FeeRecipient()
	ts, _ := r.bid.Timestamp()
	if value.Cmp(uint256.NewInt(rel.Min)) < 0 {
		return "below-minimum", score, amb
	}
	if fee == (bellatrix.ExecutionAddress{}) {
		return "zero-fee-recipient", score, amb
	}
	if int64(ts) != ch.SlotStart(uint64(r.slotOf())).Unix() {
		return "timestamp", score, amb
	}
	if k := c09KnownKey(rel, r.relay); k >= 0 {
		if !c09Verify(k, c09SigningRoot(r.msgRoot, ch.DomainAt(DomainApplicationBuilder, 0)), r.sig) {
			return "signature", score, amb
		}
	}
	if !amb && score.Sign() == 0 {
		return "zero-score", score, amb
	}
	return "", score, amb
}

// c09Masked: the deadline strategy re-queries every relay and forwards a
// relay's later bid to the auction only when its *value* is strictly above the
// last bid of that relay that passed the relay-level checks
// (deadline/builderbid.go builderBidAttempt: lastBid/bidBetter).  A later bid
// with an equal or lower value but a higher score (different builder
// configuration), or one following a bid of an excluded builder, is therefore
// never scored.  The statement makes no such exception; the deviation is judged
// on its own (fingerprint C09/deadline-later-bid-of-same-relay-ignored) so that
// everything else is still checked.
func c09Masked(pl *c09Plan, ch *Chain, run *c09Run, l *c09Rec) bool {
	for _, e := range run.hist.recs {
		if e == l || e.relay != l.relay || !e.returned || e.endT > l.startT || e.spec.Value == 0 {
			continue
		}
		if why, _, _ := c09Ineligible(pl, ch, e); why != "" && why != "zero-score" {
			continue
		}
		if e.spec.Value >= l.spec.Value {
			return true
		}
	}
	return false
}

func c09Oracle(pl *c09Plan, run *c09Run, out *sim.Outcome) *simrt.Violation {
	var maskedScore *big.Int
	var maskedDetail string
	var winnerScore *big.Int
	if v := c09OracleMain(pl, run, out, func(score *big.Int, detail string) { maskedScore, maskedDetail = score, detail }, func(s *big.Int) { winnerScore = s }); v != nil {
		return v
	}
	if maskedScore != nil && (winnerScore == nil || winnerScore.Cmp(maskedScore) < 0) {
		return Viol("C09/deadline-later-bid-of-same-relay-ignored", "winner score %v, but %s", winnerScore, maskedDetail)
	}
	return nil
}

func c09OracleMain(pl *c09Plan, run *c09Run, out *sim.Outcome, setMasked func(*big.Int, string), setWinner func(*big.Int)) *simrt.Violation {
	ch := run.ch
	if !run.returned {
		return Viol("C09/never-returned", "BuilderBid (%s) had not returned %v after the call", pl.Strategy, ClientTimeout+time.Minute)
	}
	if run.err != nil || run.res == nil {
		return Viol("C09/returned-error", "BuilderBid returned res=%v err=%v", run.res != nil, run.err)
	}
	// returns by the strategy's deadline
	slotStart := ch.SlotStart(uint64(run.slotOf())).Sub(SimEpoch)
	limit := run.callT + pl.Timeout
	if pl.Strategy == "deadline" {
		limit = max(run.callT, slotStart+pl.Timeout)
	}
	if run.retT > limit {
		return Viol("C09/late-return", "%s strategy called at %v returned at %v, after its limit %v", pl.Strategy, run.callT, run.retT, limit)
	}
	if run.retT == limit {
		out.Probes["returned-at-limit"]++
	}

	res := run.res
	type cand struct {
		r     *c09Rec
		score *big.Int
		amb   bool
		must  bool // returned strictly before the strategy returned
	}
	var elig []cand
	var bestMust, masked *cand
	for _, r := range run.hist.recs {
		if !r.returned {
			continue
		}
		if r.endT > run.retT {
			out.Probes["bid-after-return"]++
			continue
		}
		if r.endT == run.retT {
			out.Probes["bid-at-return-instant"]++
		}
		out.Nontrivial = true
		why, score, amb := c09Ineligible(pl, ch, r)
		if why != "" {
			out.Probes["ineligible:"+why]++
			continue
		}
		// A bid must have been taken into account when it arrived strictly before
		// the strategy returned, or at the instant of a return that was not forced
		// by the strategy's own deadline (the statement: "bids that arrived before
		// the strategy's deadline").  At the deadline instant either way is fine.
		before := r.endT < run.retT || (r.endT == run.retT && run.retT < limit)
		c := cand{r: r, score: score, amb: amb, must: before && !amb && r.spec.Value != 0}
		if c.must && pl.Strategy == "deadline" && c09Masked(pl, ch, run, r) {
			// known deviation of the deadline strategy (see c09Masked): judged separately
			c.must = false
			out.Probes["later-bid-not-above-earlier-value"]++
			if masked == nil || score.Cmp(masked.score) > 0 {
				cc := c
				masked = &cc
			}
		}
		if r.spec.Value == uint64(pl.Relays[r.relay].Min) && r.spec.Value != 0 {
			out.Probes["eligible-at-minimum"]++
		}
		elig = append(elig, c)
		if c.must && (bestMust == nil || score.Cmp(bestMust.score) > 0) {
			cc := c
			bestMust = &cc
		}
	}
	if pl.Strategy == "deadline" {
		multi := map[int]int{}
		for _, r := range run.hist.recs {
			if r.returned && r.endT <= run.retT {
				multi[r.relay]++
			}
		}
		for i := range pl.Relays {
			if multi[i] > 1 {
				out.Probes["relay-served-several-rounds"]++
			}
		}
	}

	if masked != nil {
		setMasked(masked.score, fmt.Sprintf("relay%d round %d returned an eligible bid (value %d, builder %d %s, score %v) at %v before the return at %v, after an earlier bid of the same relay with at least that value",
			masked.r.relay, masked.r.round, masked.r.spec.Value, masked.r.spec.Builder, c09B(pl.Builders[masked.r.spec.Builder]), masked.score, masked.r.endT, run.retT))
	}
	win := res.WinningParticipation
	if win == nil || win.Bid == nil {
		out.Probes["no-winner"]++
		if len(res.Providers) != 0 {
			return Viol("C09/providers-without-winner", "no winning bid but %d providers listed", len(res.Providers))
		}
		if bestMust != nil {
			return Viol("C09/no-winner-despite-eligible-bid", "no winner although relay%d round %d returned an eligible bid (value %d, score %v) at %v, before the return at %v",
				bestMust.r.relay, bestMust.r.round, bestMust.r.spec.Value, bestMust.score, bestMust.r.endT, run.retT)
		}
		return nil
	}
	out.Probes["winner"]++
	// which bid is it?
	var wrec *c09Rec
	for _, r := range run.hist.recs {
		if r.bid == win.Bid || (run.sameBid != nil && run.sameBid(r, win.Bid)) {
			wrec = r
		}
	}
	if wrec == nil {
		return Viol("C09/winner-unknown-bid", "the winning bid is not an object any relay returned")
	}
	if wrec.endT > run.retT {
		return Viol("C09/winner-not-yet-returned", "winning bid of relay%d was returned at %v, after the strategy returned at %v", wrec.relay, wrec.endT, run.retT)
	}
	why, wscore, wamb := c09Ineligible(pl, ch, wrec)
	if why != "" {
		return Viol("C09/winner-"+why, "winner relay%d round %d (value %d, builder %d %+v, min %d, ts_off %d, fee_zero %v, sig %q, key %s) is not eligible: %s",
			wrec.relay, wrec.round, wrec.spec.Value, wrec.spec.Builder, c09B(pl.Builders[wrec.spec.Builder]), pl.Relays[wrec.relay].Min, wrec.spec.TsOff, wrec.spec.FeeZero, wrec.spec.Sig, pl.Relays[wrec.relay].Key, why)
	}
	if !wamb && (win.Score == nil || win.Score.Cmp(wscore) != 0) {
		return Viol("C09/winner-score-mismatch", "winner relay%d (value %d, builder %+v): reported score %v, documented (value+offset)*factor/100 = %v",
			wrec.relay, wrec.spec.Value, c09B(pl.Builders[wrec.spec.Builder]), win.Score, wscore)
	}
	if !wamb {
		setWinner(wscore)
	} else {
		setMasked(nil, "")
	}
	if bestMust != nil && !wamb && wscore.Cmp(bestMust.score) < 0 {
		return Viol("C09/better-bid-lost", "winner relay%d round %d (value %d, score %v, returned %v) but relay%d round %d returned an eligible bid with score %v (value %d, builder %+v) at %v, before the return at %v",
			wrec.relay, wrec.round, wrec.spec.Value, wscore, wrec.endT, bestMust.r.relay, bestMust.r.round, bestMust.score, bestMust.r.spec.Value, c09B(pl.Builders[bestMust.r.spec.Builder]), bestMust.r.endT, run.retT)
	}
	if bestMust != nil {
		// was the documented score needed to pick the winner?
		for _, c := range elig {
			if c.must && c.r.spec.Value > wrec.spec.Value {
				out.Probes["winner-has-lower-value-than-a-loser"]++
				break
			}
		}
	}
	if len(elig) > 1 {
		out.Probes["several-eligible"]++
	}
	// providers
	winnerListed := false
	for _, p := range res.Providers {
		idx := -1
		for i, st := range run.stubs {
			if p == st {
				idx = i
			}
		}
		if run.relayOf != nil {
			idx = run.relayOf(p)
		}
		if idx < 0 {
			return Viol("C09/unknown-provider", "provider %s is not a configured relay", p.Address())
		}
		if idx == wrec.relay {
			winnerListed = true
		}
		offered := false
		for _, r := range run.hist.recs {
			if r.relay == idx && r.returned && r.endT <= run.retT && r.hdrRoot == wrec.hdrRoot {
				offered = true
			}
		}
		if !offered {
			return Viol("C09/provider-without-winning-header", "relay%d is listed for unblinding but never offered the winning header (winner relay%d round %d header %d)", idx, wrec.relay, wrec.round, wrec.spec.Header)
		}
	}
	if !winnerListed {
		return Viol("C09/winner-relay-not-provider", "winner's relay%d is not among the %d providers", wrec.relay, len(res.Providers))
	}
	if len(res.Providers) > 1 {
		out.Probes["several-providers"]++
	}
	return nil
}

func c09B(b c09Builder) string {
	s := b.Kind
	if s == "" {
		return "default"
	}
	if b.Offset != nil {
		s += fmt.Sprintf(" offset=%d", *b.Offset)
	}
	if b.Factor != nil {
		s += fmt.Sprintf(" factor=%d", *b.Factor)
	}
	return s
}

func init() {
	for _, st := range []string{"best", "deadline"} {
		sim.Register(&sim.Scenario{Property: "C09PROBE", Name: "unobtainable-client-" + st, Exec: c09Exec, Gen: func(p *simrt.Tape) any {
			pl := c09GenFor(p, &c09Plan{Strategy: st}).(*c09Plan)
			pl.BadAddress = true
			pl.BadKind = p.Pick(4)
			pl.Earlier = p.Pick(3)
			return pl
		}})
	}
	sim.Register(&sim.Scenario{Property: "C09", Name: "best", Gen: c09Gen, Exec: c09Exec})
	sim.Register(&sim.Scenario{Property: "C09", Name: "deadline", Gen: c09GenDeadline, Exec: c09Exec})
}
