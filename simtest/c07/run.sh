#!/bin/bash
# usage: simtest/c07/run.sh RUNS [scenario...]   — runs each C07 scenario with the local KNOWN list and prints
# counters plus every violation (runw.sh's printer trips over violations whose shrunk tape is empty).
export GOFLAGS=-mod=mod GOPROXY=off GOSUMDB=off GOTOOLCHAIN=local PATH=/opt/veriftools/go1.26.8/bin:$PATH
cd /verif || exit 2
go test -c -overlay build/overlay/overlay.json -o build/sim-c07.test ./simtest/c07 || exit 2
RUNS=${1:-2000}; shift
SCEN="$@"
[ -z "$SCEN" ] && SCEN="attestationdata-best attestationdata-majority attestationdata-first aggregateattestation-best aggregateattestation-first synccommitteecontribution-best synccommitteecontribution-first beaconblockproposal-best beaconblockproposal-first beaconblockroot-first beaconblockroot-latest beaconblockroot-majority beaconblockheader-first signedbeaconblock-first"
mkdir -p build/dbg/c07
for s in $SCEN; do
  rm -f build/dbg/c07/*"$s"*
  VERIF_PROP=C07 VERIF_COUNT=$RUNS VERIF_SCENARIO=$s VERIF_REPLAY_DIR=/verif/build/dbg/c07 VERIF_KNOWN=/verif/simtest/c07/KNOWN VERIF_OUT=/tmp/c07-$s.json ./build/sim-c07.test -test.run '^TestWorker$' -test.timeout 0 >/tmp/c07-$s.log 2>&1 || { tail -20 /tmp/c07-$s.log; continue; }
  python3 - /tmp/c07-$s.json $s <<'PY'
import json,sys
d=json.load(open(sys.argv[1]))
known=[l.split()[2].split('=',1)[1] for l in open('/verif/simtest/c07/KNOWN') if l.startswith('known: ')]
v=d.get('violations') or []
pr=d['probes']
print("== %-32s runs %d nontrivial %d wall %.1fs (%.0f/s) harness_error %s" % (sys.argv[2], d['runs'], d['nontrivial'], d['wall_s'], d['runs']/max(d['wall_s'],1e-9), d.get('harness_error')))
if '-v' in sys.argv or True:
    print("   probes:", json.dumps(pr, sort_keys=True))
    if d.get('stranded'): print("   stranded:", json.dumps(d['stranded'], sort_keys=True))
for x in v:
    tag = "KNOWN" if x['fingerprint'] in known else "VIOL "
    print("  ", tag, x['fingerprint'], "|", x['detail'][:500])
    if tag=="VIOL ": print("      plan:", json.dumps(x.get('plan'))[:1800])
PY
done
