package c07

// knownKinds lists (space separated) the fingerprints of defects of the
// unchanged tree that have been triaged (same list as in ./KNOWN).  They are
// reported only when a run shows nothing else.
const knownKinds = `
C07/attestationdata-majority/majority-gave-up-early
C07/attestationdata-first/invalid-returned
C07/aggregateattestation-first/invalid-returned
C07/synccommitteecontribution-first/invalid-returned
C07/beaconblockproposal-first/invalid-returned
C07/beaconblockroot-first/invalid-returned
C07/beaconblockheader-first/invalid-returned
C07/signedbeaconblock-first/invalid-returned
`
