package c07

// knownKinds lists (space separated) fingerprints that are reported only when a
// run shows nothing else.  Empty: the defects found while building this check
// (majority threshold, nil data in the first strategies) are fixed in /repo.
const knownKinds = ``
