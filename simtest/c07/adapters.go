package c07

import (
	"context"
	"errors"
	"fmt"
	"math/big"
	"net/http"

	eth2client "github.com/attestantio/go-eth2-client"
	"github.com/attestantio/go-eth2-client/api"
	apiv1 "github.com/attestantio/go-eth2-client/api/v1"
	"github.com/attestantio/go-eth2-client/spec"
	"github.com/attestantio/go-eth2-client/spec/altair"
	"github.com/attestantio/go-eth2-client/spec/bellatrix"
	"github.com/attestantio/go-eth2-client/spec/phase0"
	nullmetrics "github.com/attestantio/vouch/services/metrics/null"
	aabest "github.com/attestantio/vouch/strategies/aggregateattestation/best"
	aafirst "github.com/attestantio/vouch/strategies/aggregateattestation/first"
	adbest "github.com/attestantio/vouch/strategies/attestationdata/best"
	adfirst "github.com/attestantio/vouch/strategies/attestationdata/first"
	admajority "github.com/attestantio/vouch/strategies/attestationdata/majority"
	bhfirst "github.com/attestantio/vouch/strategies/beaconblockheader/first"
	bpbest "github.com/attestantio/vouch/strategies/beaconblockproposal/best"
	bpfirst "github.com/attestantio/vouch/strategies/beaconblockproposal/first"
	brfirst "github.com/attestantio/vouch/strategies/beaconblockroot/first"
	brlatest "github.com/attestantio/vouch/strategies/beaconblockroot/latest"
	brmajority "github.com/attestantio/vouch/strategies/beaconblockroot/majority"
	sbfirst "github.com/attestantio/vouch/strategies/signedbeaconblock/first"
	scbest "github.com/attestantio/vouch/strategies/synccommitteecontribution/best"
	scfirst "github.com/attestantio/vouch/strategies/synccommitteecontribution/first"
	"github.com/rs/zerolog"

	"verif/simrt"
	"verif/simtest/env"
)

// adapter is what differs between strategies.
type adapter struct {
	name      string
	kind      string   // best | first | majority | latest
	invalid   []string // content classes the statement's validity rules reject for this strategy
	threshold bool     // takes a majority threshold
	maxQ      int      // qualities / variants 0..maxQ
	dims      int      // number of alternative quality dimensions (one is chosen per call)
	// mk builds the Data a provider returns.  For majority strategies it must
	// not depend on c.Prov (equal variants are equal values).
	mk func(h *harness, c content) any
	// build constructs the real strategy over the stubs and returns "call it once".
	build func(ctx context.Context, h *harness) (func(ctx context.Context) (any, error), error)
}

type callFn = func(ctx context.Context) (any, error)

var adapters = []*adapter{
	{name: "attestationdata-best", kind: "best", invalid: []string{"nildata", "niltarget", "badepoch", "otherepoch"}, maxQ: 4, dims: 3, mk: mkAttData, build: buildADBest},
	{name: "attestationdata-majority", kind: "majority", threshold: true, invalid: []string{"nildata", "niltarget", "badepoch", "otherepoch"}, maxQ: 2, dims: 2, mk: mkAttData, build: buildADMajority},
	{name: "attestationdata-first", kind: "first", invalid: []string{"nildata"}, maxQ: 4, dims: 2, mk: mkAttData, build: buildADFirst},
	{name: "aggregateattestation-best", kind: "best", invalid: []string{"nildata"}, maxQ: 5, dims: 1, mk: mkAggregate, build: buildAABest},
	{name: "aggregateattestation-first", kind: "first", invalid: []string{"nildata"}, maxQ: 5, dims: 1, mk: mkAggregate, build: buildAAFirst},
	{name: "synccommitteecontribution-best", kind: "best", invalid: []string{"nildata"}, maxQ: 5, dims: 1, mk: mkContribution, build: buildSCBest},
	{name: "synccommitteecontribution-first", kind: "first", invalid: []string{"nildata"}, maxQ: 5, dims: 1, mk: mkContribution, build: buildSCFirst},
	// nil Data crashes beaconblockproposal/best (C16 candidate), so "missing data" is a missing payload there.
	{name: "beaconblockproposal-best", kind: "best", invalid: []string{"zerofee", "nopayload"}, maxQ: 4, dims: 3, mk: mkProposal, build: buildBPBest},
	{name: "beaconblockproposal-first", kind: "first", invalid: []string{"nildata"}, maxQ: 4, dims: 3, mk: mkProposal, build: buildBPFirst},
	{name: "beaconblockroot-first", kind: "first", invalid: []string{"nildata"}, maxQ: 4, dims: 1, mk: mkRoot, build: buildBRFirst},
	// nil Data crashes beaconblockroot/latest and /majority (C16 candidates): not generated.
	{name: "beaconblockroot-latest", kind: "latest", maxQ: 4, dims: 1, mk: mkRoot, build: buildBRLatest},
	{name: "beaconblockroot-majority", kind: "majority", maxQ: 2, dims: 1, mk: mkRoot, build: buildBRMajority},
	{name: "beaconblockheader-first", kind: "first", invalid: []string{"nildata"}, maxQ: 4, dims: 1, mk: mkHeader, build: buildBHFirst},
	{name: "signedbeaconblock-first", kind: "first", invalid: []string{"nildata"}, maxQ: 4, dims: 1, mk: mkSignedBlock, build: buildSBFirst},
}

// ---------------------------------------------------------------------------
// content

var classIdx = map[string]byte{"valid": 0, "nildata": 1, "niltarget": 2, "badepoch": 3, "zerofee": 4, "nopayload": 5, "nilattdata": 6, "nilvalue": 7}

// marker makes every response attributable: strategy call, provider (0xff
// when the value must be the same whoever reports it), class, quality, dimension.
func marker(h *harness, tag byte, c content) []byte {
	prov := byte(c.Prov)
	if h.ad.kind == "majority" {
		prov = 0xff
	}
	return []byte{tag, byte(c.Call), prov, classIdx[c.Class], byte(c.Q), byte(c.Dim), 0x07}
}

func headRoot(slot uint64) phase0.Root { return phase0.Root{0xbb, byte(slot), 0x01} }

func validAttData(h *harness) *phase0.AttestationData {
	e := phase0.Epoch(h.chain.EpochOf(h.slot))
	return &phase0.AttestationData{
		Slot:            phase0.Slot(h.slot),
		Index:           3,
		BeaconBlockRoot: headRoot(h.slot - 1),
		Source:          &phase0.Checkpoint{Epoch: e - 1, Root: phase0.Root{0x5c}},
		Target:          &phase0.Checkpoint{Epoch: e, Root: phase0.Root{0x7a}},
	}
}

func mkAttData(h *harness, c content) any {
	if c.Class == "nildata" {
		return (*phase0.AttestationData)(nil)
	}
	e := phase0.Epoch(h.chain.EpochOf(h.slot))
	d := validAttData(h)
	copy(d.Target.Root[:], marker(h, 0xa0, c))
	switch {
	case h.ad.kind == "majority":
		if c.Dim == 1 {
			// the variants agree on the head and differ in the justified checkpoint (and the target root)
			d.BeaconBlockRoot = headRoot(h.slot - 1)
			d.Source.Epoch = e - 6 + phase0.Epoch(c.Q)
		} else {
			// the variants are different views of the head
			d.BeaconBlockRoot = headRoot(h.slot - 1 - uint64(c.Q))
		}
	case c.Dim == 0:
		// higher justified checkpoint, everything else equal
		d.Source.Epoch = e - 6 + phase0.Epoch(c.Q)
	case c.Dim == 2:
		// a chain whose last slots of the previous epoch and first slots of this one are empty: the lowest variant's
		// head is the target checkpoint block itself (head root = target root), which sits two slots BEFORE the
		// epoch's first slot; the higher variants have seen later blocks (all known to the cache)
		first := h.chain.EpochOf(h.slot) * h.chain.SlotsPerEpoch
		d.BeaconBlockRoot = headRoot(first - 2 + uint64(c.Q))
		if c.Q == 0 {
			d.Target.Root = d.BeaconBlockRoot
		}
	default:
		// more recent head block (all known to the cache), everything else equal
		d.BeaconBlockRoot = headRoot(h.slot - 5 + uint64(c.Q))
	}
	switch c.Class {
	case "badepoch":
		// tempting: scores above every valid response
		d.Source.Epoch = e + 5
		d.Target.Epoch = e + 1
		if c.Q%2 == 1 {
			d.Target.Epoch = e - 1
		}
	case "niltarget":
		copy(d.Source.Root[:], marker(h, 0xa0, c))
		d.Target = nil
	case "otherepoch":
		// a node an epoch ahead or behind: self-consistent data, but for a slot of another epoch
		// (the one ahead scores above every valid response)
		spe := h.chain.SlotsPerEpoch
		if c.Q%2 == 1 && uint64(d.Slot) >= spe {
			d.Slot -= phase0.Slot(spe)
			d.Target.Epoch = e - 1
			d.Source.Epoch = e - 2
		} else {
			d.Slot += phase0.Slot(spe)
			d.Target.Epoch = e + 1
			d.Source.Epoch = e
		}
	}
	return d
}

func mkAggregate(h *harness, c content) any {
	if c.Class == "nildata" {
		return (*phase0.Attestation)(nil)
	}
	// 16-bit bitlist; quality q sets q bits, each quality's set contains the lower ones
	bits := []byte{0, 0, 1}
	for k := 0; k < c.Q; k++ {
		p := (k*5 + c.Call*3) % 16
		bits[p/8] |= 1 << (p % 8)
	}
	a := &phase0.Attestation{AggregationBits: bits, Data: validAttData(h)}
	copy(a.Signature[:], marker(h, 0xa1, c))
	if c.Class == "nilattdata" { // only with C07_CRASHERS
		a.Data = nil
	}
	return a
}

func mkContribution(h *harness, c content) any {
	if c.Class == "nildata" {
		return (*altair.SyncCommitteeContribution)(nil)
	}
	bits := make([]byte, 16)
	for k := 0; k < c.Q; k++ {
		p := (k*37 + c.Call*11) % 128
		bits[p/8] |= 1 << (p % 8)
	}
	s := &altair.SyncCommitteeContribution{Slot: phase0.Slot(h.slot), BeaconBlockRoot: headRoot(h.slot - 1), SubcommitteeIndex: 1, AggregationBits: bits}
	copy(s.Signature[:], marker(h, 0xa2, c))
	return s
}

func mkProposal(h *harness, c content) any {
	if c.Class == "nildata" {
		return (*api.VersionedProposal)(nil)
	}
	body := &bellatrix.BeaconBlockBody{
		ETH1Data:         &phase0.ETH1Data{BlockHash: make([]byte, 32)},
		SyncAggregate:    &altair.SyncAggregate{SyncCommitteeBits: make([]byte, 64)},
		ExecutionPayload: &bellatrix.ExecutionPayload{FeeRecipient: bellatrix.ExecutionAddress{0xfe, 0xe0, 1}},
	}
	copy(body.Graffiti[:], marker(h, 0xa3, c))
	p := &api.VersionedProposal{
		Version:        spec.DataVersionBellatrix,
		ConsensusValue: big.NewInt(40_000_000),
		ExecutionValue: big.NewInt(90_000_000),
		Bellatrix:      &bellatrix.BeaconBlock{Slot: phase0.Slot(h.slot), ProposerIndex: 5, ParentRoot: headRoot(h.slot - 1), Body: body},
	}
	// one of the two rewards is higher, everything else equal
	switch c.Dim {
	case 0:
		p.ConsensusValue = big.NewInt(40_000_000 + int64(c.Q)*1_000_000)
	case 1:
		p.ExecutionValue = big.NewInt(90_000_000 + int64(c.Q)*1_000_000)
	default:
		// tiny values, down to a proposal worth nothing at all (still a valid proposal)
		p.ConsensusValue = big.NewInt(int64(c.Q))
		p.ExecutionValue = big.NewInt(0)
	}
	switch c.Class {
	case "zerofee":
		body.ExecutionPayload.FeeRecipient = bellatrix.ExecutionAddress{}
		p.ExecutionValue = big.NewInt(900_000_000) // tempting
	case "nopayload":
		body.ExecutionPayload = nil
		p.ExecutionValue = big.NewInt(900_000_000)
	case "nilvalue": // only with C07_CRASHERS
		p.ConsensusValue = nil
	}
	return p
}

func mkRoot(h *harness, c content) any {
	if c.Class == "nildata" {
		return (*phase0.Root)(nil)
	}
	r := &phase0.Root{}
	copy(r[:], marker(h, 0xb0, c))
	return r
}

func mkHeader(h *harness, c content) any {
	if c.Class == "nildata" {
		return (*apiv1.BeaconBlockHeader)(nil)
	}
	hd := &apiv1.BeaconBlockHeader{Canonical: true, Header: &phase0.SignedBeaconBlockHeader{
		Message: &phase0.BeaconBlockHeader{Slot: phase0.Slot(h.slot - 1), ProposerIndex: 5, ParentRoot: headRoot(h.slot - 2)},
	}}
	copy(hd.Root[:], marker(h, 0xb1, c))
	return hd
}

func mkSignedBlock(h *harness, c content) any {
	if c.Class == "nildata" {
		return (*spec.VersionedSignedBeaconBlock)(nil)
	}
	b := &phase0.SignedBeaconBlock{Message: &phase0.BeaconBlock{Slot: phase0.Slot(h.slot - 1), ProposerIndex: 5, ParentRoot: headRoot(h.slot - 2),
		Body: &phase0.BeaconBlockBody{ETH1Data: &phase0.ETH1Data{BlockHash: make([]byte, 32)}}}}
	copy(b.Signature[:], marker(h, 0xb2, c))
	return &spec.VersionedSignedBeaconBlock{Version: spec.DataVersionPhase0, Phase0: b}
}

// keyOf renders the identity of a Data value, as returned by a stub or by a strategy.
func keyOf(v any) string {
	cp := func(c *phase0.Checkpoint) string {
		if c == nil {
			return "nil"
		}
		return fmt.Sprintf("%d:%x", c.Epoch, c.Root[:7])
	}
	switch d := v.(type) {
	case nil:
		return "nil"
	case *phase0.AttestationData:
		if d == nil {
			return "nil"
		}
		return fmt.Sprintf("attdata{slot %d idx %d head %x src %s tgt %s}", d.Slot, d.Index, d.BeaconBlockRoot[:3], cp(d.Source), cp(d.Target))
	case *phase0.Attestation:
		if d == nil {
			return "nil"
		}
		return fmt.Sprintf("aggregate{bits %x sig %x}", []byte(d.AggregationBits), d.Signature[:7])
	case *altair.SyncCommitteeContribution:
		if d == nil {
			return "nil"
		}
		return fmt.Sprintf("contribution{bits %x sig %x}", []byte(d.AggregationBits), d.Signature[:7])
	case *api.VersionedProposal:
		if d == nil {
			return "nil"
		}
		if d.Bellatrix == nil || d.Bellatrix.Body == nil {
			return fmt.Sprintf("proposal{%v empty}", d.Version)
		}
		fee := "nopayload"
		if d.Bellatrix.Body.ExecutionPayload != nil {
			fee = fmt.Sprintf("%x", d.Bellatrix.Body.ExecutionPayload.FeeRecipient[:3])
		}
		return fmt.Sprintf("proposal{graffiti %x cv %v ev %v fee %s}", d.Bellatrix.Body.Graffiti[:7], d.ConsensusValue, d.ExecutionValue, fee)
	case *phase0.Root:
		if d == nil {
			return "nil"
		}
		return fmt.Sprintf("root{%x}", d[:7])
	case *apiv1.BeaconBlockHeader:
		if d == nil {
			return "nil"
		}
		return fmt.Sprintf("header{%x}", d.Root[:7])
	case *spec.VersionedSignedBeaconBlock:
		if d == nil {
			return "nil"
		}
		if d.Phase0 == nil {
			return "block{empty}"
		}
		return fmt.Sprintf("block{%x}", d.Phase0.Signature[:7])
	}
	return fmt.Sprintf("unknown %T", v)
}

// ---------------------------------------------------------------------------
// stubs

// cacheStub is the block-root-to-slot cache: a fixed map (the real cache is C18's).
type cacheStub struct {
	m map[phase0.Root]phase0.Slot
}

func newCacheStub(h *harness) *cacheStub {
	c := &cacheStub{m: map[phase0.Root]phase0.Slot{}}
	for s := h.slot - 8; s <= h.slot; s++ {
		c.m[headRoot(s)] = phase0.Slot(s)
	}
	if first := h.chain.EpochOf(h.slot) * h.chain.SlotsPerEpoch; first >= 2 {
		for s := first - 2; s <= first+4; s++ {
			c.m[headRoot(s)] = phase0.Slot(s)
		}
	}
	// beacon block roots handed out by mkRoot: higher quality = later slot; quality 0 is unknown to the cache
	for call := 0; call < 2; call++ {
		for prov := 0; prov < 5; prov++ {
			for q := 1; q <= 4; q++ {
				r := mkRoot(h, content{Call: call, Prov: prov, Class: "valid", Q: q}).(*phase0.Root)
				c.m[*r] = phase0.Slot(h.slot - 5 + uint64(q))
			}
		}
	}
	return c
}

func (c *cacheStub) BlockRootToSlot(ctx context.Context, root phase0.Root) (phase0.Slot, error) {
	simrt.Yield("c07/cache")
	// no block event was seen for any of these roots: each lookup is a request to a node, which ends with its context
	if err := ctx.Err(); err != nil {
		simrt.Probe("cache-lookup-with-ended-context")
		return 0, err
	}
	if s, ok := c.m[root]; ok {
		return s, nil
	}
	return 0, errors.New("root not known")
}

// stub is beacon node i.
type stub struct {
	h *harness
	i int
}

func resp[T any](obj any) *api.Response[T] {
	return &api.Response[T]{Data: obj.(T), Metadata: map[string]any{}}
}

func (s *stub) AttestationData(ctx context.Context, _ *api.AttestationDataOpts) (*api.Response[*phase0.AttestationData], error) {
	obj, _, err := s.h.serve(ctx, s.i, "AttestationData")
	if err != nil {
		return nil, err
	}
	return resp[*phase0.AttestationData](obj), nil
}

func (s *stub) AggregateAttestation(ctx context.Context, _ *api.AggregateAttestationOpts) (*api.Response[*phase0.Attestation], error) {
	obj, _, err := s.h.serve(ctx, s.i, "AggregateAttestation")
	if err != nil {
		return nil, err
	}
	return resp[*phase0.Attestation](obj), nil
}

func (s *stub) SyncCommitteeContribution(ctx context.Context, _ *api.SyncCommitteeContributionOpts) (*api.Response[*altair.SyncCommitteeContribution], error) {
	obj, _, err := s.h.serve(ctx, s.i, "SyncCommitteeContribution")
	if err != nil {
		return nil, err
	}
	return resp[*altair.SyncCommitteeContribution](obj), nil
}

func (s *stub) Proposal(ctx context.Context, _ *api.ProposalOpts) (*api.Response[*api.VersionedProposal], error) {
	obj, _, err := s.h.serve(ctx, s.i, "Proposal")
	if err != nil {
		return nil, err
	}
	return resp[*api.VersionedProposal](obj), nil
}

func (s *stub) BeaconBlockRoot(ctx context.Context, _ *api.BeaconBlockRootOpts) (*api.Response[*phase0.Root], error) {
	obj, _, err := s.h.serve(ctx, s.i, "BeaconBlockRoot")
	if err != nil {
		return nil, err
	}
	return resp[*phase0.Root](obj), nil
}

// nodeError turns an injected failure into what a node says: a plain failure,
// "not found" or "unavailable" (the header and block strategies tell these apart).
func nodeError(pp provPlan, err error) error {
	if !errors.Is(err, env.ErrSimulated) {
		return err
	}
	switch pp.Q % 3 {
	case 1:
		return &api.Error{Method: http.MethodGet, StatusCode: http.StatusNotFound}
	case 2:
		return &api.Error{Method: http.MethodGet, StatusCode: http.StatusServiceUnavailable}
	}
	return err
}

func (s *stub) BeaconBlockHeader(ctx context.Context, _ *api.BeaconBlockHeaderOpts) (*api.Response[*apiv1.BeaconBlockHeader], error) {
	obj, pp, err := s.h.serve(ctx, s.i, "BeaconBlockHeader")
	if err != nil {
		return nil, nodeError(pp, err)
	}
	return resp[*apiv1.BeaconBlockHeader](obj), nil
}

func (s *stub) SignedBeaconBlock(ctx context.Context, _ *api.SignedBeaconBlockOpts) (*api.Response[*spec.VersionedSignedBeaconBlock], error) {
	obj, pp, err := s.h.serve(ctx, s.i, "SignedBeaconBlock")
	if err != nil {
		return nil, nodeError(pp, err)
	}
	return resp[*spec.VersionedSignedBeaconBlock](obj), nil
}

// quiet is what the proposal strategy wants besides its providers: an events
// source that never delivers and a block source that is never asked.
type quiet struct{}

func (quiet) Events(context.Context, []string, eth2client.EventHandlerFunc) error { return nil }
func (quiet) SignedBeaconBlock(context.Context, *api.SignedBeaconBlockOpts) (*api.Response[*spec.VersionedSignedBeaconBlock], error) {
	return nil, errors.New("not available")
}

func providers[T any](h *harness) map[string]T {
	m := map[string]T{}
	for i := 0; i < h.pl.N; i++ {
		m[fmt.Sprintf("bn%d", i)] = any(&stub{h: h, i: i}).(T)
	}
	return m
}

// data unwraps a strategy's response.
func data[T any](r *api.Response[T], err error) (any, error) {
	if err != nil {
		return nil, err
	}
	if r == nil {
		return nil, nil
	}
	return r.Data, nil
}

// ---------------------------------------------------------------------------
// constructors

func buildADBest(ctx context.Context, h *harness) (callFn, error) {
	s, err := adbest.New(ctx,
		adbest.WithLogLevel(zerolog.Disabled), adbest.WithClientMonitor(nullmetrics.New()), adbest.WithProcessConcurrency(4),
		adbest.WithTimeout(h.pl.Timeout), adbest.WithChainTime(env.NewChainTime(ctx, h.chain)), adbest.WithBlockRootToSlotCache(h.cache),
		adbest.WithAttestationDataProviders(providers[eth2client.AttestationDataProvider](h)))
	if err != nil {
		return nil, err
	}
	return func(ctx context.Context) (any, error) {
		return data(s.AttestationData(ctx, &api.AttestationDataOpts{Slot: phase0.Slot(h.slot), CommitteeIndex: 3}))
	}, nil
}

func buildADMajority(ctx context.Context, h *harness) (callFn, error) {
	s, err := admajority.New(ctx,
		admajority.WithLogLevel(zerolog.Disabled), admajority.WithClientMonitor(nullmetrics.New()), admajority.WithProcessConcurrency(4),
		admajority.WithTimeout(h.pl.Timeout), admajority.WithChainTime(env.NewChainTime(ctx, h.chain)), admajority.WithBlockRootToSlotCache(h.cache),
		admajority.WithThreshold(h.pl.Threshold),
		admajority.WithAttestationDataProviders(providers[eth2client.AttestationDataProvider](h)))
	if err != nil {
		return nil, err
	}
	return func(ctx context.Context) (any, error) {
		return data(s.AttestationData(ctx, &api.AttestationDataOpts{Slot: phase0.Slot(h.slot), CommitteeIndex: 3}))
	}, nil
}

func buildADFirst(ctx context.Context, h *harness) (callFn, error) {
	s, err := adfirst.New(ctx,
		adfirst.WithLogLevel(zerolog.Disabled), adfirst.WithClientMonitor(nullmetrics.New()), adfirst.WithTimeout(h.pl.Timeout),
		adfirst.WithAttestationDataProviders(providers[eth2client.AttestationDataProvider](h)))
	if err != nil {
		return nil, err
	}
	return func(ctx context.Context) (any, error) {
		return data(s.AttestationData(ctx, &api.AttestationDataOpts{Slot: phase0.Slot(h.slot), CommitteeIndex: 3}))
	}, nil
}

func buildAABest(ctx context.Context, h *harness) (callFn, error) {
	s, err := aabest.New(ctx,
		aabest.WithLogLevel(zerolog.Disabled), aabest.WithClientMonitor(nullmetrics.New()), aabest.WithProcessConcurrency(4),
		aabest.WithTimeout(h.pl.Timeout), aabest.WithAggregateAttestationProviders(providers[eth2client.AggregateAttestationProvider](h)))
	if err != nil {
		return nil, err
	}
	return func(ctx context.Context) (any, error) {
		return data(s.AggregateAttestation(ctx, &api.AggregateAttestationOpts{Slot: phase0.Slot(h.slot), AttestationDataRoot: phase0.Root{0xad}}))
	}, nil
}

func buildAAFirst(ctx context.Context, h *harness) (callFn, error) {
	s, err := aafirst.New(ctx,
		aafirst.WithLogLevel(zerolog.Disabled), aafirst.WithClientMonitor(nullmetrics.New()), aafirst.WithTimeout(h.pl.Timeout),
		aafirst.WithAggregateAttestationProviders(providers[eth2client.AggregateAttestationProvider](h)))
	if err != nil {
		return nil, err
	}
	return func(ctx context.Context) (any, error) {
		return data(s.AggregateAttestation(ctx, &api.AggregateAttestationOpts{Slot: phase0.Slot(h.slot), AttestationDataRoot: phase0.Root{0xad}}))
	}, nil
}

func contributionOpts(h *harness) *api.SyncCommitteeContributionOpts {
	return &api.SyncCommitteeContributionOpts{Slot: phase0.Slot(h.slot), SubcommitteeIndex: 1, BeaconBlockRoot: headRoot(h.slot - 1)}
}

func buildSCBest(ctx context.Context, h *harness) (callFn, error) {
	s, err := scbest.New(ctx,
		scbest.WithLogLevel(zerolog.Disabled), scbest.WithClientMonitor(nullmetrics.New()), scbest.WithProcessConcurrency(4),
		scbest.WithTimeout(h.pl.Timeout), scbest.WithSyncCommitteeContributionProviders(providers[eth2client.SyncCommitteeContributionProvider](h)))
	if err != nil {
		return nil, err
	}
	return func(ctx context.Context) (any, error) {
		return data(s.SyncCommitteeContribution(ctx, contributionOpts(h)))
	}, nil
}

func buildSCFirst(ctx context.Context, h *harness) (callFn, error) {
	s, err := scfirst.New(ctx,
		scfirst.WithLogLevel(zerolog.Disabled), scfirst.WithClientMonitor(nullmetrics.New()), scfirst.WithTimeout(h.pl.Timeout),
		scfirst.WithSyncCommitteeContributionProviders(providers[eth2client.SyncCommitteeContributionProvider](h)))
	if err != nil {
		return nil, err
	}
	return func(ctx context.Context) (any, error) {
		return data(s.SyncCommitteeContribution(ctx, contributionOpts(h)))
	}, nil
}

func proposalOpts(h *harness) *api.ProposalOpts {
	var g [32]byte
	copy(g[:], h.pl.Graffiti)
	return &api.ProposalOpts{Slot: phase0.Slot(h.slot), RandaoReveal: phase0.BLSSignature{0xc0}, Graffiti: g}
}

// NodeClient implements eth2client.NodeClientProvider: the client name the {{CLIENT}} graffiti template expands to.
func (s *stub) NodeClient(_ context.Context) (*api.Response[string], error) {
	simrt.Yield(fmt.Sprintf("bn%d/NodeClient", s.i))
	return &api.Response[string]{Data: clientNames[s.i%len(clientNames)], Metadata: map[string]any{}}, nil
}

func buildBPBest(ctx context.Context, h *harness) (callFn, error) {
	s, err := bpbest.New(ctx,
		bpbest.WithLogLevel(zerolog.Disabled), bpbest.WithClientMonitor(nullmetrics.New()), bpbest.WithProcessConcurrency(4),
		bpbest.WithTimeout(h.pl.Timeout), bpbest.WithChainTimeService(env.NewChainTime(ctx, h.chain)), bpbest.WithBlockRootToSlotCache(h.cache),
		bpbest.WithSpecProvider(&env.ChainProviders{C: h.chain}), bpbest.WithEventsProvider(quiet{}), bpbest.WithSignedBeaconBlockProvider(quiet{}),
		bpbest.WithProposalProviders(providers[eth2client.ProposalProvider](h)))
	if err != nil {
		return nil, err
	}
	return func(ctx context.Context) (any, error) { return data(s.Proposal(ctx, proposalOpts(h))) }, nil
}

func buildBPFirst(ctx context.Context, h *harness) (callFn, error) {
	s, err := bpfirst.New(ctx,
		bpfirst.WithLogLevel(zerolog.Disabled), bpfirst.WithClientMonitor(nullmetrics.New()), bpfirst.WithTimeout(h.pl.Timeout),
		bpfirst.WithProposalProviders(providers[eth2client.ProposalProvider](h)))
	if err != nil {
		return nil, err
	}
	return func(ctx context.Context) (any, error) { return data(s.Proposal(ctx, proposalOpts(h))) }, nil
}

func buildBRFirst(ctx context.Context, h *harness) (callFn, error) {
	s, err := brfirst.New(ctx,
		brfirst.WithLogLevel(zerolog.Disabled), brfirst.WithClientMonitor(nullmetrics.New()), brfirst.WithTimeout(h.pl.Timeout),
		brfirst.WithBeaconBlockRootProviders(providers[eth2client.BeaconBlockRootProvider](h)))
	if err != nil {
		return nil, err
	}
	return func(ctx context.Context) (any, error) {
		return data(s.BeaconBlockRoot(ctx, &api.BeaconBlockRootOpts{Block: "head"}))
	}, nil
}

func buildBRLatest(ctx context.Context, h *harness) (callFn, error) {
	s, err := brlatest.New(ctx,
		brlatest.WithLogLevel(zerolog.Disabled), brlatest.WithClientMonitor(nullmetrics.New()), brlatest.WithProcessConcurrency(4),
		brlatest.WithTimeout(h.pl.Timeout), brlatest.WithBlockRootToSlotCache(h.cache),
		brlatest.WithBeaconBlockRootProviders(providers[eth2client.BeaconBlockRootProvider](h)))
	if err != nil {
		return nil, err
	}
	return func(ctx context.Context) (any, error) {
		return data(s.BeaconBlockRoot(ctx, &api.BeaconBlockRootOpts{Block: "head"}))
	}, nil
}

func buildBRMajority(ctx context.Context, h *harness) (callFn, error) {
	s, err := brmajority.New(ctx,
		brmajority.WithLogLevel(zerolog.Disabled), brmajority.WithClientMonitor(nullmetrics.New()), brmajority.WithProcessConcurrency(4),
		brmajority.WithTimeout(h.pl.Timeout), brmajority.WithBlockRootToSlotCache(h.cache),
		brmajority.WithBeaconBlockRootProviders(providers[eth2client.BeaconBlockRootProvider](h)))
	if err != nil {
		return nil, err
	}
	return func(ctx context.Context) (any, error) {
		return data(s.BeaconBlockRoot(ctx, &api.BeaconBlockRootOpts{Block: "head"}))
	}, nil
}

func buildBHFirst(ctx context.Context, h *harness) (callFn, error) {
	s, err := bhfirst.New(ctx,
		bhfirst.WithLogLevel(zerolog.Disabled), bhfirst.WithClientMonitor(nullmetrics.New()), bhfirst.WithTimeout(h.pl.Timeout),
		bhfirst.WithBeaconBlockHeadersProviders(providers[eth2client.BeaconBlockHeadersProvider](h)))
	if err != nil {
		return nil, err
	}
	return func(ctx context.Context) (any, error) {
		return data(s.BeaconBlockHeader(ctx, &api.BeaconBlockHeaderOpts{Block: "head"}))
	}, nil
}

func buildSBFirst(ctx context.Context, h *harness) (callFn, error) {
	s, err := sbfirst.New(ctx,
		sbfirst.WithLogLevel(zerolog.Disabled), sbfirst.WithClientMonitor(nullmetrics.New()), sbfirst.WithTimeout(h.pl.Timeout),
		sbfirst.WithSignedBeaconBlockProviders(providers[eth2client.SignedBeaconBlockProvider](h)))
	if err != nil {
		return nil, err
	}
	return func(ctx context.Context) (any, error) {
		return data(s.SignedBeaconBlock(ctx, &api.SignedBeaconBlockOpts{Block: "head"}))
	}, nil
}
