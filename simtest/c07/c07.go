// Package c07 checks property C07: multi-node strategies return the right
// valid answer, in bounded time.
//
// Real code: every package under /repo/strategies except builderbid.
// Stubs: the beacon nodes (one stub per provider; timing through env.Script),
// the block-root-to-slot cache (fixed map).  Real: chaintime.
//
// One plan generator, one stub core and one oracle are shared by all
// strategies; adapters.go holds what differs (constructor, content, key).
package c07

import (
	"context"
	"errors"
	"fmt"
	"os"
	"sort"
	"strings"
	"time"

	"verif/sim"
	"verif/simrt"
	"verif/simtest/env"
)

// ---------------------------------------------------------------------------
// plan

type provPlan struct {
	Kind      string        `json:"kind,omitempty"` // "" answer | "error" | "hang"
	Lat       time.Duration `json:"lat"`
	Class     string        `json:"class"` // "valid" or one of the adapter's invalid classes
	Q         int           `json:"q"`     // quality (best/first/latest) or value variant (majority)
	IgnoreCtx bool          `json:"ignorectx,omitempty"`
}

type callPlan struct {
	Dim   int        `json:"dim"` // the one dimension in which this call's valid responses differ
	Provs []provPlan `json:"provs"`
}

type plan struct {
	Strategy  string        `json:"strategy"`
	N         int           `json:"n"`
	Timeout   time.Duration `json:"timeout"`
	Threshold int           `json:"threshold,omitempty"`
	Gap       time.Duration `json:"gap,omitempty"`
	Calls     []callPlan    `json:"calls"`
	History   []string      `json:"history,omitempty"` // filled in by exec (for samples and replays)
	// Graffiti (proposal strategies): the operator's graffiti, possibly with the {{CLIENT}} template, which the
	// strategy expands per node with that node's client name (shorter, longer or empty).
	Graffiti string `json:"graffiti,omitempty"`
}

var graffitiPool = []string{"c07", "c07", "{{CLIENT}}", "vouch {{CLIENT}}", "{{CLIENT}}{{CLIENT}}{{CLIENT}}", "0123456789012345678901{{CLIENT}}", "{{CLIENT}} 456789012345678901"}

// clientNames by node number: shorter than the template, longer, empty.
var clientNames = []string{"teku", "lighthouse", "", "a-client-with-quite-a-long-name-indeed", "nimbus"}

var timeouts = []time.Duration{2 * time.Second, time.Second, 4 * time.Second, 250 * time.Millisecond}

func genFor(ad *adapter) func(p *simrt.Tape) any {
	return func(p *simrt.Tape) any {
		pl := &plan{Strategy: ad.name}
		pl.N = p.Range(1, 5)
		pl.Timeout = timeouts[p.Pick(len(timeouts))]
		if ad.threshold {
			pl.Threshold = p.Range(1, pl.N)
			if p.Draw(40) == 39 {
				pl.Threshold = 0
			}
		}
		ncalls := 1
		if p.Draw(10) >= 7 {
			ncalls = 2
			pl.Gap = []time.Duration{0, time.Millisecond, pl.Timeout}[p.Pick(3)]
		}
		pl.Graffiti = graffitiPool[p.Pick(len(graffitiPool))]
		lat := env.LatencyLattice(pl.Timeout)
		for c := 0; c < ncalls; c++ {
			cp := callPlan{Dim: p.Pick(ad.dims)}
			for i := 0; i < pl.N; i++ {
				pp := provPlan{Class: "valid"}
				// the deadline lattice, with extra weight on the early answers
				li := p.Pick(len(lat) + 5)
				if li >= len(lat) {
					li -= len(lat)
				}
				pp.Lat = lat[li]
				switch k := p.Pick(10); {
				case k >= 9:
					pp.Kind = "hang"
				case k >= 7:
					pp.Kind = "error"
				}
				if len(ad.invalid) > 0 && p.Draw(4) == 3 {
					pp.Class = ad.invalid[p.Pick(len(ad.invalid))]
				}
				if ad.kind == "majority" {
					// skewed, so that nodes agree often
					pp.Q = min(ad.maxQ, []int{0, 0, 0, 0, 1, 1, 2, 3}[p.Pick(8)])
				} else {
					pp.Q = p.Pick(ad.maxQ + 1)
				}
				pp.IgnoreCtx = p.Draw(10) == 9 && pp.Kind != "hang"
				cp.Provs = append(cp.Provs, pp)
			}
			pl.Calls = append(pl.Calls, cp)
		}
		return pl
	}
}

// ---------------------------------------------------------------------------
// execution

// content says what provider Prov answers in strategy call Call.
type content struct {
	Call, Prov int
	Class      string
	Q, Dim     int
}

// respRec is one invocation of a provider stub by vouch.
type respRec struct {
	call, prov int
	pp         provPlan
	invokeT    time.Duration
	invokeStep int
	done       bool // the stub returned to vouch
	retT       time.Duration
	retStep    int
	ok         bool // returned content (no error)
	cancelled  bool // returned the context's error
	valid      bool // content is acceptable by the statement's rules for this strategy
	key        string
	dup        bool // second invocation of the same provider within one strategy call
}

// planT is the instant at which the stub answers if nobody cancels it.
func (r *respRec) planT() time.Duration { return r.invokeT + r.pp.Lat }

type callKey struct{}

type callRec struct {
	startT, retT       time.Duration
	startStep, retStep int
	returned           bool
	err                error
	key                string
}

type harness struct {
	ad      *adapter
	pl      *plan
	chain   *env.Chain
	script  *env.Script
	cache   *cacheStub
	slot    uint64
	curCall int
	resps   []*respRec
	calls   []*callRec
	seen    map[[2]int]bool
}

// serve is the body of every provider stub method: timing, faults and
// cancellation through env.Script, then the content for this (call, provider).
func (h *harness) serve(ctx context.Context, i int, method string) (any, provPlan, error) {
	rec := &respRec{prov: i}
	simrt.Crit(func() {
		// the strategy call this invocation belongs to travels in the context
		// (a goroutine of an earlier call may reach its provider only now)
		rec.call = h.curCall
		if c, ok := ctx.Value(callKey{}).(int); ok {
			rec.call = c
		} else {
			simrt.Probe("obs:provider-context-not-derived-from-caller")
		}
		rec.pp = h.pl.Calls[rec.call].Provs[i]
		rec.invokeT, rec.invokeStep = simrt.Now(), simrt.Step()
		k := [2]int{rec.call, i}
		rec.dup = h.seen[k]
		h.seen[k] = true
		h.resps = append(h.resps, rec)
	})
	party := fmt.Sprintf("bn%d.c%d", i, rec.call)
	dctx := ctx
	if rec.pp.IgnoreCtx {
		dctx = context.WithoutCancel(ctx)
	}
	_, err := h.script.Do(dctx, party, method, nil)
	if err != nil {
		simrt.Crit(func() {
			rec.done, rec.retT, rec.retStep = true, simrt.Now(), simrt.Step()
			rec.cancelled = !errors.Is(err, env.ErrSimulated)
		})
		return nil, rec.pp, err
	}
	c := content{Call: rec.call, Prov: i, Class: rec.pp.Class, Q: rec.pp.Q, Dim: h.pl.Calls[rec.call].Dim}
	obj := h.ad.mk(h, c)
	simrt.Crit(func() {
		rec.done, rec.retT, rec.retStep = true, simrt.Now(), simrt.Step()
		rec.ok, rec.valid, rec.key = true, rec.pp.Class == "valid", keyOf(obj)
	})
	return obj, rec.pp, nil
}

func execFor(ad *adapter) func(plan any, sched *simrt.Tape) *sim.Outcome {
	return func(p any, sched *simrt.Tape) *sim.Outcome {
		pl := p.(*plan)
		pl.History = nil
		out := &sim.Outcome{Probes: map[string]int{}, Sample: pl}
		h := &harness{ad: ad, pl: pl, slot: 83, seen: map[[2]int]bool{}}
		h.chain = env.DefaultChain(-(time.Duration(h.slot*12)*time.Second + 4*time.Second))
		outcomes := map[string][]env.Outcome{}
		for c, cp := range pl.Calls {
			for i, pp := range cp.Provs {
				outcomes[fmt.Sprintf("bn%d.c%d/*", i, c)] = []env.Outcome{{Latency: pp.Lat, Kind: pp.Kind, Variant: pp.Q}}
			}
		}
		h.script = &env.Script{Outcomes: outcomes}
		h.cache = newCacheStub(h)

		res := sim.Run(sched, 10*time.Minute, 50000, nil, func(ctx context.Context) {
			call, err := ad.build(ctx, h)
			if err != nil {
				panic(fmt.Sprintf("harness: cannot build %s: %v", ad.name, err))
			}
			for c := range pl.Calls {
				if c > 0 {
					simrt.Sleep(ctx, pl.Gap, "c07/gap")
				}
				cr := &callRec{}
				simrt.Crit(func() {
					h.curCall = c
					h.calls = append(h.calls, cr)
				})
				cr.startT, cr.startStep = simrt.Now(), simrt.Step()
				data, err := call(context.WithValue(ctx, callKey{}, c))
				cr.retT, cr.retStep, cr.returned = simrt.Now(), simrt.Step(), true
				cr.err = err
				if err == nil {
					cr.key = keyOf(data)
				}
			}
			// let every provider that ignores cancellation finish, and every deadline pass
			simrt.Sleep(ctx, pl.Timeout+2*time.Second, "c07/drain")
		})
		out.Res = res
		h.history()
		if res.Violation != nil {
			out.Violation = res.Violation
			if res.Violation.Kind == "panic" || res.Violation.Kind == "deadlock" || res.Violation.Kind == "horizon" {
				out.Violation.Kind = "C07/" + ad.name + "/" + res.Violation.Kind
			}
			return out
		}
		if len(res.Stranded) > 0 {
			out.Probes["c20-probe:runs-with-stranded-goroutines"]++
			out.Probes["c20-probe:stranded-goroutines"] += len(res.Stranded)
		}
		out.Violation = h.judge(out)
		return out
	}
}

func (h *harness) history() {
	pl := h.pl
	for c, cr := range h.calls {
		r := "err"
		if cr.err == nil {
			r = cr.key
		} else {
			r = "ERR(" + cr.err.Error() + ")"
		}
		pl.History = append(pl.History, fmt.Sprintf("call%d start=%v ret=%v(+%v) -> %s", c, cr.startT, cr.retT, cr.retT-cr.startT, r))
		for _, x := range h.resps {
			if x.call != c {
				continue
			}
			what := "pending"
			switch {
			case x.ok:
				what = x.pp.Class + " " + x.key
			case x.cancelled:
				what = "cancelled"
			case x.done:
				what = "error"
			}
			pl.History = append(pl.History, fmt.Sprintf("  bn%d +%v step %d: %s", x.prov, x.retT-cr.startT, x.retStep, what))
		}
	}
}

// ---------------------------------------------------------------------------
// oracle

// Fingerprint classes of defects already triaged on the unchanged tree (see
// KNOWN).  When a run shows one of these and something else, the something
// else is reported, so that exploration continues past the known defect.
var lowPriority = map[string]bool{}

func (h *harness) judge(out *sim.Outcome) *simrt.Violation {
	ad, pl := h.ad, h.pl
	var viols []*simrt.Violation
	add := func(class, f string, a ...any) {
		viols = append(viols, env.Viol("C07/"+ad.name+"/"+class, f, a...))
	}
	probe := func(name string) { out.Probes[name]++ }
	T := pl.Timeout
	for c, cr := range h.calls {
		if !cr.returned {
			add("no-return", "call %d never returned", c)
			continue
		}
		var rs []*respRec
		for _, r := range h.resps {
			if r.call == c {
				rs = append(rs, r)
				if r.dup {
					probe("obs:provider-invoked-twice-in-one-call")
				}
			}
		}
		s, t := cr.startT, cr.retT
		hard, soft := s+T, s+T/2
		isValid := func(r *respRec) bool { return r.done && r.ok && r.valid }
		// what the provider would have answered, and when, had vouch not cancelled it
		wouldBeValid := func(r *respRec) (time.Duration, bool) {
			if isValid(r) {
				return r.retT, true
			}
			if r.done && r.cancelled && r.pp.Kind == "" && r.pp.Class == "valid" {
				return r.planT(), true
			}
			return 0, false
		}
		desc := fmt.Sprintf("call %d of %d, n=%d timeout=%v start=%v returned=+%v", c, len(h.calls), pl.N, T, s, t-s)

		// probes
		probe("calls")
		if c > 0 {
			probe("second-call")
		}
		nBefore, nValidBefore, nInvalidBefore, tie := 0, 0, 0, false
		qs := map[int]bool{}
		for _, r := range rs {
			if r.done && r.retT < t {
				nBefore++
				if isValid(r) {
					nValidBefore++
					qs[r.pp.Q] = true
				} else if r.ok {
					nInvalidBefore++
				}
			}
			if r.done && r.retT == t && !r.cancelled {
				tie = true
			}
			if r.done && r.ok && r.retT > t {
				probe("answer-after-return(ignorectx)")
			}
			if r.done && r.cancelled && r.retT < hard {
				probe("provider-cancelled-before-deadline")
			}
		}
		switch {
		case cr.err != nil:
			probe("ret:error")
		default:
			probe("ret:value")
		}
		switch {
		case t == hard:
			probe("ret@hard-deadline")
		case t == soft:
			probe("ret@soft-deadline")
		case t < soft:
			probe("ret<soft")
		default:
			probe("ret-between-soft-and-hard")
		}
		if tie {
			probe("response-at-return-instant")
		}
		if nInvalidBefore > 0 {
			probe("invalid-response-before-return")
		}
		if len(qs) >= 2 {
			probe("distinct-valid-responses-before-return")
		}
		if pl.N >= 2 && (nBefore >= 1 || tie) {
			out.Nontrivial = true
		}

		// ---- all strategies ----
		if t > hard {
			add("late-return", "%s: returned %v after the hard deadline", desc, t-hard)
		}
		var inTimeValid []*respRec // responses carrying the returned value, valid, returned at or before t
		if cr.err == nil {
			gave, gaveInTime := 0, 0
			for _, r := range rs {
				if r.done && r.ok && r.key == cr.key {
					gave++
					if r.retT <= t {
						gaveInTime++
						if r.valid {
							inTimeValid = append(inTimeValid, r)
						}
					}
				}
			}
			switch {
			case gave == 0:
				add("value-nobody-gave", "%s: returned %s which no provider returned in this call", desc, cr.key)
			case gaveInTime == 0:
				add("value-nobody-gave", "%s: returned %s which providers returned only after the call had returned", desc, cr.key)
			case len(inTimeValid) == 0:
				add("invalid-returned", "%s: returned %s which fails the validity rules", desc, cr.key)
			}
		}
		if cr.err != nil && ad.kind != "majority" {
			seen, due := false, false
			var which *respRec
			for _, r := range rs {
				if isValid(r) && r.retT < t {
					seen, which = true, r
					break
				}
			}
			if !seen {
				for _, r := range rs {
					if at, ok := wouldBeValid(r); ok && at < hard {
						due, which = true, r
						break
					}
				}
			}
			switch {
			case seen:
				add("error-despite-valid-response", "%s: error %q although bn%d had returned valid %s at +%v", desc, cr.err, which.prov, which.key, which.retT-s)
			case due:
				at, _ := wouldBeValid(which)
				add("gave-up-early", "%s: error %q at +%v, before the deadline, although bn%d answers validly at +%v (cancelled=%v)", desc, cr.err, t-s, which.prov, at-s, which.cancelled)
			}
		}

		// ---- best ----
		if (ad.kind == "best" || ad.kind == "latest") && cr.err == nil && len(inTimeValid) > 0 {
			bestQ := -1
			for _, r := range inTimeValid {
				bestQ = max(bestQ, r.pp.Q)
			}
			for _, r := range rs {
				if isValid(r) && r.retT < t && r.pp.Q > bestQ {
					if ad.kind == "latest" {
						probe("obs:latest-returned-older-root")
						break
					}
					add("best-dominated", "%s: returned %s (quality %d, dim %d) although bn%d had returned %s (quality %d) at +%v", desc, cr.key, bestQ, pl.Calls[c].Dim, r.prov, r.key, r.pp.Q, r.retT-s)
					break
				}
			}
			if len(qs) >= 2 {
				probe("dominance-checked")
			}
			if t > soft {
				for _, r := range rs {
					if isValid(r) && r.retT < soft {
						probe("obs:returned-after-soft-deadline-with-earlier-response")
						break
					}
				}
			}
		}

		// ---- majority ----
		if ad.kind == "majority" {
			thr := 1
			if ad.threshold {
				thr = max(1, pl.Threshold)
			}
			cntLT, cntLE, cntHard, cntPlan := map[string]int{}, map[string]int{}, map[string]int{}, map[string]int{}
			for _, r := range rs {
				if isValid(r) {
					if r.retT < t {
						cntLT[r.key]++
					}
					if r.retT <= t {
						cntLE[r.key]++
					}
					if r.retT < hard {
						cntHard[r.key]++
					}
				}
				if at, ok := wouldBeValid(r); ok && at < hard {
					// the value this provider reports is a function of (class, q) only
					k := r.key
					if !r.ok {
						k = keyOf(ad.mk(h, content{Call: c, Prov: r.prov, Class: "valid", Q: r.pp.Q, Dim: pl.Calls[c].Dim}))
					}
					cntPlan[k]++
				}
			}
			maxOf := func(m map[string]int) (string, int) {
				bk, bv := "", 0
				for _, k := range env.SortedKeys(m) {
					if m[k] > bv {
						bk, bv = k, m[k]
					}
				}
				return bk, bv
			}
			if cr.err == nil {
				if cntLE[cr.key] < thr {
					add("majority-below-threshold", "%s: returned %s reported by %d provider(s) by then, threshold %d", desc, cr.key, cntLE[cr.key], thr)
				}
				if w, n := maxOf(cntLT); n > cntLE[cr.key] {
					add("majority-not-most-frequent", "%s: returned %s (reported %d times) although %s had been reported %d times", desc, cr.key, cntLE[cr.key], w, n)
				}
				// Deciding before the soft deadline (half the timeout; from then on some majority strategies
				// settle for what they have) while nodes are still outstanding is only sound once the value
				// holds a strict majority of the configured nodes: otherwise the nodes still to report can make
				// another value the most frequently reported one.
				if t < s+(hard-s)/2 {
					returned := 0
					for _, r := range rs {
						if r.done && r.retT <= t && !r.dup {
							returned++
						}
					}
					if returned < pl.N && cntLE[cr.key] < pl.N/2+1 {
						add("majority-decided-without-majority", "%s: returned %s at +%v, before even the soft deadline, when only %d of %d nodes had answered and the value had %d reports (strict majority is %d)", desc, cr.key, t-s, returned, pl.N, cntLE[cr.key], pl.N/2+1)
					}
					probe("majority:decided-before-soft-deadline")
				}
				// the block root strategy breaks a tie between equally frequent roots by the slots of their blocks
				// (the later block wins); both slots are known to the cache here
				if ad.name == "beaconblockroot-majority" {
					qOf := map[string]int{}
					for _, r := range rs {
						if isValid(r) {
							qOf[r.key] = r.pp.Q
						}
					}
					for _, k := range env.SortedKeys(cntLE) {
						if k == cr.key || cntLE[k] != cntLT[k] || cntLE[cr.key] != cntLT[cr.key] || cntLE[k] != cntLE[cr.key] {
							continue
						}
						if qOf[cr.key] > 0 && qOf[k] > qOf[cr.key] {
							add("majority-tie-not-broken-by-block-slot", "%s: returned %s (block slot %d) although %s was reported as often (%d times) and is the root of a later block (slot %d)", desc, cr.key, h.slot-5+uint64(qOf[cr.key]), k, cntLE[k], h.slot-5+uint64(qOf[k]))
						}
						probe("majority:tie-between-known-roots")
					}
				}
				probe("majority:value")
				if cntLE[cr.key] >= 2 {
					probe("majority:value-reported>=2")
				}
				if cntLE[cr.key] == thr {
					probe("majority:value-at-threshold-exactly")
				}
				if len(cntLE) >= 2 {
					probe("majority:competing-values")
				}
			} else {
				probe("majority:fail")
				if _, n := maxOf(cntHard); n == thr-1 && n > 0 {
					probe("majority:fail-one-short-of-threshold")
				}
				_, nLT := maxOf(cntLT)
				wH, nH := maxOf(cntHard)
				wP, nP := maxOf(cntPlan)
				switch {
				case nLT >= thr:
					add("majority-failed-despite-threshold", "%s: error %q although %s had been reported %d times (threshold %d)", desc, cr.err, wH, nLT, thr)
				case nH >= thr:
					add("majority-gave-up-early", "%s: error %q at +%v although %s was reported %d times before the hard deadline (threshold %d)", desc, cr.err, t-s, wH, nH, thr)
				case nP >= thr:
					add("majority-gave-up-early", "%s: error %q at +%v, before the deadline, although %d providers (threshold %d) answer %s before the hard deadline (the rest were cancelled by the strategy)", desc, cr.err, t-s, nP, thr, wP)
				}
			}
		}
	}
	if len(viols) == 0 {
		return nil
	}
	sort.SliceStable(viols, func(i, j int) bool { return !lowPriority[viols[i].Kind] && lowPriority[viols[j].Kind] })
	return viols[0]
}

// oddClasses are content classes that make some strategies dereference nil
// (C16's business; kept out of C07's own scenarios, which are about choice and timing).
var oddClasses = map[string][]string{
	"beaconblockproposal-best":  {"nildata", "nilvalue"},
	"beaconblockroot-latest":    {"nildata"},
	"beaconblockroot-majority":  {"nildata"},
	"aggregateattestation-best": {"nilattdata"},
}

// OddScenarios returns, for property prop, one scenario per strategy that also
// feeds the odd content classes; only crashes are reported (as prop/panic/<strategy>),
// every other verdict belongs to C07 and is dropped here.
func OddScenarios(prop string) []*sim.Scenario {
	var out []*sim.Scenario
	for _, ad := range adapters {
		cp := *ad
		cp.invalid = append(append([]string{}, ad.invalid...), oddClasses[ad.name]...)
		name := ad.name
		inner := execFor(&cp)
		out = append(out, &sim.Scenario{Property: prop, Name: "strategy-" + name, Gen: genFor(&cp), Weight: 1, Exec: func(plan any, sched *simrt.Tape) *sim.Outcome {
			o := inner(plan, sched)
			if o != nil && o.Violation != nil {
				if strings.HasSuffix(o.Violation.Kind, "/panic") {
					o.Violation.Kind = prop + "/panic/" + env.PanicSite(o.Violation.Detail)
				} else if !strings.HasPrefix(o.Violation.Kind, "harness-") {
					o.Violation = nil
				}
			}
			return o
		}})
	}
	return out
}

// SlotScenarios returns, for property prop (C18), the strategies that rank answers by the slot of a block root
// (attestation data 'best', block root 'latest'): a verdict that the returned answer is dominated by another
// node's answer there means the strategy took a root for a block of another slot than the cache says.  Every
// other verdict belongs to C07 and is dropped.
func SlotScenarios(prop string) []*sim.Scenario {
	var out []*sim.Scenario
	for _, ad := range adapters {
		if ad.name != "attestationdata-best" && ad.name != "beaconblockroot-latest" && ad.name != "beaconblockroot-majority" {
			continue
		}
		name := ad.name
		inner := execFor(ad)
		out = append(out, &sim.Scenario{Property: prop, Name: "strategy-" + name, Gen: genFor(ad), Weight: 1, Exec: func(plan any, sched *simrt.Tape) *sim.Outcome {
			o := inner(plan, sched)
			if o == nil || o.Violation == nil || strings.HasPrefix(o.Violation.Kind, "harness-") {
				return o
			}
			if strings.HasSuffix(o.Violation.Kind, "-dominated") || strings.HasSuffix(o.Violation.Kind, "-not-broken-by-block-slot") {
				o.Violation.Kind = prop + "/strategy-ranks-root-by-another-slot/" + name
			} else {
				o.Violation = nil
			}
			return o
		}})
	}
	return out
}

// LeakScenarios returns, for property prop (C20), one scenario per strategy that judges one thing only: once
// every call has returned, every deadline has passed and every node has answered (or had its request cancelled),
// no goroutine the strategy started is left.  Every other verdict belongs to C07 and is dropped here.
func LeakScenarios(prop string) []*sim.Scenario {
	var out []*sim.Scenario
	for _, ad := range adapters {
		name := ad.name
		inner := execFor(ad)
		out = append(out, &sim.Scenario{Property: prop, Name: "strategy-goroutines-" + name, Gen: genFor(ad), Weight: 1, Exec: func(plan any, sched *simrt.Tape) *sim.Outcome {
			o := inner(plan, sched)
			if o == nil {
				return o
			}
			if o.Violation != nil && !strings.HasPrefix(o.Violation.Kind, "harness-") {
				o.Violation = nil
			}
			if o.Violation == nil && o.Res != nil && len(o.Res.Stranded) > 0 {
				l := append([]string{}, o.Res.Stranded...)
				sort.Strings(l)
				o.Violation = env.Viol(prop+"/stranded-goroutine/"+name, "%d goroutine(s) started by the %s strategy never finished although every call has returned, the timeout has passed and every node has answered or been cancelled: %s", len(l), name, strings.Join(l, "; "))
			}
			o.Nontrivial = true
			return o
		}})
	}
	return out
}

func init() {
	// C07_CRASHERS=1 feeds the odd classes to C07's own scenarios too (developer aid).
	if sel := os.Getenv("C07_CRASHERS"); sel != "" {
		for _, ad := range adapters {
			for _, cl := range oddClasses[ad.name] {
				if sel == "1" || sel == cl { // C07_CRASHERS=<class> feeds only that class
					ad.invalid = append(ad.invalid, cl)
				}
			}
		}
	}
	for _, ad := range adapters {
		sim.Register(&sim.Scenario{Property: "C07", Name: ad.name, Gen: genFor(ad), Exec: execFor(ad), Weight: 1})
	}
	for _, k := range strings.Fields(knownKinds) {
		lowPriority[k] = true
	}
}
