//go:debug randseednop=0
package c11

import (
	"testing"

	"verif/sim"
)

// randseednop=0: vouch draws the registration job's time from the math/rand
// global source; relaysim seeds it from the plan (rand.Seed) so runs replay.
func TestWorker(t *testing.T) { sim.WorkerMain(t) }
