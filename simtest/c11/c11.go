// Package c11 — relays and beacon nodes are told exactly what the configuration says.
//
// Real code: blockrelay/standard (New, the periodic "Submit validator
// registrations" and "Fetch execution configuration" jobs on the real
// scheduler/advanced over the fake clock, generation/signing/caching/submission
// of registrations), signer/standard (SignValidatorRegistration),
// proposalpreparer/standard (UpdatePreparations, called at the time the
// controller's job would call it), chaintime.  Stubs: configuration source
// with a timeline of documents, relays, secondary beacon nodes, proposal
// preparation targets, accounts with a signer log.
//
// Oracle: per registration round and per (validator active in the epoch vouch
// asked for, relay of its REFERENCE-resolved settings) the relay received a
// registration with the resolved fee recipient and gas limit, BLS-signed by
// that validator over the message as received (builder domain); nothing else
// was sent; signature reuse only while the content for that relay is unchanged;
// every preparation target received validator index -> resolved fee recipient;
// failures of one relay / node / validator leave the others delivered.
package c11

import (
	"context"
	"fmt"
	"sort"
	"strings"
	"time"

	blockrelaytypes "github.com/attestantio/go-block-relay/types"
	"github.com/attestantio/go-eth2-client/spec/bellatrix"
	"github.com/attestantio/go-eth2-client/spec/phase0"

	"verif/sim"
	"verif/simrt"
	"verif/simtest/c10/relaysim"
	. "verif/simtest/env"
)

type srcEvent struct {
	At      time.Duration `json:"at"`
	Doc     *relaysim.Doc `json:"doc"`
	Refresh bool          `json:"refresh,omitempty"` // the operator also triggers a refresh
}

type plan struct {
	World   *relaysim.WorldSpec  `json:"world"`
	Initial *relaysim.Doc        `json:"initial"`
	Source  []srcEvent           `json:"source"`
	Epochs  int                  `json:"epochs"` // run length
	Script  map[string][]Outcome `json:"script,omitempty"`
	// signer failure for one validator during a time window
	FaultVal  int           `json:"fault_val"`
	FaultFrom time.Duration `json:"fault_from"`
	FaultTo   time.Duration `json:"fault_to"`
	// Forward: registrations made elsewhere (a standby validator client, a beacon node's default) which a beacon
	// node hands to vouch's builder endpoint; vouch passes them on to relays except for its own validators.
	Forward []fwdCall `json:"forward,omitempty"`
}

// fwdReg is one registration made elsewhere.
type fwdReg struct {
	Val int    `json:"val"` // validator number; numbers past vouch's validators are validators vouch does not manage
	Fee int    `json:"fee"` // address pool index
	Gas uint64 `json:"gas"`
}

// fwdCall is one call of the builder endpoint (ValidatorRegistrations).
type fwdCall struct {
	At   time.Duration `json:"at"`
	Regs []fwdReg      `json:"regs"`
}

// foreignGas is a gas limit no generated configuration contains.
const foreignGas = 31000000

// foreignFeeBase: address pool indices from here on are in no generated configuration (those use 0..9 and the fallback).
const foreignFeeBase = 20

func gen(p *simrt.Tape) any {
	pl := &plan{World: relaysim.GenWorldSpec(p, 2, 5), FaultVal: -1}
	ws := pl.World
	ws.SecondsPerSlot, ws.SlotsPerEpoch = 2, 4
	epoch := 8 * time.Second
	ws.NSecondary, ws.NPrep = p.Range(0, 2), p.Range(1, 3)
	ws.StartOffset = time.Duration(p.Range(0, 7)) * time.Second
	// some validators are not active yet / leave during the run
	for i := range ws.Vals {
		switch p.Pick(6) {
		case 0:
			ws.Vals[i].Activation = int64(p.Range(1, 4))
		case 1:
			ws.Vals[i].Exit = int64(p.Range(2, 5))
		}
	}
	pl.Epochs = p.Range(3, 6)
	o := relaysim.GenOpts{NVals: len(ws.Vals), Unresolvable: 12, V1: 15, MaxRelays: 3, MaxProposers: 3, AvoidKnown: true}
	docs := []*relaysim.Doc{relaysim.GenGoodDoc(p, o)}
	pl.Initial = docs[0]
	nch := p.Range(1, 4)
	offsets := []time.Duration{0, time.Second, 2900 * time.Millisecond, 3 * time.Second, 3100 * time.Millisecond, 5 * time.Second, 7 * time.Second}
	for i := 0; i < nch; i++ {
		var d *relaysim.Doc
		switch {
		case p.Pct(25): // back to an earlier document
			d = docs[p.Pick(len(docs))]
		case p.Pct(12):
			d = relaysim.GenBadDoc(p, o)
		default:
			d = relaysim.GenGoodDoc(p, o)
			docs = append(docs, d)
		}
		if p.Pct(15) {
			c := *d
			c.Latency = 300 * time.Millisecond
			d = &c
		}
		at := time.Duration(p.Range(0, pl.Epochs-1))*epoch - ws.StartOffset + offsets[p.Pick(len(offsets))]
		if at < 0 {
			at = 0
		}
		pl.Source = append(pl.Source, srcEvent{At: at, Doc: d, Refresh: p.Pct(30)})
	}
	sort.SliceStable(pl.Source, func(i, j int) bool { return pl.Source[i].At < pl.Source[j].At })
	// faults
	pl.Script = map[string][]Outcome{}
	relayKinds := []Outcome{{}, {}, {}, {}, {}, {Latency: 300 * time.Millisecond}, {Kind: "error"}, {Kind: "error", Latency: 100 * time.Millisecond}, {Kind: "error"}, {Kind: "hang"}}
	draw := func(n, hangOK int) []Outcome {
		var l []Outcome
		for i := 0; i < n; i++ {
			l = append(l, relayKinds[p.Pick(len(relayKinds)-1+hangOK)])
		}
		return l
	}
	hang := 0
	if p.Pct(15) {
		hang = 1
	}
	for r := 0; r < relaysim.NRelays; r++ {
		if p.Pct(30) {
			pl.Script[fmt.Sprintf("relay%d/SubmitValidatorRegistrations", r)] = draw(5, hang)
		}
	}
	for i := 0; i < ws.NSecondary; i++ {
		if p.Pct(40) {
			pl.Script[fmt.Sprintf("sec%d/SubmitValidatorRegistrations", i)] = draw(5, 0)
		}
	}
	for i := 0; i < ws.NPrep; i++ {
		if p.Pct(40) {
			pl.Script[fmt.Sprintf("prep%d/SubmitProposalPreparations", i)] = draw(5, hang)
		}
	}
	if p.Pct(8) {
		pl.Script["accounts/ValidatingAccountsForEpoch/register"] = []Outcome{{}, {}, {Kind: "error"}}
	}
	// the node is not ready for the first domain requests (start-up), or fails one later
	if p.Pct(20) {
		pl.Script["chain/GenesisDomain"] = [][]Outcome{{{Kind: "error"}}, {{Kind: "error"}, {Kind: "error"}}, {{}, {}, {Kind: "error"}}}[p.Pick(3)]
	}
	if p.Pct(30) {
		pl.FaultVal = p.Pick(len(ws.Vals))
		pl.FaultFrom = time.Duration(p.Range(0, pl.Epochs-1)) * epoch
		pl.FaultTo = pl.FaultFrom + time.Duration(p.Range(1, 2))*epoch
	}
	// registrations made elsewhere, handed to the builder endpoint (drawn last: earlier draws keep their meaning)
	lastAt := time.Duration(pl.Epochs*8-8)*time.Second + 500*time.Millisecond // before the end of the run for every start offset
	fwdOffsets := []time.Duration{500 * time.Millisecond, 500 * time.Millisecond, 500 * time.Millisecond, 0, 80 * time.Millisecond}
	nf := p.Range(0, 3)
	for i := 0; i < nf; i++ {
		fc := fwdCall{At: time.Duration(p.Range(0, pl.Epochs*8-8))*time.Second + fwdOffsets[p.Pick(len(fwdOffsets))]}
		must := -1
		if i == 0 && pl.FaultVal >= 0 && p.Pct(70) {
			// while (or shortly after) the signer refuses that validator: the standby's registration for it arrives
			fc.At = pl.FaultFrom + time.Duration(p.Range(0, int((pl.FaultTo-pl.FaultFrom)/time.Second)))*time.Second + 500*time.Millisecond
			must = pl.FaultVal
		}
		if fc.At > lastAt {
			fc.At = lastAt
		}
		for v := range ws.Vals {
			if p.Pct(60) || v == must {
				fc.Regs = append(fc.Regs, genFwdReg(p, v))
			}
		}
		for k, n := 0, p.Range(0, 2); k < n; k++ {
			fc.Regs = append(fc.Regs, genFwdReg(p, len(ws.Vals)+p.Pick(3)))
		}
		pl.Forward = append(pl.Forward, fc)
	}
	sort.SliceStable(pl.Forward, func(i, j int) bool { return pl.Forward[i].At < pl.Forward[j].At })
	return pl
}

func genFwdReg(p *simrt.Tape, val int) fwdReg {
	r := fwdReg{Val: val, Fee: foreignFeeBase + p.Pick(8), Gas: foreignGas}
	if p.Pct(25) {
		r.Fee = p.Pick(10) // may be the configured one
	}
	if p.Pct(50) {
		r.Gas = relaysim.GasPool[p.Pick(len(relaysim.GasPool))]
	}
	return r
}

// fwdRec is one call of the builder endpoint as the harness made it.
type fwdRec struct {
	idx               int
	callT, retT       time.Duration
	callStep, retStep int
	regs              []relaysim.RegRec
	err               error
}

// Registrations made elsewhere carry a signature no BLS signer produces (a compressed point never starts with a
// zero byte), which also says which call and which entry they came from.
var fwdMark = [7]byte{0x00, 'C', '1', '1', 'f', 'w', 'd'}

func fwdSig(call, entry int) phase0.BLSSignature {
	var sig phase0.BLSSignature
	for i := range sig {
		sig[i] = 0x5a
	}
	copy(sig[:], fwdMark[:])
	sig[7], sig[8] = byte(call), byte(entry)
	return sig
}

// forwardedCall: the submission contains a registration made elsewhere; which builder endpoint call it came from.
func forwardedCall(s *relaysim.Submission) (int, bool) {
	for _, g := range s.Regs {
		if string(g.Sig[:7]) == string(fwdMark[:]) {
			return int(g.Sig[7]), true
		}
	}
	return -1, false
}

// foreignPub is the public key of validator number n >= number of vouch's validators (the first of them is the
// one configuration documents may name: relaysim renders key NVals as RelayPub(40+NVals)).
func foreignPub(n int) phase0.BLSPubKey { return relaysim.RelayPub(40 + n) }

type prepCall struct {
	callT, retT       time.Duration
	callStep, retStep int
	err               error
}

func exec(plAny any, sched *simrt.Tape) *sim.Outcome {
	pl := plAny.(*plan)
	out := &sim.Outcome{Probes: map[string]int{}, Sample: pl}
	var w *relaysim.World
	var preps []*prepCall
	var fwds []*fwdRec
	var stopT time.Duration

	res := sim.Run(sched, 30*time.Minute, 400000, nil, func(ctx context.Context) {
		w = relaysim.NewWorld(pl.World, &Script{Outcomes: pl.Script})
		if pl.FaultVal >= 0 {
			w.Log.Fault = func(r *SignReq) (string, time.Duration) {
				if r.KeyIndex == pl.FaultVal && r.T >= pl.FaultFrom && r.T < pl.FaultTo {
					return "error", 0
				}
				return "", 0
			}
		}
		w.Source.Set(pl.Initial)
		svcCtx, stop := context.WithCancel(ctx)
		defer stop()
		if err := w.Start(svcCtx); err != nil {
			panic(err)
		}
		simrt.Go("operator", func() {
			for _, e := range pl.Source {
				simrt.Sleep(ctx, e.At-simrt.Now(), "c11/operator")
				w.Source.Set(e.Doc)
				if e.Refresh {
					_ = w.Sched.RunJob(svcCtx, relaysim.JobFetch)
				}
			}
		})
		end := time.Duration(pl.Epochs)*w.EpochDuration() - pl.World.StartOffset + 500*time.Millisecond
		// what the controller's "Prepare proposals" job does: three quarters through each epoch, middle of the slot
		simrt.Go("preparer", func() {
			for e := 0; ; e++ {
				at := time.Duration(e)*w.EpochDuration() - pl.World.StartOffset + w.EpochDuration()*3/4 + time.Second
				if at < 0 {
					continue
				}
				if at >= end {
					return
				}
				simrt.Sleep(ctx, at-simrt.Now(), "c11/preparer")
				pc := &prepCall{callT: simrt.Now(), callStep: simrt.Step()}
				simrt.Crit(func() { preps = append(preps, pc) })
				err := w.Preparer.UpdatePreparations(relaysim.WithTag(svcCtx, pc))
				simrt.Yield("c11/prepared")
				simrt.Crit(func() { pc.err, pc.retT, pc.retStep = err, simrt.Now(), simrt.Step() })
			}
		})
		// a beacon node handing over registrations made elsewhere (its builder endpoint is vouch)
		if len(pl.Forward) > 0 {
			simrt.Go("builder-endpoint", func() {
				for i, fc := range pl.Forward {
					if simrt.Sleep(ctx, fc.At-simrt.Now(), "c11/forward") != nil {
						return
					}
					fr := &fwdRec{idx: i}
					var regs []*blockrelaytypes.SignedValidatorRegistration
					for k, g := range fc.Regs {
						pk := foreignPub(g.Val)
						if g.Val < len(w.Vals) {
							pk = w.Vals[g.Val].PubKey
						}
						rr := relaysim.RegRec{Fee: relaysim.FeeAddr(g.Fee), Gas: g.Gas, Timestamp: SimEpoch.Add(simrt.Now()).Round(time.Second), PubKey: pk, Sig: fwdSig(i, k)}
						fr.regs = append(fr.regs, rr)
						regs = append(regs, &blockrelaytypes.SignedValidatorRegistration{
							Message:   &blockrelaytypes.ValidatorRegistration{FeeRecipient: rr.Fee, GasLimit: rr.Gas, Timestamp: rr.Timestamp, Pubkey: rr.PubKey},
							Signature: rr.Sig,
						})
					}
					fr.callT, fr.callStep = simrt.Now(), simrt.Step()
					simrt.Crit(func() { fwds = append(fwds, fr) })
					_, err := w.Svc.ValidatorRegistrations(svcCtx, regs)
					simrt.Yield("c11/forwarded")
					simrt.Crit(func() { fr.err, fr.retT, fr.retStep = err, simrt.Now(), simrt.Step() })
				}
			})
		}
		simrt.Sleep(ctx, end, "c11/run")
		simrt.Crit(func() { stopT = simrt.Now() })
		stop()
		simrt.Sleep(ctx, 5*time.Second, "c11/drain")
	})
	out.Res = res
	if res.Violation != nil {
		out.Violation = res.Violation
		switch res.Violation.Kind {
		case "panic", "deadlock", "horizon":
			out.Violation.Kind = "C11/" + res.Violation.Kind
		}
		return out
	}
	out.Violation = oracle(pl, w, preps, fwds, stopT, out)
	return out
}

// triaged: violation classes explained as genuine defects of the unchanged
// tree; the oracle reports any other class first.
var triaged = map[string]bool{
	"C11/unresolvable-validator-blocks-others": true,
}

type regEvent struct {
	party string
	relay int // -1 for a secondary node
	sub   *relaysim.Submission
	reg   relaysim.RegRec
}

func oracle(pl *plan, w *relaysim.World, preps []*prepCall, fwds []*fwdRec, stopT time.Duration, out *sim.Outcome) *simrt.Violation {
	var first, firstNew *simrt.Violation
	report := func(v *simrt.Violation) {
		if first == nil {
			first = v
		}
		if firstNew == nil && !triaged[v.Kind] {
			firstNew = v
		}
	}
	domain := w.Chain.DomainAt(DomainApplicationBuilder, 0)
	sigOK := map[string]bool{}
	verify := func(v *relaysim.Val, r *relaysim.RegRec) bool {
		key := string(r.Sig[:]) + string(r.PubKey[:4])
		root := r.Root()
		key += string(root[:])
		if ok, seen := sigOK[key]; seen {
			return ok
		}
		ok := VerifySig(v.KeyIndex, root, domain, r.Sig)
		sigOK[key] = ok
		return ok
	}
	reqs := w.Log.Snapshot()
	reqBySig := map[string]*SignReq{}
	for _, r := range reqs {
		if r.Signature != nil {
			reqBySig[string(r.Signature)] = r
		}
	}

	// a relay that answers normally and quickly must be allowed to answer: vouch may not abort its
	// submission because another relay or node failed in the meantime
	for _, c := range w.Script.CallsOf("", "SubmitValidatorRegistrations") {
		if c.Outcome.Kind == "" && c.Outcome.Latency <= 400*time.Millisecond && c.Cancelled && c.EndT < stopT-time.Millisecond && c.EndT-c.T < c.Outcome.Latency {
			report(Viol("C11/healthy-relay-submission-aborted", "the submission to %s started at %v (answer due after %v) was cancelled by vouch at %v although that relay was answering normally", c.Party, c.T, c.Outcome.Latency, c.EndT))
			break
		}
		if c.Outcome.Kind == "" && c.Outcome.Latency > 0 && !c.Cancelled {
			out.Probes["slow-healthy-relay-answered"]++
		}
	}

	// rounds: every ValidatingAccountsForEpoch call made by the registration job
	var rounds []relaysim.AccountsCall
	for _, c := range w.Accounts.Calls {
		if c.Op == "register" {
			rounds = append(rounds, c)
		}
	}
	type lastDelivery struct {
		fee bellatrix.ExecutionAddress
		gas uint64
		ts  time.Time
	}
	last := map[string]lastDelivery{} // relay party + validator -> previous delivery
	for ri, rd := range rounds {
		if rd.T >= stopT-time.Millisecond {
			break // the services were being stopped
		}
		endStep := int(^uint(0) >> 1)
		if ri+1 < len(rounds) {
			endStep = rounds[ri+1].Step
		}
		in := func(step int) bool { return step >= rd.Step && step < endStep }
		if want := w.EpochAt(rd.T) + 1; rd.Epoch != want {
			report(Viol("C11/wrong-epoch", "round %d at %v asked for the validating accounts of epoch %d, the next epoch is %d", ri, rd.T, rd.Epoch, want))
			continue
		}
		if rd.Err {
			out.Probes["round-without-accounts"]++
			continue
		}
		// what was delivered in this round
		var evs []regEvent
		subsTo := map[string]int{}
		windowEnd := rd.T
		firstSub := time.Duration(-1)
		for _, rl := range w.Relays {
			for _, s := range rl.Subs {
				if !in(s.Step) {
					continue
				}
				if _, fw := forwardedCall(s); fw {
					continue // not a submission of the round: judged with the builder endpoint calls below
				}
				subsTo[rl.Party]++
				if firstSub < 0 || s.T < firstSub {
					firstSub = s.T
				}
				if s.Odd != "" {
					report(Viol("C11/malformed-registration", "relay %d received a malformed registration list (%s)", rl.N, s.Odd))
				}
				for _, g := range s.Regs {
					evs = append(evs, regEvent{party: rl.Party, relay: rl.N, sub: s, reg: g})
				}
			}
		}
		var secEvs []regEvent
		for _, n := range w.Secondary {
			for _, s := range n.Subs {
				if !in(s.Step) {
					continue
				}
				subsTo[n.Party]++
				for _, g := range s.Regs {
					secEvs = append(secEvs, regEvent{party: n.Party, relay: -1, sub: s, reg: g})
				}
			}
		}
		// a failed domain request of the round leaves every validator without a signature
		domainFailed := false
		for _, c := range w.Script.CallsOf("chain", "GenesisDomain") {
			if in(c.Step) && c.Outcome.Kind == "error" {
				domainFailed = true
			}
		}
		signerFailed := map[int]bool{}
		var failedReqs []*SignReq
		for _, q := range reqs {
			if in(q.Step) {
				if q.T > windowEnd {
					windowEnd = q.T
				}
				if q.Outcome == "error" || q.Outcome == "cancelled" {
					signerFailed[q.KeyIndex] = true
					failedReqs = append(failedReqs, q)
				}
			}
		}
		// Which registration was being signed when the signer failed?  A failed signature only excuses the
		// relays whose registration carries that content (fee recipient, gas limit): the others must still be served.
		var candsAll []*relaysim.Doc
		excused := func(v *relaysim.Val, rr *relaysim.RRelay) bool {
			any := false
			for _, q := range failedReqs {
				if q.KeyIndex != v.KeyIndex {
					continue
				}
				any = true
				attributed := false
				for _, dt := range []time.Duration{0, -time.Second, time.Second} {
					m := &relaysim.RegRec{Fee: relaysim.FeeAddr(rr.Fee), Gas: rr.Gas, Timestamp: SimEpoch.Add(q.T + dt).Round(time.Second), PubKey: v.PubKey}
					root := m.Root()
					sd := &phase0.SigningData{ObjectRoot: root, Domain: domain}
					sroot, err := sd.HashTreeRoot()
					if err != nil {
						return true
					}
					if string(q.Data) == string(root[:]) || string(q.Data) == string(sroot[:]) {
						attributed = true
					}
				}
				if attributed {
					return true
				}
			}
			if !any {
				return false
			}
			// failed requests of this validator that match none of its resolved registrations (e.g. another
			// configuration was in force): cannot tell, excuse
			for _, q := range failedReqs {
				if q.KeyIndex != v.KeyIndex {
					continue
				}
				known := false
				for _, cc := range candsAll {
					for _, r2 := range relaysim.Resolve(w, cc, v).Relays {
						for _, dt := range []time.Duration{0, -time.Second, time.Second} {
							m := &relaysim.RegRec{Fee: relaysim.FeeAddr(r2.Fee), Gas: r2.Gas, Timestamp: SimEpoch.Add(q.T + dt).Round(time.Second), PubKey: v.PubKey}
							root := m.Root()
							sd := &phase0.SigningData{ObjectRoot: root, Domain: domain}
							sroot, _ := sd.HashTreeRoot()
							if string(q.Data) == string(root[:]) || string(q.Data) == string(sroot[:]) {
								known = true
							}
						}
					}
				}
				if !known {
					return true
				}
			}
			return false
		}
		if firstSub >= 0 {
			windowEnd = firstSub
		}
		for _, p := range SortedKeys(subsTo) {
			if n := subsTo[p]; n > 1 {
				report(Viol("C11/duplicate-submission", "%s received %d submissions in one round", p, n))
			}
		}
		cands := w.Source.InForce(rd.T, windowEnd)
		candsAll = cands
		if len(cands) > 1 {
			out.Probes["round-overlaps-refresh"]++
		}
		// is some active validator unresolvable under every candidate?  (then vouch is known to give up the round)
		blocked := false
		for _, v := range w.Vals {
			if !w.ActiveAt(v, rd.Epoch) {
				continue
			}
			for _, c := range cands {
				if relaysim.Resolve(w, c, v).Unspec {
					blocked = true
				}
			}
		}
		if blocked {
			out.Probes["round-with-unresolvable-validator"]++
		}
		out.Probes["rounds-judged"]++
		anyExpected := false
		for _, v := range w.Vals {
			mine := func(evs []regEvent) []regEvent {
				var m []regEvent
				for _, e := range evs {
					if e.reg.PubKey == v.PubKey {
						m = append(m, e)
					}
				}
				return m
			}
			got := mine(evs)
			if !w.ActiveAt(v, rd.Epoch) {
				out.Probes["validator-not-active-in-asked-epoch"]++
				if len(got) > 0 {
					report(Viol("C11/registration-for-inactive-validator", "round %d (epoch %d): %s is not a validating account of that epoch but was registered with %s", ri, rd.Epoch, v.Name, got[0].party))
				}
				continue
			}
			// the validator's settings come from one of the candidate configurations
			var problems []*simrt.Violation
			okCand := false
			for _, c := range cands {
				ref := relaysim.Resolve(w, c, v)
				if ref.Unspec {
					okCand = true // a validator whose settings cannot be resolved: nothing is demanded for it
					break
				}
				var prob *simrt.Violation
				seen := map[int]bool{}
				for _, e := range got {
					rr := ref.Relays[e.relay]
					switch {
					case rr == nil:
						prob = Viol("C11/registration-to-unconfigured-relay", "round %d: %s registered with relay %d which is not in its resolved settings %v", ri, v.Name, e.relay, ref.RelayList())
					case seen[e.relay]:
						prob = Viol("C11/duplicate-registration", "round %d: %s twice in the list for relay %d", ri, v.Name, e.relay)
					case relaysim.FeeIndex(e.reg.Fee) != rr.Fee:
						prob = Viol("C11/wrong-fee-recipient", "round %d: relay %d was told fee recipient %d for %s, resolved %d", ri, e.relay, relaysim.FeeIndex(e.reg.Fee), v.Name, rr.Fee)
					case e.reg.Gas != rr.Gas:
						prob = Viol("C11/wrong-gas-limit", "round %d: relay %d was told gas limit %d for %s, resolved %d", ri, e.relay, e.reg.Gas, v.Name, rr.Gas)
					}
					seen[e.relay] = true
					if prob != nil {
						break
					}
				}
				if prob == nil {
					for _, n := range ref.RelayList() {
						if !seen[n] && domainFailed {
							out.Probes["relay-excused-domain-request-failed"]++
							continue
						}
						if !seen[n] && signerFailed[v.KeyIndex] && excused(v, ref.Relays[n]) {
							out.Probes["relay-excused-signature-failed"]++
							continue
						}
						if !seen[n] {
							kind := "C11/registration-missing"
							if blocked {
								kind = "C11/unresolvable-validator-blocks-others"
							}
							prob = Viol(kind, "round %d at %v (epoch %d): relay %d received no registration for %s (resolved relays %v; %d submissions in the round)", ri, rd.T, rd.Epoch, n, v.Name, ref.RelayList(), len(subsTo))
							break
						}
					}
				}
				if prob == nil {
					okCand = true
					if len(ref.Relays) > 0 {
						anyExpected = true
						out.Probes["validator-relay-pairs-checked"] += len(ref.Relays)
					}
					// secondary nodes: content of what they were given for this validator
					for _, e := range mine(secEvs) {
						match := false
						for _, rr := range ref.Relays {
							if relaysim.FeeIndex(e.reg.Fee) == rr.Fee && e.reg.Gas == rr.Gas {
								match = true
							}
						}
						if !match {
							prob = Viol("C11/secondary-wrong-content", "round %d: %s was given (fee %d, gas %d) for %s which is none of its relay settings", ri, e.party, relaysim.FeeIndex(e.reg.Fee), e.reg.Gas, v.Name)
						}
					}
					if prob == nil && len(ref.Relays) > 0 && !signerFailed[v.KeyIndex] && !domainFailed {
						for _, n := range w.Secondary {
							found := false
							for _, e := range mine(secEvs) {
								found = found || e.party == n.Party
							}
							if !found {
								kind := "C11/secondary-registration-missing"
								if blocked {
									kind = "C11/unresolvable-validator-blocks-others"
								}
								prob = Viol(kind, "round %d: secondary node %s received no registration for %s", ri, n.Party, v.Name)
							}
						}
					}
					if prob != nil {
						okCand = false
					}
				}
				if okCand {
					break
				}
				problems = append(problems, prob)
			}
			if !okCand {
				report(problems[0])
				continue
			}
			if signerFailed[v.KeyIndex] {
				out.Probes["validator-with-signer-failure"]++
			}
			// signatures and reuse
			for _, e := range append(got, mine(secEvs)...) {
				r := e.reg
				if !verify(v, &r) {
					report(Viol("C11/bad-signature", "round %d: registration of %s delivered to %s is not signed by that validator over (fee %d, gas %d, timestamp %v)", ri, v.Name, e.party, relaysim.FeeIndex(r.Fee), r.Gas, r.Timestamp.Unix()))
					continue
				}
				if e.relay < 0 {
					continue
				}
				q := reqBySig[string(r.Sig[:])]
				key := fmt.Sprintf("%s/%d", e.party, v.N)
				prev, had := last[key]
				if q != nil && q.Step < rd.Step {
					// reuse of an earlier signature: acceptable because its content equals the
					// currently resolved one (checked above); see the timestamp rule below
					out.Probes["signature-reused"]++
					if had && (prev.fee != r.Fee || prev.gas != r.Gas) {
						out.Probes["signature-reused-after-change-for-that-relay"]++
					}
				} else {
					out.Probes["signature-fresh"]++
				}
				// builder specification, process_registration: a relay refuses a registration
				// older than the latest it has for the validator.  Re-sending a registration
				// signed before a change (A, B, then the old A again) is such a case.
				if had && r.Timestamp.Before(prev.ts) {
					report(Viol("C11/stale-registration-resent", "round %d: relay %d received for %s a registration with timestamp %d after one with %d (signed at %v): the relay will refuse it and keep the outdated settings", ri, e.relay, v.Name, r.Timestamp.Unix(), prev.ts.Unix(), signedAt(q)))
				}
				last[key] = lastDelivery{r.Fee, r.Gas, r.Timestamp}
			}
		}
		if anyExpected {
			out.Nontrivial = true
		}
		// faults that fired inside this round
		for _, rl := range w.Relays {
			for _, s := range rl.Subs {
				if _, fw := forwardedCall(s); fw {
					continue
				}
				if in(s.Step) && !s.OK {
					out.Probes["round-with-failing-relay"]++
					if s.EndT == 0 || s.EndT-s.T > 2*time.Second {
						out.Probes["round-with-hanging-relay"]++
					}
				}
			}
		}
	}

	// Registrations made elsewhere and handed to the builder endpoint.  Vouch may pass them on; but what a relay is
	// told about one of vouch's own validators that is about to be active must be what the configuration says
	// for that relay, signed by that validator - whoever made the registration that is passed on.  (Nothing is
	// demanded for validators vouch does not manage, nor on how quickly anything is passed on.)
	for _, f := range fwds {
		if f.callT >= stopT-time.Millisecond {
			continue
		}
		out.Probes["builder-endpoint-calls"]++
		// Which validators does vouch know to be its own and about to be active?  Those of the answer to the
		// latest registration round's question "who validates in epoch E" that it received - provided that round
		// was over with preparing its registrations when the call came (same instant: order unknown).
		var known *relaysim.AccountsCall
		ambiguous := false
		for i := range rounds {
			rd := &rounds[i]
			if rd.T > f.callT {
				break
			}
			if rd.T == f.callT {
				ambiguous = true
				break
			}
			anyActive := false
			for _, v := range w.Vals {
				anyActive = anyActive || w.ActiveAt(v, rd.Epoch)
			}
			if rd.Err || !anyActive {
				continue // vouch learned nothing from this round
			}
			known = rd
			// the round's signing requests: all made at an earlier instant than the call?
			endStep := int(^uint(0) >> 1)
			if i+1 < len(rounds) {
				endStep = rounds[i+1].Step
			}
			ambiguous = false
			for _, q := range reqs {
				if q.Step >= rd.Step && q.Step < endStep && q.T >= f.callT {
					ambiguous = true
				}
			}
			for _, c := range w.Script.CallsOf("chain", "GenesisDomain") {
				if c.Step >= rd.Step && c.Step < endStep && (c.T >= f.callT || c.EndT >= f.callT) {
					ambiguous = true
				}
			}
			for _, c := range w.Script.CallsOf("accounts", "ValidatingAccountsForEpoch/register") {
				if c.Step >= rd.Step && c.Step < endStep && c.EndT >= f.callT {
					ambiguous = true
				}
			}
		}
		if ambiguous {
			out.Probes["builder-endpoint-call-at-the-instant-of-a-round"]++
			continue
		}
		if known == nil {
			out.Probes["builder-endpoint-call-before-any-round"]++
			continue
		}
		own := func(pk phase0.BLSPubKey) *relaysim.Val {
			if v := w.ValByPub(pk); v != nil && w.ActiveAt(v, known.Epoch) {
				return v
			}
			return nil
		}
		handed := map[int]bool{}
		for _, g := range f.regs {
			if v := own(g.PubKey); v != nil {
				handed[v.N] = true
			}
		}
		if len(handed) > 0 {
			out.Probes["builder-endpoint-call-with-own-validator"]++
			if pl.FaultVal >= 0 && handed[pl.FaultVal] && f.callT >= pl.FaultFrom && f.callT < pl.FaultTo {
				out.Probes["builder-endpoint-call-for-validator-whose-signer-fails"]++
			}
		}
		for _, rl := range w.Relays {
			for _, s := range rl.Subs {
				if n, fw := forwardedCall(s); !fw || n != f.idx {
					continue
				}
				out.Probes["relay-submissions-passed-on"]++
				cands := w.Source.InForce(f.callT, s.T)
				for i := range s.Regs {
					g := &s.Regs[i]
					v := own(g.PubKey)
					if v == nil {
						out.Probes["registration-passed-on"]++
						continue
					}
					var prob *simrt.Violation
					for _, c := range cands {
						ref := relaysim.Resolve(w, c, v)
						rr := ref.Relays[rl.N]
						prob = nil
						switch {
						case ref.Unspec:
						case rr == nil:
							prob = Viol("C11/passed-on-registration-to-unconfigured-relay", "builder endpoint call at %v: relay %d received a registration for vouch's validator %s (fee %d, gas %d) though it is not in that validator's resolved settings %v", f.callT, rl.N, v.Name, relaysim.FeeIndex(g.Fee), g.Gas, ref.RelayList())
						case relaysim.FeeIndex(g.Fee) != rr.Fee:
							prob = Viol("C11/passed-on-registration-wrong-fee-recipient", "builder endpoint call at %v: relay %d was told fee recipient %d for vouch's validator %s (about to be active in epoch %d), resolved %d", f.callT, rl.N, relaysim.FeeIndex(g.Fee), v.Name, known.Epoch, rr.Fee)
						case g.Gas != rr.Gas:
							prob = Viol("C11/passed-on-registration-wrong-gas-limit", "builder endpoint call at %v: relay %d was told gas limit %d for vouch's validator %s (about to be active in epoch %d), resolved %d", f.callT, rl.N, g.Gas, v.Name, known.Epoch, rr.Gas)
						case !verify(v, g):
							prob = Viol("C11/passed-on-registration-bad-signature", "builder endpoint call at %v: relay %d received for vouch's validator %s a registration (fee %d, gas %d) that validator did not sign", f.callT, rl.N, v.Name, relaysim.FeeIndex(g.Fee), g.Gas)
						}
						if prob == nil {
							break
						}
					}
					if prob != nil {
						report(prob)
					}
				}
			}
		}
	}

	// proposal preparations
	used := map[*relaysim.PrepRec]bool{}
	for pi, pc := range preps {
		if pc.callT >= stopT-time.Millisecond || pc.retStep == 0 {
			continue
		}
		if pc.err != nil {
			report(Viol("C11/preparation-call-failed", "UpdatePreparations at %v: %v", pc.callT, pc.err))
			continue
		}
		epoch := w.EpochAt(pc.callT) + 1
		cands := w.Source.InForce(pc.callT, pc.retT)
		// each validator's settings are looked up separately, so with a refresh at the
		// same instant different validators may legitimately see different configurations
		expect := func(rec *relaysim.PrepRec) string {
			n := 0
			for _, v := range w.Vals {
				fee, present := rec.Fees[v.Index]
				if !w.ActiveAt(v, epoch) {
					if present {
						return fmt.Sprintf("%s is not validating in epoch %d", v.Name, epoch)
					}
					continue
				}
				if present {
					n++
				}
				ok, why := false, ""
				for _, c := range cands {
					ref := relaysim.Resolve(w, c, v)
					switch {
					case ref.Unspec:
						ok = true // settings cannot be resolved: present or absent
					case !present:
						why = fmt.Sprintf("no preparation for %s (index %d)", v.Name, v.Index)
					case relaysim.FeeIndex(fee) != ref.Fee:
						why = fmt.Sprintf("%s: fee recipient %d, resolved %d", v.Name, relaysim.FeeIndex(fee), ref.Fee)
					default:
						ok = true
					}
					if ok {
						break
					}
				}
				if !ok {
					return why
				}
			}
			if n != len(rec.Fees) {
				return "preparations for unknown validator indices"
			}
			if rec.Dup {
				return "a validator index twice"
			}
			return ""
		}
		anyActive := false
		for _, v := range w.Vals {
			anyActive = anyActive || w.ActiveAt(v, epoch)
		}
		if !anyActive {
			continue
		}
		for _, n := range w.PrepNodes {
			// the call this invocation caused at node n (the stub reads the invocation from the context)
			var mine []*relaysim.PrepRec
			for _, rec := range n.Preps {
				if rec.Tag == any(pc) {
					mine = append(mine, rec)
					used[rec] = true
				}
			}
			switch {
			case len(mine) == 0 && behindHang(w, n, pc.callT, stopT):
				out.Probes["preparation-behind-hanging-node"]++
			case len(mine) == 0:
				report(Viol("C11/preparation-missing", "UpdatePreparations #%d at %v (epoch %d): node %s received nothing", pi, pc.callT, epoch, n.Party))
			case len(mine) > 1:
				report(Viol("C11/preparation-duplicate", "UpdatePreparations #%d at %v: node %s received %d calls", pi, pc.callT, n.Party, len(mine)))
			default:
				if reason := expect(mine[0]); reason != "" {
					report(Viol("C11/preparation-wrong", "UpdatePreparations #%d at %v (epoch %d, %d candidate configurations): node %s was given %s: %s", pi, pc.callT, epoch, len(cands), n.Party, feeList(mine[0]), reason))
				} else {
					out.Probes["preparations-checked"]++
				}
			}
		}
	}
	for _, n := range w.PrepNodes {
		for _, rec := range n.Preps {
			if !used[rec] && rec.Tag == nil {
				report(Viol("C11/preparation-unexplained", "node %s received a preparation call at %v that belongs to no UpdatePreparations invocation: %v", n.Party, rec.T, feeList(rec)))
			}
		}
	}
	if firstNew != nil {
		return firstNew
	}
	return first
}

// behindHang: the nodes are told one after the other; a node after one that
// hangs (no answer for two minutes) is told late, possibly after the run ends.
func behindHang(w *relaysim.World, n *relaysim.Node, callT, stopT time.Duration) bool {
	for _, m := range w.PrepNodes {
		if m == n {
			return false
		}
		for _, rec := range m.Preps {
			if rec.T >= callT && !rec.OK && (rec.EndT == 0 || rec.EndT-rec.T >= ClientTimeout || rec.EndT >= stopT) && rec.EndT-rec.T > time.Second {
				return true
			}
		}
	}
	return false
}

func signedAt(q *SignReq) string {
	if q == nil {
		return "unknown"
	}
	return q.T.String()
}

func feeList(rec *relaysim.PrepRec) string {
	var s []string
	for i, f := range rec.Fees {
		s = append(s, fmt.Sprintf("%d->%d", i, relaysim.FeeIndex(f)))
	}
	sort.Strings(s)
	return strings.Join(s, ",")
}

var _ = phase0.Slot(0)

func init() {
	sim.Register(&sim.Scenario{Property: "C11", Name: "registration-rounds", Gen: gen, Exec: exec})
}
