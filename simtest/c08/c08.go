package c08

import (
	"context"
	"errors"
	"fmt"
	"slices"
	"sort"
	"strings"
	"time"

	eth2client "github.com/attestantio/go-eth2-client"
	"github.com/attestantio/go-eth2-client/api"
	apiv1 "github.com/attestantio/go-eth2-client/api/v1"
	apiv1deneb "github.com/attestantio/go-eth2-client/api/v1/deneb"
	"github.com/attestantio/go-eth2-client/spec"
	"github.com/attestantio/go-eth2-client/spec/altair"
	"github.com/attestantio/go-eth2-client/spec/deneb"
	"github.com/attestantio/go-eth2-client/spec/phase0"
	nullmetrics "github.com/attestantio/vouch/services/metrics/null"
	"github.com/attestantio/vouch/services/submitter/immediate"
	"github.com/attestantio/vouch/services/submitter/multinode"
	"github.com/rs/zerolog"

	"verif/sim"
	"verif/simrt"
	. "verif/simtest/env"
)

// C08 — a submission reaches every configured node and succeeds iff one accepts.
//
// Real code: services/submitter/multinode (all eight kinds), util.Scatter,
// services/submitter/immediate.  Stubs: 1..5 beacon nodes implementing the
// eight go-eth2-client submitter interfaces plus Service and
// NodeVersionProvider (that is what multinode's serviceInfo looks at).
// Oracle: see c08Oracle; it judges what the nodes were offered, what they
// answered and when, what the call returned and when.

// ---------------------------------------------------------------------------
// Submission kinds

var c08Kinds = []string{
	"attestations", "proposal", "aggregate-attestations", "sync-committee-messages",
	"sync-committee-contributions", "beacon-committee-subscriptions", "sync-committee-subscriptions", "proposal-preparations",
}

// what go-eth2-client's http package puts in front of the api.Error, and the endpoint
var c08Prefix = map[string][2]string{
	"attestations":                   {"failed to submit beacon attestations", "/eth/v1/beacon/pool/attestations"},
	"proposal":                       {"failed to submit proposal", "/eth/v2/beacon/blocks"},
	"aggregate-attestations":         {"failed to submit aggregate and proofs", "/eth/v1/validator/aggregate_and_proofs"},
	"sync-committee-messages":        {"failed to submit sync committee messages", "/eth/v1/beacon/pool/sync_committees"},
	"sync-committee-contributions":   {"failed to submit contribution and proofs", "/eth/v1/validator/contribution_and_proofs"},
	"beacon-committee-subscriptions": {"failed to request beacon committee subscriptions", "/eth/v1/validator/beacon_committee_subscriptions"},
	"sync-committee-subscriptions":   {"failed to request sync committee subscriptions", "/eth/v1/validator/sync_committee_subscriptions"},
	"proposal-preparations":          {"failed to send proposal preparations", "/eth/v1/validator/prepare_beacon_proposer"},
}

// Node version strings as the clients report them.
var c08Versions = map[string]string{
	"lighthouse": "Lighthouse/v5.3.0-d6ba8c3/x86_64-linux",
	"teku":       "teku/v24.8.0/linux-x86_64/-eclipseadoptium-openjdk64bitservervm-java-21",
	"nimbus":     "Nimbus/v24.7.0-99f657-stateofus",
	"prysm":      "Prysm/v5.1.0 (linux amd64)",
	"lodestar":   "Lodestar/v1.21.0/e1bc928",
	"unknown":    "Grandine/0.4.1-1a2b3c4/x86_64-linux",
}
var c08Clients = []string{"lighthouse", "teku", "nimbus", "prysm", "lodestar", "unknown"}

// ---------------------------------------------------------------------------
// Rejections

// A rejection variant: what the node says, in which client's dialect, and what it means.
type c08Rej struct {
	Name    string
	Dialect string // "" = any client says this
	// Class: "plain" (no structured reason), "nofail" (JSON error without a failure list),
	// "real" (failure list, every item a real error), "mixed" (duplicates and real errors),
	// "dup" (only items Vouch's source says it tolerates: duplicate / node behind), "malformed", "transport"
	Class  string
	Reason string // for "dup": "duplicate" or "behind"
}

var c08Rejs = []c08Rej{
	{Name: "plain-text-400", Class: "plain"},
	{Name: "empty-500", Class: "plain"},
	{Name: "json-syncing-503", Class: "nofail"},
	{Name: "json-internal-500", Class: "nofail"},
	{Name: "lighthouse-duplicate", Dialect: "lighthouse", Class: "dup", Reason: "duplicate"},
	{Name: "lighthouse-behind", Dialect: "lighthouse", Class: "dup", Reason: "behind"},
	{Name: "nimbus-behind", Dialect: "nimbus", Class: "dup", Reason: "behind"},
	{Name: "teku-duplicate", Dialect: "teku", Class: "dup", Reason: "duplicate"},
	{Name: "lighthouse-mixed", Dialect: "lighthouse", Class: "mixed"},
	{Name: "teku-mixed", Dialect: "teku", Class: "mixed"},
	{Name: "lighthouse-real", Dialect: "lighthouse", Class: "real"},
	{Name: "teku-real", Dialect: "teku", Class: "real"},
	{Name: "teku-json-syncing-503", Dialect: "teku", Class: "nofail"},
	{Name: "malformed-json", Class: "malformed"},
	{Name: "transport", Class: "transport"},
}

// c08OddBodies: well-formed or broken JSON a node may put into an error response, of shapes vouch's error
// classifiers do not expect.  Only the crash-only variant of the scenarios (C16) uses them: the entries are
// appended to c08Rejs with class "oddbody" (Reason holds the body) and never drawn by the C08 generator.
var c08OddBodies = []string{
	`{"failures":[null]}`,
	`{"code":400,"message":"x","failures":[null,{"index":0,"message":"Verification: PriorSyncCommitteeMessageKnown"}]}`,
	`{"code":400,"message":"x","failures":[{"index":0,"message":"Ignoring sync committee message as a duplicate was processed during validation"},null]}`,
	`{"failures":[null,{"index":0,"message":"Verification: PriorAttestationKnown"}]}`,
	`{"failures":[{"index":0,"message":"UnknownHeadBlock"},null]}`,
	`{"failures":[null,{"index":0,"message":"Verification: AggregatorAlreadyKnown"}]}`,
	`{"failures":null}`,
	`{"failures":[{}]}`,
	`{"failures":[{"index":-1,"message":null}]}`,
	`{"failures":"all"}`,
	`{`,
	`}{`,
	`{"code":null}`,
	`[]`,
	`null`,
	`rejected { see log`,
	`{"failures":[{"index":99999999999999999999,"message":"x"}]}`,
}

var c08NNormalRejs = len(c08Rejs)

func init() {
	for i, b := range c08OddBodies {
		c08Rejs = append(c08Rejs, c08Rej{Name: fmt.Sprintf("odd-body-%d", i), Class: "oddbody", Reason: b})
	}
}

// c08Documented lists, per submission kind and client, the rejection reasons
// Vouch's source says it deliberately ignores (the comments in
// submitattestations.go handleAttestationsError, and the trace messages in
// submitsynccommitteemessages.go / submitsynccommitteecontributions.go).
var c08Documented = map[string]map[string][]string{
	"attestations":                 {"lighthouse": {"duplicate", "behind"}, "nimbus": {"behind"}},
	"sync-committee-messages":      {"lighthouse": {"duplicate"}, "teku": {"duplicate"}},
	"sync-committee-contributions": {"lighthouse": {"duplicate"}},
}

// c08Expect says how a rejection rej of a kind submission by a node of the given client is to be judged:
// "tolerated", "rejected", or "dontcare" (a tolerated text in another client's dialect: the statement does not say).
func c08Expect(kind, client string, rej c08Rej) string {
	if rej.Class != "dup" {
		return "rejected"
	}
	ok := false
	for _, r := range c08Documented[kind][rej.Dialect] {
		if r == rej.Reason {
			ok = true
		}
	}
	if !ok {
		return "rejected"
	}
	if rej.Dialect != client {
		return "dontcare"
	}
	return "tolerated"
}

func c08DupText(kind, dialect, reason string, i int) string {
	switch dialect {
	case "lighthouse":
		if reason == "behind" {
			return "UnknownHeadBlock { beacon_block_root: 0x2222222222222222222222222222222222222222222222222222222222222222 }"
		}
		switch kind {
		case "sync-committee-messages":
			return fmt.Sprintf("Verification: PriorSyncCommitteeMessageKnown { validator_index: %d, slot: Slot(77) }", 100+i)
		case "sync-committee-contributions":
			return fmt.Sprintf("Verification: AggregatorAlreadyKnown(%d)", 100+i)
		}
		return fmt.Sprintf("PriorAttestationKnown { validator_index: %d, epoch: Epoch(9) }", 100+i)
	case "nimbus":
		return "Attempt to send attestation for unknown target"
	case "teku":
		return "Ignoring sync committee message as a duplicate was processed during validation"
	}
	return "duplicate"
}

func c08FailList(dialect string, msgs []string) string {
	var items []string
	for i, m := range msgs {
		if dialect == "teku" {
			items = append(items, fmt.Sprintf(`{"index":"%d","message":%q}`, i, m))
		} else {
			items = append(items, fmt.Sprintf(`{"index":%d,"message":%q}`, i, m))
		}
	}
	switch dialect {
	case "teku":
		return `{"code":"400","message":"Some items failed to publish, refer to errors for details","failures":[` + strings.Join(items, ",") + `]}`
	case "nimbus":
		return `{"code":400,"message":"Some failures happened","failures":[` + strings.Join(items, ",") + `]}`
	}
	return `{"code":400,"message":"BAD_REQUEST: error processing request","failures":[` + strings.Join(items, ",") + `]}`
}

// c08Error renders rejection rej of a kind submission of n items the way go-eth2-client v0.21.11 does.
func c08Error(kind string, rej c08Rej, n int) error {
	pre := c08Prefix[kind]
	status := 400
	var body string
	real := "Verification: InvalidSignature"
	if rej.Dialect == "teku" {
		real = "Invalid signature"
	}
	switch rej.Class {
	case "plain":
		if rej.Name == "empty-500" {
			status = 500
		} else {
			body = "Bad Request: unable to parse body"
		}
	case "nofail":
		if rej.Name == "teku-json-syncing-503" {
			status, body = 503, `{"code":"503","message":"Beacon node is currently syncing and not serving request on that endpoint"}`
		} else if rej.Name == "json-syncing-503" {
			status, body = 503, `{"code":503,"message":"Beacon node is currently syncing and not serving request on that endpoint"}`
		} else {
			status, body = 500, `{"code":500,"message":"INTERNAL_SERVER_ERROR: channel closed","stacktraces":[]}`
		}
	case "dup":
		var msgs []string
		for i := 0; i < min(n, 2); i++ {
			msgs = append(msgs, c08DupText(kind, rej.Dialect, rej.Reason, i))
		}
		body = c08FailList(rej.Dialect, msgs)
	case "mixed":
		body = c08FailList(rej.Dialect, []string{c08DupText(kind, rej.Dialect, "duplicate", 0), real})
	case "real":
		body = c08FailList(rej.Dialect, []string{real})
	case "oddbody":
		body = rej.Reason
	case "malformed":
		body = `{"code":400,"message":"BAD_REQUEST: trunc`
	case "transport":
		return errors.Join(errors.New(pre[0]), errors.Join(errors.New("failed to call POST endpoint"), errors.New(`Post "http://bn:5052`+pre[1]+`": read tcp 10.0.0.1:41234->10.0.0.2:5052: read: connection reset by peer`)))
	}
	return errors.Join(errors.New(pre[0]), &api.Error{Method: "POST", Endpoint: pre[1], StatusCode: status, Data: []byte(body)})
}

// ---------------------------------------------------------------------------
// Plan

type c08Beh struct {
	Lat time.Duration `json:"lat"`
	Act string        `json:"act"` // accept | reject | hang
	Rej int           `json:"rej,omitempty"`
}

type c08Over struct {
	Call int    `json:"call"` // the node's n-th call (chunk) gets this behaviour instead
	Beh  c08Beh `json:"beh"`
}

type c08NodePlan struct {
	Client string    `json:"client"`
	Base   c08Beh    `json:"base"`
	Over   []c08Over `json:"over,omitempty"`
}

type c08Plan struct {
	Kind      string        `json:"kind"`
	Immediate bool          `json:"immediate,omitempty"`
	Size      int           `json:"size"`
	Conc      int           `json:"concurrency"`
	Timeout   time.Duration `json:"timeout"`
	Nodes     []c08NodePlan `json:"nodes"`
	CancelAt  time.Duration `json:"cancel_at,omitempty"` // caller's context is cancelled this long after the call (0: never)
	// Prelude: earlier submissions on the same service instance (one element each), in which the nodes
	// marked in PreludeHang do not answer; the judged submission follows Gap after the last of them returned.
	Prelude     []string      `json:"prelude,omitempty"`
	PreludeHang []bool        `json:"prelude_hang,omitempty"`
	Gap         time.Duration `json:"gap,omitempty"`
	// VersionHangs: a node that does not answer submissions does not answer the version query either
	// (it is only served from the client library's cache after a first success).
	VersionHangs bool `json:"version_hangs,omitempty"`
}

var c08Timeouts = []time.Duration{100 * time.Millisecond, time.Second, 2 * time.Second, 5 * time.Second}

func c08Lat(p *simrt.Tape, t time.Duration) time.Duration {
	l := []time.Duration{0, 0, 0, 1, t / 2, t - 1, t, t, t + 1, t + time.Second}
	return l[p.Pick(len(l))]
}

func c08GenBeh(p *simrt.Tape, client string, t time.Duration) c08Beh {
	b := c08Beh{Lat: c08Lat(p, t)}
	switch r := p.Pick(100); {
	case r < 35:
		b.Act = "accept"
	case r < 45:
		b.Act = "hang"
		b.Lat = 0
	default:
		b.Act = "reject"
		b.Rej = p.Pick(c08NNormalRejs)
		if p.Pct(60) {
			// prefer what this client would say
			var own []int
			for i, r := range c08Rejs[:c08NNormalRejs] {
				if r.Dialect == client || r.Dialect == "" {
					own = append(own, i)
				}
			}
			if len(own) > 0 {
				b.Rej = own[p.Pick(len(own))]
			}
		}
	}
	return b
}

func c08Gen(kind string, imm bool) func(p *simrt.Tape) any {
	return func(p *simrt.Tape) any {
		pl := &c08Plan{Kind: kind, Immediate: imm}
		if imm {
			pl.Kind = c08Kinds[p.Pick(len(c08Kinds))]
		}
		pl.Timeout = c08Timeouts[p.Pick(len(c08Timeouts))]
		pl.Size = []int{1, 1, 2, 3, 5, 7, 8, 9, 16, 17, 31, 39, 40}[p.Pick(13)]
		if p.Pct(30) {
			pl.Size = p.Range(1, 40)
		}
		if pl.Kind == "proposal" {
			pl.Size = 1
		}
		pl.Conc = p.Range(1, 8)
		nn := p.Range(1, 5)
		if imm {
			nn = 1
		} else if p.Pct(70) && nn > pl.Conc {
			pl.Conc = nn // mostly: concurrency not below the number of nodes
		}
		for i := 0; i < nn; i++ {
			n := c08NodePlan{Client: c08Clients[p.Pick(len(c08Clients))]}
			n.Base = c08GenBeh(p, n.Client, pl.Timeout)
			if pl.Kind == "attestations" && !imm && pl.Size > 1 && p.Pct(25) {
				n.Over = append(n.Over, c08Over{Call: p.Pick(min(pl.Size, 8)), Beh: c08GenBeh(p, n.Client, pl.Timeout)})
			}
			pl.Nodes = append(pl.Nodes, n)
		}
		if !imm && p.Pct(30) {
			pl.VersionHangs = true
		}
		if !imm && pl.Conc >= nn && nn > 1 && p.Pct(25) {
			for i, n := 0, p.Range(1, 3); i < n; i++ {
				pl.Prelude = append(pl.Prelude, c08Kinds[p.Pick(len(c08Kinds))])
			}
			for i := 0; i < nn; i++ {
				pl.PreludeHang = append(pl.PreludeHang, p.Pct(60))
			}
			pl.PreludeHang[p.Pick(nn)] = false // somebody accepts, so that the prelude returns at once
			pl.Gap = []time.Duration{0, time.Millisecond, pl.Timeout / 2}[p.Pick(3)]
		}
		if !p.Pct(92) {
			// never equal to a node latency, so that "answer or cancellation first" is not a tie
			pl.CancelAt = []time.Duration{2, pl.Timeout/4 + 3, pl.Timeout - 5}[p.Pick(3)]
		}
		return pl
	}
}

// ---------------------------------------------------------------------------
// Stub node

type c08Call struct {
	node               int
	idx                int   // the node's n-th call
	ids                []int // payload element numbers offered, in order (-1: not an element of the payload)
	startT, endT       time.Duration
	startStep, endStep int
	done               bool
	verdict            string // accept | tolerated | rejected | dontcare | failed (hang, cancellation)
	class              string // rejection class
}

type c08Run struct {
	pl      *c08Plan
	script  *Script
	ids     map[any]int
	calls   []*c08Call
	counts  []int
	version []int
}

type c08Node struct {
	rt     *c08Run
	idx    int
	name   string
	client string
}

func (n *c08Node) Name() string    { return "sim" }
func (n *c08Node) Address() string { return n.name }
func (n *c08Node) IsActive() bool  { return true }
func (n *c08Node) IsSynced() bool  { return true }

func (n *c08Node) NodeVersion(ctx context.Context, _ *api.NodeVersionOpts) (*api.Response[string], error) {
	// normally served from the client library's cache: no latency, no failure
	simrt.Yield(n.name + "/NodeVersion")
	simrt.Crit(func() { n.rt.version[n.idx]++ })
	if np := n.rt.pl.Nodes[n.idx]; n.rt.pl.VersionHangs && np.Base.Act == "hang" && len(np.Over) == 0 {
		simrt.Probe("fault:version-query-hangs")
		if err := simrt.Sleep(ctx, ClientTimeout, n.name+"/NodeVersion"); err != nil {
			return nil, err
		}
		return nil, errors.New("version query timed out")
	}
	return &api.Response[string]{Data: c08Versions[n.client], Metadata: map[string]any{}}, nil
}

func (n *c08Node) idsOf(count int, at func(i int) any) []int {
	out := make([]int, count)
	for i := range out {
		id, ok := n.rt.ids[at(i)]
		if !ok {
			id = -1
		}
		out[i] = id
	}
	return out
}

func (n *c08Node) submit(ctx context.Context, ids []int) error {
	rt := n.rt
	prelude := len(ids) > 0
	for _, id := range ids {
		if id >= 0 {
			prelude = false
		}
	}
	if prelude {
		// an element of an earlier submission (not recorded): answered at once, or not at all
		if n.idx < len(rt.pl.PreludeHang) && rt.pl.PreludeHang[n.idx] {
			simrt.Probe("fault:prelude-hang")
			if err := simrt.Sleep(ctx, ClientTimeout, n.name+"/prelude"); err != nil {
				return err
			}
			return errors.New("timed out")
		}
		simrt.Yield(n.name + "/prelude")
		return nil
	}
	c := &c08Call{node: n.idx, ids: ids, startT: simrt.Now(), startStep: simrt.Step()}
	simrt.Crit(func() {
		c.idx = rt.counts[n.idx]
		rt.counts[n.idx]++
		rt.calls = append(rt.calls, c)
	})
	o, err := rt.script.Do(ctx, n.name, "submit", nil)
	var ret error
	verdict, class := "accept", ""
	switch {
	case err != nil:
		ret, verdict = errors.Join(errors.New(c08Prefix[rt.pl.Kind][0]), errors.Join(errors.New("failed to call POST endpoint"), err)), "failed"
	case o.Kind == "odd":
		rej := c08Rejs[o.Variant]
		ret, verdict, class = c08Error(rt.pl.Kind, rej, len(ids)), c08Expect(rt.pl.Kind, n.client, rej), rej.Class
	}
	simrt.Crit(func() {
		c.endT, c.endStep, c.done, c.verdict, c.class = simrt.Now(), simrt.Step(), true, verdict, class
	})
	return ret
}

func (n *c08Node) SubmitAttestations(ctx context.Context, a []*phase0.Attestation) error {
	return n.submit(ctx, n.idsOf(len(a), func(i int) any { return a[i] }))
}
func (n *c08Node) SubmitProposal(ctx context.Context, opts *api.SubmitProposalOpts) error {
	return n.submit(ctx, n.idsOf(1, func(int) any { return opts.Proposal }))
}
func (n *c08Node) SubmitAggregateAttestations(ctx context.Context, a []*phase0.SignedAggregateAndProof) error {
	return n.submit(ctx, n.idsOf(len(a), func(i int) any { return a[i] }))
}
func (n *c08Node) SubmitSyncCommitteeMessages(ctx context.Context, a []*altair.SyncCommitteeMessage) error {
	return n.submit(ctx, n.idsOf(len(a), func(i int) any { return a[i] }))
}
func (n *c08Node) SubmitSyncCommitteeContributions(ctx context.Context, a []*altair.SignedContributionAndProof) error {
	return n.submit(ctx, n.idsOf(len(a), func(i int) any { return a[i] }))
}
func (n *c08Node) SubmitBeaconCommitteeSubscriptions(ctx context.Context, a []*apiv1.BeaconCommitteeSubscription) error {
	return n.submit(ctx, n.idsOf(len(a), func(i int) any { return a[i] }))
}
func (n *c08Node) SubmitSyncCommitteeSubscriptions(ctx context.Context, a []*apiv1.SyncCommitteeSubscription) error {
	return n.submit(ctx, n.idsOf(len(a), func(i int) any { return a[i] }))
}
func (n *c08Node) SubmitProposalPreparations(ctx context.Context, a []*apiv1.ProposalPreparation) error {
	return n.submit(ctx, n.idsOf(len(a), func(i int) any { return a[i] }))
}

var (
	_ eth2client.Service             = (*c08Node)(nil)
	_ eth2client.NodeVersionProvider = (*c08Node)(nil)
)

// ---------------------------------------------------------------------------
// Execution

type c08Submitter interface {
	SubmitAttestations(ctx context.Context, attestations []*phase0.Attestation) error
	SubmitProposal(ctx context.Context, proposal *api.VersionedSignedProposal) error
	SubmitAggregateAttestations(ctx context.Context, aggregateAttestations []*phase0.SignedAggregateAndProof) error
	SubmitSyncCommitteeMessages(ctx context.Context, messages []*altair.SyncCommitteeMessage) error
	SubmitSyncCommitteeContributions(ctx context.Context, contributionAndProofs []*altair.SignedContributionAndProof) error
	SubmitBeaconCommitteeSubscriptions(ctx context.Context, subscriptions []*apiv1.BeaconCommitteeSubscription) error
	SubmitSyncCommitteeSubscriptions(ctx context.Context, subscriptions []*apiv1.SyncCommitteeSubscription) error
	SubmitProposalPreparations(ctx context.Context, preparations []*apiv1.ProposalPreparation) error
}

// c08Call builds the payload of the plan's kind (registering every element in ids) and returns the call.
func c08Payload(kind string, size int, ids map[any]int) func(ctx context.Context, s c08Submitter) error {
	const slot = phase0.Slot(77)
	switch kind {
	case "attestations":
		var a []*phase0.Attestation
		for i := 0; i < size; i++ {
			x := &phase0.Attestation{AggregationBits: []byte{1}, Data: &phase0.AttestationData{Slot: slot, Index: phase0.CommitteeIndex(i), Source: &phase0.Checkpoint{}, Target: &phase0.Checkpoint{Epoch: 9}}}
			ids[x] = i
			a = append(a, x)
		}
		return func(ctx context.Context, s c08Submitter) error { return s.SubmitAttestations(ctx, a) }
	case "proposal":
		x := &api.VersionedSignedProposal{Version: spec.DataVersionDeneb, Deneb: &apiv1deneb.SignedBlockContents{SignedBlock: &deneb.SignedBeaconBlock{Message: &deneb.BeaconBlock{Slot: slot, Body: &deneb.BeaconBlockBody{}}}}}
		ids[x] = 0
		return func(ctx context.Context, s c08Submitter) error { return s.SubmitProposal(ctx, x) }
	case "aggregate-attestations":
		var a []*phase0.SignedAggregateAndProof
		for i := 0; i < size; i++ {
			x := &phase0.SignedAggregateAndProof{Message: &phase0.AggregateAndProof{AggregatorIndex: phase0.ValidatorIndex(i), Aggregate: &phase0.Attestation{Data: &phase0.AttestationData{Slot: slot}}}}
			ids[x] = i
			a = append(a, x)
		}
		return func(ctx context.Context, s c08Submitter) error { return s.SubmitAggregateAttestations(ctx, a) }
	case "sync-committee-messages":
		var a []*altair.SyncCommitteeMessage
		for i := 0; i < size; i++ {
			x := &altair.SyncCommitteeMessage{Slot: slot, ValidatorIndex: phase0.ValidatorIndex(i)}
			ids[x] = i
			a = append(a, x)
		}
		return func(ctx context.Context, s c08Submitter) error { return s.SubmitSyncCommitteeMessages(ctx, a) }
	case "sync-committee-contributions":
		var a []*altair.SignedContributionAndProof
		for i := 0; i < size; i++ {
			x := &altair.SignedContributionAndProof{Message: &altair.ContributionAndProof{AggregatorIndex: phase0.ValidatorIndex(i), Contribution: &altair.SyncCommitteeContribution{Slot: slot}}}
			ids[x] = i
			a = append(a, x)
		}
		return func(ctx context.Context, s c08Submitter) error { return s.SubmitSyncCommitteeContributions(ctx, a) }
	case "beacon-committee-subscriptions":
		var a []*apiv1.BeaconCommitteeSubscription
		for i := 0; i < size; i++ {
			x := &apiv1.BeaconCommitteeSubscription{ValidatorIndex: phase0.ValidatorIndex(i), Slot: slot, CommitteesAtSlot: 4}
			ids[x] = i
			a = append(a, x)
		}
		return func(ctx context.Context, s c08Submitter) error { return s.SubmitBeaconCommitteeSubscriptions(ctx, a) }
	case "sync-committee-subscriptions":
		var a []*apiv1.SyncCommitteeSubscription
		for i := 0; i < size; i++ {
			x := &apiv1.SyncCommitteeSubscription{ValidatorIndex: phase0.ValidatorIndex(i), SyncCommitteeIndices: []phase0.CommitteeIndex{1}, UntilEpoch: 12}
			ids[x] = i
			a = append(a, x)
		}
		return func(ctx context.Context, s c08Submitter) error { return s.SubmitSyncCommitteeSubscriptions(ctx, a) }
	case "proposal-preparations":
		var a []*apiv1.ProposalPreparation
		for i := 0; i < size; i++ {
			x := &apiv1.ProposalPreparation{ValidatorIndex: phase0.ValidatorIndex(i)}
			ids[x] = i
			a = append(a, x)
		}
		return func(ctx context.Context, s c08Submitter) error { return s.SubmitProposalPreparations(ctx, a) }
	}
	panic("unknown kind " + kind)
}

func c08Outcome(b c08Beh) Outcome {
	switch b.Act {
	case "hang":
		return Outcome{Kind: "hang"}
	case "reject":
		return Outcome{Latency: b.Lat, Kind: "odd", Variant: b.Rej}
	}
	return Outcome{Latency: b.Lat}
}

func c08Exec(plan any, sched *simrt.Tape) *sim.Outcome {
	pl := plan.(*c08Plan)
	out := &sim.Outcome{Probes: map[string]int{}, Sample: pl}
	rt := &c08Run{pl: pl, script: &Script{Outcomes: map[string][]Outcome{}}, ids: map[any]int{}, counts: make([]int, len(pl.Nodes)), version: make([]int, len(pl.Nodes))}
	nodes := make([]*c08Node, len(pl.Nodes))
	for i, np := range pl.Nodes {
		nodes[i] = &c08Node{rt: rt, idx: i, name: fmt.Sprintf("bn%d", i), client: np.Client}
		l := make([]Outcome, pl.Size+1) // a node is never called more often than there are elements
		for j := range l {
			l[j] = c08Outcome(np.Base)
		}
		for _, o := range np.Over {
			if o.Call < len(l) {
				l[o.Call] = c08Outcome(o.Beh)
			}
		}
		rt.script.Outcomes[nodes[i].name+"/submit"] = l
	}
	call := c08Payload(pl.Kind, pl.Size, rt.ids)

	var start, retT time.Duration
	var returned bool
	var result error
	var cancelled bool

	res := sim.Run(sched, 10*time.Minute, 60000, nil, func(ctx context.Context) {
		var svc c08Submitter
		if pl.Immediate {
			n := nodes[0]
			s, err := immediate.New(ctx,
				immediate.WithLogLevel(zerolog.Disabled), immediate.WithClientMonitor(nullmetrics.New()),
				immediate.WithAttestationsSubmitter(n), immediate.WithProposalSubmitter(n), immediate.WithAggregateAttestationsSubmitter(n),
				immediate.WithSyncCommitteeMessagesSubmitter(n), immediate.WithSyncCommitteeContributionsSubmitter(n),
				immediate.WithBeaconCommitteeSubscriptionsSubmitter(n), immediate.WithSyncCommitteeSubscriptionsSubmitter(n), immediate.WithProposalPreparationsSubmitter(n))
			if err != nil {
				panic(err)
			}
			svc = s
		} else {
			m1, m2, m3, m4 := map[string]eth2client.AttestationsSubmitter{}, map[string]eth2client.ProposalSubmitter{}, map[string]eth2client.AggregateAttestationsSubmitter{}, map[string]eth2client.SyncCommitteeMessagesSubmitter{}
			m5, m6, m7, m8 := map[string]eth2client.SyncCommitteeContributionsSubmitter{}, map[string]eth2client.BeaconCommitteeSubscriptionsSubmitter{}, map[string]eth2client.SyncCommitteeSubscriptionsSubmitter{}, map[string]eth2client.ProposalPreparationsSubmitter{}
			for _, n := range nodes {
				m1[n.name], m2[n.name], m3[n.name], m4[n.name], m5[n.name], m6[n.name], m7[n.name], m8[n.name] = n, n, n, n, n, n, n, n
			}
			s, err := multinode.New(ctx,
				multinode.WithLogLevel(zerolog.Disabled), multinode.WithClientMonitor(nullmetrics.New()),
				multinode.WithTimeout(pl.Timeout), multinode.WithProcessConcurrency(int64(pl.Conc)),
				multinode.WithAttestationsSubmitters(m1), multinode.WithProposalSubmitters(m2), multinode.WithAggregateAttestationsSubmitters(m3),
				multinode.WithSyncCommitteeMessagesSubmitters(m4), multinode.WithSyncCommitteeContributionsSubmitters(m5),
				multinode.WithBeaconCommitteeSubscriptionsSubmitters(m6), multinode.WithSyncCommitteeSubscriptionsSubmitters(m7), multinode.WithProposalPreparationsSubmitters(m8))
			if err != nil {
				panic(err)
			}
			svc = s
		}
		// the submission happens some way into the run, not at time zero
		simrt.Sleep(ctx, 3*time.Second, "c08/warmup")
		for _, k := range pl.Prelude {
			_ = c08Payload(k, 1, map[any]int{})(ctx, svc)
		}
		if len(pl.Prelude) > 0 {
			simrt.Sleep(ctx, pl.Gap, "c08/gap")
		}
		cctx, cancel := context.WithCancel(ctx)
		defer cancel()
		simrt.Go("caller", func() {
			simrt.Crit(func() { start = simrt.Now() })
			err := call(cctx, svc)
			simrt.Crit(func() { result, retT, returned = err, simrt.Now(), true })
			simrt.Yield("c08/returned")
		})
		if pl.CancelAt > 0 {
			simrt.Go("canceller", func() {
				simrt.Sleep(ctx, pl.CancelAt, "c08/cancelwait")
				simrt.Crit(func() { cancelled = true })
				cancel()
				simrt.Yield("c08/cancelled")
			})
		}
		// long enough for a hanging node to give up (client timeout) and everything to settle
		simrt.Sleep(ctx, pl.Timeout+ClientTimeout+10*time.Second, "c08/settle")
	})
	out.Res = res
	if res.Violation != nil {
		out.Violation = res.Violation
		if res.Violation.Kind == "panic" || res.Violation.Kind == "deadlock" {
			out.Violation.Kind = "C08/" + res.Violation.Kind
		}
		return out
	}
	h := &c08History{pl: pl, calls: rt.calls, start: start, retT: retT, returned: returned, result: result, cancelled: cancelled}
	if pl.Immediate {
		out.Violation = c08OracleImmediate(h, out)
	} else {
		out.Violation = c08Oracle(h, out)
	}
	return out
}

// ---------------------------------------------------------------------------
// Oracles

type c08History struct {
	pl        *c08Plan
	calls     []*c08Call
	start     time.Duration
	retT      time.Duration
	returned  bool
	result    error
	cancelled bool
}

// c08Coverage checks that the calls offered every payload element exactly once; it returns "" or what is wrong.
func c08Coverage(size int, calls []*c08Call) string {
	seen := make([]int, size)
	for _, c := range calls {
		if len(c.ids) == 0 {
			return fmt.Sprintf("call %d offered an empty slice", c.idx)
		}
		for j, id := range c.ids {
			if id < 0 || id >= size {
				return fmt.Sprintf("call %d offered an element that is not part of the payload", c.idx)
			}
			if j > 0 && id != c.ids[j-1]+1 {
				return fmt.Sprintf("call %d offered elements out of order: %v", c.idx, c.ids)
			}
			seen[id]++
		}
	}
	for id, k := range seen {
		if k != 1 {
			return fmt.Sprintf("element %d was offered %d times", id, k)
		}
	}
	return ""
}

func c08Oracle(h *c08History, out *sim.Outcome) *simrt.Violation {
	pl := h.pl
	deadline := h.start + pl.Timeout
	per := make([][]*c08Call, len(pl.Nodes))
	for _, c := range h.calls {
		per[c.node] = append(per[c.node], c)
	}
	enough := pl.Conc >= len(pl.Nodes)
	if enough {
		out.Probes["concurrency>=nodes"]++
	} else {
		out.Probes["concurrency<nodes"]++
	}
	if !h.returned {
		return Viol("C08/never-returned", "%s submission (timeout %v) had not returned %v after the call", pl.Kind, pl.Timeout, pl.Timeout+ClientTimeout+10*time.Second)
	}
	// 1. delivery
	chunked := false
	for i := range pl.Nodes {
		if len(per[i]) == 0 {
			if enough {
				return Viol("C08/node-not-called", "node bn%d (%s) was never offered the %s submission (%d nodes, concurrency %d)", i, pl.Nodes[i].Client, pl.Kind, len(pl.Nodes), pl.Conc)
			}
			out.Probes["node-not-called-concurrency-below-nodes"]++
			continue
		}
		if len(per[i]) > 1 {
			chunked = true
		}
		if bad := c08Coverage(pl.Size, per[i]); bad != "" {
			return Viol("C08/payload-not-delivered-exactly-once", "node bn%d, %s payload of %d, concurrency %d, %d calls: %s", i, pl.Kind, pl.Size, pl.Conc, len(per[i]), bad)
		}
		// (a node whose version query hangs is offered the submission only once that query has given up)
		if np := pl.Nodes[i]; enough && !(pl.VersionHangs && np.Base.Act == "hang" && len(np.Over) == 0) {
			for _, c := range per[i] {
				if c.startT > deadline {
					return Viol("C08/delivery-after-timeout", "node bn%d was offered elements %v only at %v, the call started at %v with timeout %v (concurrency %d >= %d nodes)", i, c.ids, c.startT, h.start, pl.Timeout, pl.Conc, len(pl.Nodes))
				}
			}
		}
	}
	if chunked {
		out.Probes["chunked-delivery"]++
	}
	// 1b. a node that does not answer (now or in an earlier submission) never delays delivery to the others:
	// with a slot for every node, each node is offered the submission the moment it is made
	if enough && !chunked {
		for i := range pl.Nodes {
			np := pl.Nodes[i]
			if len(per[i]) != 1 || (pl.VersionHangs && np.Base.Act == "hang" && len(np.Over) == 0) {
				continue
			}
			if c := per[i][0]; c.startT > h.start {
				return Viol("C08/delivery-delayed", "node bn%d was offered the %s submission only at %v, the call was made at %v (concurrency %d >= %d nodes; prelude %v hang %v; version query hangs %v)", i, pl.Kind, c.startT, h.start, pl.Conc, len(pl.Nodes), pl.Prelude, pl.PreludeHang, pl.VersionHangs)
			}
			out.Probes["prompt-delivery-checked"]++
		}
	}
	// 2. verdict.  A node accepted the submission if every one of its calls
	// was accepted or rejected only for tolerated reasons; strictly = all
	// answers before the deadline, loosely = at or before it (and counting
	// "dontcare" answers as acceptable).
	var strict, loose []int
	type basis struct {
		node      int
		bad       []string // distinct classes of its not-accepted answers
		tolerated bool     // some of its answers were tolerated rejections
	}
	var bases []basis // nodes that had answered every call by the deadline without accepting
	for i := range pl.Nodes {
		if len(per[i]) == 0 {
			continue
		}
		s, l, inTime := true, true, true
		bad := map[string]bool{}
		tol := false
		for _, c := range per[i] {
			if !c.done || c.endT > deadline {
				s, l, inTime = false, false, false
				continue
			}
			if c.endT == deadline {
				out.Probes["answer-at-timeout-instant"]++
				s = false
			}
			switch c.verdict {
			case "accept":
			case "tolerated":
				out.Probes["tolerated-rejection"]++
				tol = true
			case "dontcare":
				out.Probes["tolerated-text-from-other-client"]++
				s = false
			default:
				s, l = false, false
				cls := c.class
				if cls == "" {
					cls = "failed"
				}
				bad[cls] = true
			}
		}
		if s {
			strict = append(strict, i)
		}
		if l {
			loose = append(loose, i)
		}
		if inTime && !l {
			bases = append(bases, basis{node: i, bad: SortedKeys(bad), tolerated: tol})
		}
	}
	if len(strict) > 0 || len(loose) == 0 {
		out.Nontrivial = true
	}
	if h.result == nil {
		out.Probes["result-success"]++
		if len(loose) == 0 {
			// Name the class after the node whose answers are closest to an acceptance
			// (fewest kinds of rejection; ties by a fixed order of classes).
			// (Labelling only: the order puts first the class that the triaged defects of the
			// kind produce, so that one mechanism keeps one fingerprint.)
			prio := map[string]int{"nofail": 0, "mixed": 1, "real": 2, "malformed": 3, "plain": 4, "transport": 5, "dup": 6, "failed": 7}
			if pl.Kind == "attestations" {
				prio["mixed"], prio["nofail"] = 0, 1
			}
			sort.SliceStable(bases, func(i, j int) bool {
				a, b := bases[i], bases[j]
				// part of its answers carried a tolerated reason: nearest to an acceptance
				am := len(per[a.node]) > 1 && (a.tolerated || slices.Contains(a.bad, "mixed"))
				bm := len(per[b.node]) > 1 && (b.tolerated || slices.Contains(b.bad, "mixed"))
				if am != bm {
					return am
				}
				if len(a.bad) != len(b.bad) {
					return len(a.bad) < len(b.bad)
				}
				if len(a.bad) == 0 {
					return false
				}
				return prio[a.bad[0]] < prio[b.bad[0]]
			})
			cls := "none-answered"
			if len(bases) > 0 {
				cls = strings.Join(bases[0].bad, "+")
				if bases[0].tolerated || len(bases[0].bad) > 1 {
					cls = "chunk-errors-merged" // the node's chunks were answered differently
				}
			}
			cls = pl.Kind + "/" + cls
			return Viol("C08/success-without-acceptance/"+cls, "%s submission reported success at %v (start %v, timeout %v) but no node accepted it in time: %s", pl.Kind, h.retT, h.start, pl.Timeout, c08Describe(pl, per))
		}
	} else {
		out.Probes["result-failure"]++
		if len(strict) > 0 {
			return Viol("C08/failure-despite-acceptance", "%s submission reported %q at %v (start %v, timeout %v) although node bn%d accepted it before the timeout: %s", pl.Kind, h.result, h.retT, h.start, pl.Timeout, strict[0], c08Describe(pl, per))
		}
	}
	// 3. time of return
	if h.retT > deadline {
		return Viol("C08/returned-after-timeout", "%s submission returned at %v; it started at %v with timeout %v", pl.Kind, h.retT, h.start, pl.Timeout)
	}
	if h.result == nil && h.retT == deadline && len(strict) > 0 {
		out.Probes["success-reported-only-at-timeout"]++ // e.g. the wake-up was sent before the caller waited
	}
	if h.result == nil && h.retT < deadline {
		out.Probes["success-before-timeout"]++
	}
	if h.cancelled {
		out.Probes["caller-cancelled"]++
	}
	return nil
}

func c08Describe(pl *c08Plan, per [][]*c08Call) string {
	var b []string
	for i := range pl.Nodes {
		var cs []string
		for _, c := range per[i] {
			v := c.verdict
			if c.class != "" {
				v += "(" + c.class + ")"
			}
			if !c.done {
				v = "pending"
			}
			cs = append(cs, fmt.Sprintf("%d el@%v->%v %s", len(c.ids), c.startT, c.endT, v))
		}
		b = append(b, fmt.Sprintf("bn%d[%s]: %s", i, pl.Nodes[i].Client, strings.Join(cs, "; ")))
	}
	sort.Strings(b)
	return strings.Join(b, " | ")
}

func c08OracleImmediate(h *c08History, out *sim.Outcome) *simrt.Violation {
	pl := h.pl
	out.Nontrivial = true
	if !h.returned {
		return Viol("C08/never-returned", "immediate %s submission had not returned when the run ended", pl.Kind)
	}
	if len(h.calls) != 1 {
		return Viol("C08/immediate-not-one-call", "immediate %s submission made %d calls to the node", pl.Kind, len(h.calls))
	}
	c := h.calls[0]
	if bad := c08Coverage(pl.Size, h.calls); bad != "" {
		return Viol("C08/payload-not-delivered-exactly-once", "immediate %s payload of %d: %s", pl.Kind, pl.Size, bad)
	}
	nodeErr := !c.done || c.verdict != "accept"
	if nodeErr {
		out.Probes["immediate-node-error"]++
	} else {
		out.Probes["immediate-node-ok"]++
	}
	if nodeErr && h.result == nil {
		return Viol("C08/immediate-error-swallowed", "immediate %s submission returned nil although the node answered %s", pl.Kind, c.verdict+" "+c.class)
	}
	if !nodeErr && h.result != nil {
		return Viol("C08/immediate-error-invented", "immediate %s submission returned %q although the node accepted", pl.Kind, h.result)
	}
	if h.retT != c.endT {
		return Viol("C08/immediate-return-time", "immediate %s submission returned at %v, the node answered at %v", pl.Kind, h.retT, c.endT)
	}
	return nil
}

func init() {
	for _, k := range c08Kinds {
		w := 1
		if k == "attestations" {
			w = 3
		}
		sim.Register(&sim.Scenario{Property: "C08", Name: "multinode-" + k, Gen: c08Gen(k, false), Exec: c08Exec, Weight: w})
	}
	sim.Register(&sim.Scenario{Property: "C08", Name: "immediate", Gen: c08Gen("", true), Exec: c08Exec, Weight: 1})
	// probe (not part of C08's space; C16 runs it for crashes only): every rejection carries an odd error body
	sim.Register(&sim.Scenario{Property: "C08PROBE", Name: "odd-error-bodies", Exec: c08Exec, Gen: func(p *simrt.Tape) any {
		pl := c08Gen(c08Kinds[p.Pick(len(c08Kinds))], false)(p).(*c08Plan)
		for i := range pl.Nodes {
			if pl.Nodes[i].Base.Act != "hang" {
				pl.Nodes[i].Base.Act, pl.Nodes[i].Base.Rej = "reject", c08NNormalRejs+p.Pick(len(c08OddBodies))
			}
		}
		return pl
	}})
}
