#!/bin/bash
# probecheck.sh <patch.diff> [runs] [scenario]
# Like /verif/mutcheck.sh (scratch worktree of /repo under /tmp, never /repo itself) but prints the
# probe counters too and uses this directory's KNOWN file.  Used with schedpoints/*.diff: patches that do
# not change vouch's behaviour but open a scheduling point the instrumenter does not provide.
set -u
PATCH=$(readlink -f "$1"); RUNS=${2:-5000}; SCEN=${3:-}
HERE=$(dirname "$(readlink -f "$0")")
export GOFLAGS=-mod=mod GOPROXY=off GOSUMDB=off GOTOOLCHAIN=local PATH=/opt/veriftools/go1.26.8/bin:$PATH
W=$(mktemp -d /tmp/probe-XXXXXX)
cleanup() { git -C /repo worktree remove --force "$W/repo" >/dev/null 2>&1; rm -rf "$W"; }
trap cleanup EXIT
git -C /repo worktree add -q --detach "$W/repo" HEAD || exit 2
git -C /repo diff HEAD | git -C "$W/repo" apply --allow-empty 2>/dev/null
git -C "$W/repo" apply "$PATCH" || { echo "patch does not apply"; exit 2; }
(cd "$W/repo" && go build ./services/submitter/... ./util/... ) || { echo "patched tree does not compile"; exit 2; }
/verif/build/vinject -repo "$W/repo" -out "$W/ov" -hooks /verif/hooks || exit 2
sed -e "s#github.com/attestantio/vouch => /repo#github.com/attestantio/vouch => $W/repo#" /verif/go.mod > "$W/go.mod"
cp /verif/go.sum "$W/go.sum"
cd /verif && go test -c -modfile="$W/go.mod" -overlay "$W/ov/overlay.json" -o "$W/sim.test" ./simtest/c08 || exit 2
VERIF_PROP=C08 VERIF_COUNT=$RUNS VERIF_SCENARIO=$SCEN VERIF_REPLAY_DIR= VERIF_KNOWN=${PROBE_KNOWN-$HERE/KNOWN} VERIF_OUT="$W/out.json" "$W/sim.test" -test.run '^TestWorker$' -test.timeout 0 >"$W/log" 2>&1 || { tail -30 "$W/log"; exit 2; }
python3 - "$W/out.json" "$HERE/KNOWN" <<'PY'
import json,sys
d=json.load(open(sys.argv[1])); known=open(sys.argv[2]).read()
print("runs",d['runs'],"nontrivial",d['nontrivial'],"wall_s",round(d['wall_s'],1))
print("probes",json.dumps(d['probes'],sort_keys=True))
new=0
for x in d.get('violations') or []:
    k = ("fingerprint="+x['fingerprint']+" ") in known
    new += 0 if k else 1
    print("KNOWN" if k else "NEW  ", x['fingerprint'],"|",x['detail'][:400].replace("\n"," "))
sys.exit(1 if new else 0)
PY
