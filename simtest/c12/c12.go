// Package c12 — the block relay keeps answering whatever the config source does.
//
// Real code: blockrelay/standard (New, periodic fetch and registration jobs on
// the real scheduler, ProposerConfig, AuctionBlock, BuilderBid,
// ValidatorRegistrations, SubmitValidatorRegistrations), proposalpreparer,
// signer, chaintime.  Stubs: configuration source with a timeline of states
// (usable v2/legacy documents, documents with an entry that cannot be
// applied, error, not found, garbled, truncated, empty, null, slow), relays,
// beacon nodes, bid strategy.
//
// Oracle: (1) last-good-configuration model over every lookup and every
// auction; (2) no deadlock (scheduler), every client call returns (horizon),
// no modelled lock owned once everything has finished; (3) after the chaos a
// final usable document is taken into use and requests are answered.
package c12

import (
	"context"
	"errors"
	"fmt"
	"github.com/attestantio/go-builder-client/spec"
	"strings"
	"time"

	"github.com/attestantio/go-block-relay/types"
	"github.com/attestantio/go-eth2-client/spec/phase0"
	"github.com/attestantio/vouch/services/beaconblockproposer"
	e2wtypes "github.com/wealdtech/go-eth2-wallet-types/v2"

	"verif/sim"
	"verif/simrt"
	"verif/simtest/c10/relaysim"
	. "verif/simtest/env"
)

type srcEvent struct {
	At  time.Duration `json:"at"`
	Doc *relaysim.Doc `json:"doc"`
}

type op struct {
	At   time.Duration `json:"at"`   // absolute simulated time
	Kind string        `json:"kind"` // lookup | lookup-nil | auction | bid | bid-foreign | vregs | round | round-direct | refresh | prepare
	Val  int           `json:"val"`
}

type plan struct {
	World   *relaysim.WorldSpec  `json:"world"`
	Initial *relaysim.Doc        `json:"initial"`
	Source  []srcEvent           `json:"source"`
	Clients [][]op               `json:"clients"`
	Final   *relaysim.Doc        `json:"final"`
	Script  map[string][]Outcome `json:"script,omitempty"`
	// NoAuctions: no AuctionBlock/BuilderBid calls at all (scenario
	// "lookups-and-rounds"), which keeps the run away from the two auction-path
	// findings so that everything else is still explored.
	NoAuctions bool `json:"no_auctions,omitempty"`
}

var opKinds = []string{"lookup", "lookup", "lookup-nil", "auction", "auction", "auction", "bid", "bid-foreign", "bid-shared", "vregs", "round", "round-direct", "refresh", "refresh", "prepare"}

// BidClauses: judge the bids handed out to beacon nodes (C09's statement; set by the scenario registered for C09).
var BidClauses = false

// AtomicityClauses: also judge outcomes that no sequential order of overlapping requests produces (set by the
// C17 wrapper; they are not part of C12's statement).  Reported with the "C17/non-sequential/" prefix.
var AtomicityClauses = false

func genDoc(p *simrt.Tape, o relaysim.GenOpts, badPct int) *relaysim.Doc {
	var d *relaysim.Doc
	if p.Pct(badPct) {
		d = relaysim.GenBadDoc(p, o)
	} else {
		d = relaysim.GenGoodDoc(p, o)
	}
	d.Latency = relaysim.FetchLatencies[p.Pick(len(relaysim.FetchLatencies))]
	return d
}

var calmKinds = []string{"lookup", "lookup", "lookup", "lookup-nil", "vregs", "vregs", "round", "round-direct", "refresh", "refresh", "prepare"}

func gen(p *simrt.Tape) any     { return genPlan(p, false) }
func genCalm(p *simrt.Tape) any { return genPlan(p, true) }

func genPlan(p *simrt.Tape, noAuctions bool) any {
	pl := &plan{World: relaysim.GenWorldSpec(p, 2, 4), NoAuctions: noAuctions}
	ws := pl.World
	ws.SecondsPerSlot, ws.SlotsPerEpoch = 2, 4 // 8 s epochs: the periodic jobs fire several times
	ws.NSecondary, ws.NPrep = p.Range(0, 1), 1
	ws.StartOffset = time.Duration(p.Range(0, 7)) * time.Second
	o := relaysim.GenOpts{NVals: len(ws.Vals), Unresolvable: 35, V1: 15, MaxRelays: 3, MaxProposers: 3, AvoidKnown: true, UnusableRelay: 20}
	pl.Initial = genDoc(p, o, 30)
	// bursts: a source change, usually a refresh, and client calls at (almost) the same instant
	nb := p.Range(2, 5)
	var bursts []time.Duration
	t := time.Duration(0)
	for i := 0; i < nb; i++ {
		t += []time.Duration{500 * time.Millisecond, 2 * time.Second, 3 * time.Second, 5 * time.Second}[p.Pick(4)]
		bursts = append(bursts, t)
		if p.Pct(80) {
			// mostly an unrelated document; sometimes the previous usable one with nothing but gas limits changed
			var prev *relaysim.Doc
			if pl.Initial.Good() {
				prev = pl.Initial
			}
			for _, e := range pl.Source {
				if e.Doc.Good() {
					prev = e.Doc
				}
			}
			if prev != nil && p.Pct(35) {
				pl.Source = append(pl.Source, srcEvent{At: t - time.Millisecond, Doc: relaysim.TweakGas(p, prev)})
			} else {
				pl.Source = append(pl.Source, srcEvent{At: t - time.Millisecond, Doc: genDoc(p, o, 35)})
			}
		}
	}
	deltas := []time.Duration{0, 0, 0, time.Millisecond, -time.Millisecond, 300 * time.Millisecond, 2 * time.Second}
	nc := p.Range(3, 5)
	for c := 0; c < nc; c++ {
		var ops []op
		n := p.Range(1, 4)
		for i := 0; i < n; i++ {
			at := bursts[p.Pick(len(bursts))] + deltas[p.Pick(len(deltas))]
			if at < 0 {
				at = 0
			}
			kinds := opKinds
			if noAuctions {
				kinds = calmKinds
			}
			ops = append(ops, op{At: at, Kind: kinds[p.Pick(len(kinds))], Val: p.Pick(len(ws.Vals))})
		}
		// a client issues its calls in time order
		for i := 1; i < len(ops); i++ {
			for j := i; j > 0 && ops[j].At < ops[j-1].At; j-- {
				ops[j], ops[j-1] = ops[j-1], ops[j]
			}
		}
		pl.Clients = append(pl.Clients, ops)
	}
	if !noAuctions && nc >= 2 && p.Pct(25) {
		// two beacon nodes ask for the same builder bid at the same instant
		at, val := bursts[p.Pick(len(bursts))], p.Pick(len(ws.Vals))
		for c := 0; c < 2; c++ {
			pl.Clients[c] = append(pl.Clients[c], op{At: at, Kind: "bid-shared", Val: val})
			ops := pl.Clients[c]
			for i := len(ops) - 1; i > 0 && ops[i].At < ops[i-1].At; i-- {
				ops[i], ops[i-1] = ops[i-1], ops[i]
			}
		}
	}
	o.Unresolvable = 0
	pl.Final = relaysim.GenGoodDoc(p, o)
	// environment behaviour
	pl.Script = map[string][]Outcome{}
	kinds := []Outcome{{}, {}, {}, {}, {Latency: 100 * time.Millisecond}, {Latency: time.Second}, {Kind: "error"}, {Kind: "error", Latency: 200 * time.Millisecond}, {Kind: "hang"}}
	for r := 0; r < relaysim.NRelays; r++ {
		for _, m := range []string{"SubmitValidatorRegistrations", "BuilderBid"} {
			if p.Pct(35) {
				var l []Outcome
				for i := 0; i < 4; i++ {
					l = append(l, kinds[p.Pick(len(kinds))])
				}
				pl.Script[fmt.Sprintf("relay%d/%s", r, m)] = l
			}
		}
	}
	if p.Pct(30) {
		pl.Script["strategy/BuilderBid"] = []Outcome{kinds[p.Pick(len(kinds)-1)], kinds[p.Pick(len(kinds)-1)]}
	}
	if p.Pct(10) {
		pl.Script["accounts/ValidatingAccountsForEpoch/fetch"] = []Outcome{{}, {Kind: "error"}}
	}
	return pl
}

// GenShaped is gen with most documents replaced by odd-shaped ones (JSON nodes
// set to null, empty containers or wrong types).  The oracle of this package
// does not know whether vouch accepts such a document, so only C16 (no crash)
// uses it.
func GenShaped(p *simrt.Tape) any {
	pl := genPlan(p, false).(*plan)
	o := relaysim.GenOpts{NVals: len(pl.World.Vals), Unresolvable: 20, V1: 30, MaxRelays: 3, MaxProposers: 3, AvoidKnown: true}
	shape := func(d *relaysim.Doc) *relaysim.Doc {
		if p.Pct(70) {
			n := relaysim.GenShapedDoc(p, o)
			if d != nil {
				n.Latency = d.Latency
			}
			return n
		}
		return d
	}
	pl.Initial = shape(pl.Initial)
	for i := range pl.Source {
		pl.Source[i].Doc = shape(pl.Source[i].Doc)
	}
	return pl
}

type opRec struct {
	op
	client            int
	callT, retT       time.Duration
	callStep, retStep int
	returned          bool
	err               error
	got               *beaconblockproposer.ProposerConfig
	final             bool
	bid               *spec.VersionedSignedBuilderBid // what a bid request returned
}

func exec(plAny any, sched *simrt.Tape) *sim.Outcome {
	pl := plAny.(*plan)
	out := &sim.Outcome{Probes: map[string]int{}, Sample: pl}
	var w *relaysim.World
	var recs []*opRec
	finalCheck := false
	finalInstalled := time.Duration(-1)
	// inCall[c]: client task c is inside a call into vouch.  Evaluated by the
	// controller at quiescent points only (all tasks parked).
	inCall := map[int]*opRec{}
	clientOf := func(holder string) int {
		i := strings.Index(holder, "@client")
		if i < 0 {
			return -1
		}
		n, j := 0, i+len("@client")
		for ; j < len(holder) && holder[j] >= '0' && holder[j] <= '9'; j++ {
			n = n*10 + int(holder[j]-'0')
		}
		if j == i+len("@client") {
			return -1
		}
		return n
	}
	lastOp := map[int]*opRec{}
	inv := func() *simrt.Violation {
		for _, h := range simrt.Current().HeldLocks() {
			if c := clientOf(h); c >= 0 && inCall[c] == nil && lastOp[c] != nil {
				r := lastOp[c]
				return Viol("C12/leaked-lock", "client %d has returned from %s(val %d) (error: %v) and is not inside any call, yet still owns %s", c, r.Kind, r.Val, r.err, h)
			}
		}
		if !finalCheck {
			return nil
		}
		if h := simrt.Current().HeldLocks(); len(h) > 0 {
			return Viol("C12/leaked-lock", "all operations have finished and the jobs are stopped, yet locks are still owned: %s", strings.Join(h, ", "))
		}
		return nil
	}

	res := sim.Run(sched, 20*time.Minute, 400000, inv, func(ctx context.Context) {
		w = relaysim.NewWorld(pl.World, &Script{Outcomes: pl.Script})
		w.Source.Set(pl.Initial)
		svcCtx, stop := context.WithCancel(ctx)
		defer stop()
		if err := w.Start(svcCtx); err != nil {
			panic(err)
		}
		do := func(r *opRec) {
			v := w.Vals[r.Val]
			simrt.Crit(func() { r.callT, r.callStep = simrt.Now(), simrt.Step(); inCall[r.client] = r })
			switch r.Kind {
			case "lookup":
				r.got, r.err = w.Svc.ProposerConfig(svcCtx, v.Acc, v.PubKey)
			case "lookup-nil":
				_, r.err = w.Svc.ProposerConfig(svcCtx, nil, v.PubKey)
			case "auction":
				_, r.err = w.Svc.AuctionBlock(svcCtx, phase0.Slot(1000+r.client), phase0.Hash32{byte(r.client)}, v.PubKey)
			case "bid":
				r.bid, r.err = w.Svc.BuilderBid(svcCtx, phase0.Slot(1000+r.client), phase0.Hash32{byte(r.client)}, v.PubKey)
			case "bid-shared":
				// the same (slot, parent, validator) as asked for by other beacon nodes (clients)
				r.bid, r.err = w.Svc.BuilderBid(svcCtx, phase0.Slot(3000), phase0.Hash32{0xee}, v.PubKey)
			case "bid-foreign":
				_, r.err = w.Svc.BuilderBid(svcCtx, phase0.Slot(2000+r.client), phase0.Hash32{byte(r.client)}, relaysim.RelayPub(30+r.Val))
			case "vregs":
				regs := []*types.SignedValidatorRegistration{
					{Message: &types.ValidatorRegistration{FeeRecipient: relaysim.FeeAddr(20), GasLimit: 30000000, Timestamp: time.Now(), Pubkey: relaysim.RelayPub(30 + r.Val)}},
					{Message: &types.ValidatorRegistration{FeeRecipient: relaysim.FeeAddr(21), GasLimit: 30000000, Timestamp: time.Now(), Pubkey: v.PubKey}},
				}
				_, r.err = w.Svc.ValidatorRegistrations(svcCtx, regs)
			case "round":
				r.err = w.Sched.RunJob(svcCtx, relaysim.JobRegister)
			case "round-direct":
				r.err = w.Svc.SubmitValidatorRegistrations(svcCtx, map[phase0.ValidatorIndex]e2wtypes.Account{v.Index: v.Acc})
			case "refresh":
				r.err = w.Sched.RunJob(svcCtx, relaysim.JobFetch)
			case "prepare":
				r.err = w.Preparer.UpdatePreparations(svcCtx)
			}
			simrt.Crit(func() { lastOp[r.client] = r; delete(inCall, r.client) })
			simrt.Yield("c12/opret")
			simrt.Crit(func() { r.retT, r.retStep, r.returned = simrt.Now(), simrt.Step(), true })
		}
		total, done := 1, 0
		simrt.Go("source", func() {
			for _, e := range pl.Source {
				simrt.Sleep(ctx, e.At-simrt.Now(), "c12/source")
				w.Source.Set(e.Doc)
			}
			simrt.Crit(func() { done++ }) // the final phase starts after the last planned change
		})
		for c, ops := range pl.Clients {
			var mine []*opRec
			for _, o := range ops {
				r := &opRec{op: o, client: c}
				recs = append(recs, r)
				mine = append(mine, r)
				total++
			}
			simrt.Go(fmt.Sprintf("client%d", c), func() {
				for _, r := range mine {
					simrt.Sleep(ctx, r.At-simrt.Now(), "c12/opwait")
					do(r)
					simrt.Crit(func() { done++ })
				}
			})
		}
		waitDone := func() {
			for {
				simrt.Sleep(ctx, 250*time.Millisecond, "c12/await-clients")
				fin := false
				simrt.Crit(func() { fin = done == total })
				if fin {
					return
				}
			}
		}
		waitDone() // a client that never returns keeps main here until the horizon

		// (3) later refreshes and requests still work
		seq := w.Source.Set(pl.Final)
		installed := false
		for try := 0; try < 2000 && !installed; try++ {
			_ = w.Sched.RunJob(svcCtx, relaysim.JobFetch) // refused while a fetch is running: the running one may predate Set
			simrt.Sleep(ctx, 100*time.Millisecond, "c12/await-final")
			simrt.Crit(func() {
				for _, f := range w.Source.Fetches {
					if f.Seq == seq && f.Delivered && f.EndT < simrt.Now() {
						installed = true
					}
				}
			})
		}
		if installed {
			finalInstalled = simrt.Now()
		}
		for i, v := range w.Vals {
			for _, k := range []string{"lookup", "auction", "bid"} {
				if pl.NoAuctions && k != "lookup" {
					continue
				}
				r := &opRec{op: op{Kind: k, Val: i}, client: 10 + len(recs), final: true}
				recs = append(recs, r)
				total++
				simrt.Go(fmt.Sprintf("client%d", r.client), func() {
					do(r)
					simrt.Crit(func() { done++ })
				})
			}
			_ = v
		}
		waitDone()
		// stop the jobs, let everything in flight drain (a hanging relay answers after 2 minutes)
		stop()
		simrt.Sleep(ctx, 3*time.Minute, "c12/drain")
		finalCheck = true
		simrt.Yield("c12/final-check")
		simrt.Yield("c12/final-check")
	})
	out.Res = res
	if res.Violation != nil {
		out.Violation = res.Violation
		switch res.Violation.Kind {
		case "panic", "deadlock":
			out.Violation.Kind = "C12/" + res.Violation.Kind
		case "horizon":
			var stuck []string
			for _, r := range recs {
				if r.callStep > 0 && !r.returned {
					stuck = append(stuck, fmt.Sprintf("%s(val %d) called at %v", r.Kind, r.Val, r.callT))
				}
			}
			out.Violation.Kind = "C12/request-never-returned"
			out.Violation.Detail = fmt.Sprintf("calls that never returned: %s ; %s", strings.Join(stuck, ", "), res.Violation.Detail)
		}
		countProbes(pl, w, recs, out)
		return out
	}
	countProbes(pl, w, recs, out)
	out.Violation = oracle(pl, w, recs, finalInstalled, out)
	return out
}

func countProbes(pl *plan, w *relaysim.World, recs []*opRec, out *sim.Outcome) {
	if w == nil {
		return
	}
	good, bad, unres := 0, 0, 0
	for _, f := range w.Source.Fetches {
		if !f.Delivered || f.Seq < 0 {
			continue
		}
		d := w.Source.States[f.Seq]
		switch {
		case d.Good() && d.HasUnresolvable():
			unres++
		case d.Good():
			good++
		default:
			bad++
		}
	}
	out.Probes["fetch-good"] += good
	out.Probes["fetch-bad"] += bad
	out.Probes["fetch-good-with-unresolvable-entry"] += unres
	if bad > 0 && good+unres > 0 {
		out.Nontrivial = true
	}
	// a client call in flight while a fetch was delivered
	for _, r := range recs {
		for _, f := range w.Source.Fetches {
			if f.Delivered && r.returned && f.EndStep >= r.callStep && f.EndStep <= r.retStep {
				out.Probes["call-overlaps-refresh"]++
				break
			}
		}
	}
}

func oracle(pl *plan, w *relaysim.World, recs []*opRec, finalInstalled time.Duration, out *sim.Outcome) *simrt.Violation {
	// every call returned (main would not have finished otherwise)
	for _, r := range recs {
		if !r.returned {
			return Viol("C12/request-never-returned", "%s(val %d) of client %d did not return", r.Kind, r.Val, r.client)
		}
	}
	// (1) last-good-configuration model: lookups ...
	check := func(what string, val *relaysim.Val, tc, tr time.Duration, got *beaconblockproposer.ProposerConfig, err error) *simrt.Violation {
		cands := w.Source.InForce(tc, tr)
		var why []string
		for _, d := range cands {
			ref := relaysim.Resolve(w, d, val)
			if ref.Unspec {
				out.Probes["lookup-reaches-unresolvable-entry"]++
				return nil // the documentation does not say what such a lookup gives
			}
			if err != nil {
				why = append(why, "error where the configuration resolves")
				continue
			}
			ds := relaysim.Diff(ref, got)
			if len(ds) == 0 {
				if d == nil {
					out.Probes["lookup-equals-fallback"]++
				} else {
					out.Probes["lookup-equals-last-good"]++
				}
				return nil
			}
			why = append(why, ds[0].Detail)
		}
		e := ""
		if err != nil {
			e = " error: " + err.Error()
		}
		return Viol("C12/not-last-good-config", "%s for %s in [%v,%v]: %s%s matches none of the %d configurations that can be in force (%s)",
			what, val.Name, tc, tr, relaysim.Canon(got, nil), e, len(cands), strings.Join(why, " | "))
	}
	// (C09, run by its check through the scenario "rest-builder-bid") a bid handed to a beacon node is a relay's
	// bid: when the auction had no winner the answer is "no bid", never the zero-valued record of that outcome
	if BidClauses {
		for _, r := range recs {
			if r.bid == nil || r.err != nil {
				continue
			}
			v, err := r.bid.Value()
			if err != nil || v == nil || v.Sign() <= 0 {
				return Viol("C09/bid-without-value-handed-out", "%s(val %d) of client %d returned a builder bid without a positive value (value %v, error %v): there was no winning bid", r.Kind, r.Val, r.client, v, err)
			}
			out.Probes["handed-out-bid-checked"]++
		}
	}
	// requests for one builder bid from several beacon nodes: once an auction for it has completed, its result is
	// served to everybody; a second completed auction for the same (slot, parent, validator) is the outcome of no
	// sequential order of the requests
	if AtomicityClauses && w.Bids != nil {
		type key struct {
			pub phase0.BLSPubKey
		}
		n := map[key]int{}
		for _, a := range w.Bids.Auctions {
			if a.Slot == 3000 && a.EndStep != 0 && !a.Failed {
				n[key{a.Pub}]++
				if n[key{a.Pub}] > 1 {
					return Viol("C17/non-sequential/second-auction-for-one-builder-bid", "the auction for the builder bid (slot 3000, one parent, one validator) completed %d times; the second request must have been served the first one's result", n[key{a.Pub}])
				}
			}
		}
		out.Probes["shared-bid-auctions-counted"] += len(n)
	}
	// what a registration round tells a relay stems from a configuration in force during the round
	// (a registration signed under a superseded configuration must not be served from a cache)
	for _, r := range recs {
		if (r.Kind != "round" && r.Kind != "round-direct") || !r.returned {
			continue
		}
		for _, rel := range w.Relays {
			for _, sub := range rel.Subs {
				if sub.Step < r.callStep || sub.Step > r.retStep {
					continue
				}
				overlap := false
				for _, q := range recs {
					if q != r && (q.Kind == "round" || q.Kind == "round-direct" || q.Kind == "vregs") && q.callStep <= r.retStep && (!q.returned || q.retStep >= r.callStep) {
						overlap = true // the submission may belong to the other round
					}
				}
				if overlap {
					continue
				}
				cands := w.Source.InForce(r.callT, sub.T)
				for _, g := range sub.Regs {
					var val *relaysim.Val
					for _, v := range w.Vals {
						if v.PubKey == g.PubKey {
							val = v
						}
					}
					if val == nil {
						continue
					}
					ok := len(cands) == 0
					for _, c := range cands {
						ref := relaysim.Resolve(w, c, val)
						if ref.Unspec {
							ok = true
							break
						}
						if rr := ref.Relays[rel.N]; rr != nil && relaysim.FeeIndex(g.Fee) == rr.Fee && g.Gas == rr.Gas {
							ok = true
						}
					}
					if !ok {
						return Viol("C12/registration-not-from-config-in-force", "registration round called at %v: relay %d was told fee recipient %d, gas limit %d for %s at %v, which none of the %d configurations in force during the round resolves to", r.callT, rel.N, relaysim.FeeIndex(g.Fee), g.Gas, val.Name, sub.T, len(cands))
					}
					out.Probes["registration-content-checked"]++
				}
			}
		}
	}
	for _, r := range recs {
		if r.Kind != "lookup" && r.Kind != "lookup-nil" {
			continue
		}
		// a lookup depends on no other party: it is answered from what vouch
		// holds, at once, whatever the source is doing (slow fetch in flight)
		if r.retT != r.callT {
			return Viol("C12/lookup-waits", "ProposerConfig for %s called at %v returned at %v: it waited %v although it needs no remote party",
				w.Vals[r.Val].Name, r.callT, r.retT, r.retT-r.callT)
		}
		if r.Kind != "lookup" {
			continue
		}
		if v := check("lookup", w.Vals[r.Val], r.callT, r.retT, r.got, r.err); v != nil {
			return v
		}
	}
	// ... and the settings each auction ran with
	for _, a := range w.Bids.Auctions {
		val := w.ValByPub(a.Pub)
		if val == nil {
			continue
		}
		// the auction resolved its settings at or before the strategy was called, after some client called it
		tc := time.Duration(-1)
		acct := true
		for _, r := range recs {
			if (r.Kind == "auction" || r.Kind == "bid" || r.Kind == "bid-shared") && r.Val == val.N && r.callStep <= a.Step && (!r.returned || r.retStep >= a.Step) {
				if tc < 0 || r.callT < tc {
					tc = r.callT
				}
				if r.Kind == "bid" || r.Kind == "bid-shared" {
					acct = false // BuilderBid auctions without the account: regex entries see "<unknown>"
				}
			}
		}
		if tc < 0 || !acct {
			continue
		}
		if v := check("auction", val, tc, a.T, a.Config, nil); v != nil {
			return v
		}
		out.Probes["auction-settings-checked"]++
	}
	// (3) the final document is in use
	if finalInstalled < 0 {
		return Viol("C12/refresh-ineffective", "the final document was never fetched although refreshes were requested for 200 s")
	}
	for _, r := range recs {
		if !r.final {
			continue
		}
		if r.err != nil && !errors.Is(r.err, ErrSimulated) {
			return Viol("C12/final-request-failed", "%s for %s after the final refresh: %v", r.Kind, w.Vals[r.Val].Name, r.err)
		}
		if r.Kind == "lookup" {
			ref := relaysim.Resolve(w, pl.Final, w.Vals[r.Val])
			if ds := relaysim.Diff(ref, r.got); len(ds) > 0 {
				return Viol("C12/refresh-ineffective", "after the final refresh %s resolves to %s: %s", w.Vals[r.Val].Name, relaysim.Canon(r.got, nil), ds[0].Detail)
			}
			out.Probes["final-lookup-checked"]++
		}
	}
	return nil
}

func init() {
	sim.Register(&sim.Scenario{Property: "C12", Name: "config-source-chaos", Gen: gen, Exec: exec})
	sim.Register(&sim.Scenario{Property: "C12", Name: "lookups-and-rounds", Gen: genCalm, Exec: exec})
	// builder bids as the REST interface hands them to beacon nodes, several nodes asking at once: run by C09's
	// check (only the clause on handed-out bids, panics and deadlocks count there)
	sim.Register(&sim.Scenario{Property: "C09", Name: "rest-builder-bid", Weight: 1, Gen: func(p *simrt.Tape) any {
		pl := genPlan(p, false).(*plan)
		// more requests for the shared bid, from every client, around the bursts
		for c := range pl.Clients {
			if len(pl.Clients[c]) > 0 && p.Pct(70) {
				pl.Clients[c] = append([]op{{At: pl.Clients[c][0].At, Kind: "bid-shared", Val: 0}}, pl.Clients[c]...)
			}
		}
		return pl
	}, Exec: func(plan any, sched *simrt.Tape) *sim.Outcome {
		BidClauses = true
		o := exec(plan, sched)
		BidClauses = false
		if o != nil && o.Violation != nil && !strings.HasPrefix(o.Violation.Kind, "C09/") && !strings.HasPrefix(o.Violation.Kind, "harness-") {
			switch o.Violation.Kind {
			case "C12/panic", "C12/deadlock":
				o.Violation.Kind = "C09/" + strings.TrimPrefix(o.Violation.Kind, "C12/")
			default:
				o.Violation = nil
			}
		}
		return o
	}})
}
