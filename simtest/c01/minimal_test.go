package c01

import (
	"encoding/json"
	"os"
	"testing"

	"verif/sim"
	"verif/simrt"
	"verif/simtest/c01/attsim"
	"verif/simtest/env"
)

// TestMinimalTargetBelow replays the smallest plan that shows the triaged C01
// defect (target epoch below the duty epoch is signed).  Documentation, not a
// check: it only runs with VERIF_MINIMAL=1 and must be built through the overlay:
//
//	VERIF_MINIMAL=1 go test -overlay build/overlay/overlay.json -run TestMinimal -v ./simtest/c01
func TestMinimalTargetBelow(t *testing.T) {
	if os.Getenv("VERIF_MINIMAL") == "" {
		t.Skip("VERIF_MINIMAL not set")
	}
	pl := &attsim.Plan{Focus: "c01", BaseEpoch: 3, Mode: "direct", NNodes: 1, Clients: 1,
		Vals: []attsim.Val{{Index: 100, Key: 0, Kind: int(env.KindMulti)}},
		Runs: []attsim.RunPlan{{Origin: "fresh", SlotIn: 3, Sizes: [4]uint64{12, 20, 28, 36},
			Entries: []attsim.Entry{{V: 0, Committee: 0, Pos: 4}},
			Nodes:   []attsim.NodeOut{{Kind: "odd", Variant: 5}}}}, // variant 5 = "target-1"
	}
	sc := &sim.Scenario{Property: "C01", Name: "minimal", Gen: func(*simrt.Tape) any { return pl }, Exec: exec}
	o := sim.RunOnce(t, sc, simrt.NewTape(0, []uint32{}), simrt.NewTape(0, []uint32{}))
	b, _ := json.Marshal(pl)
	t.Logf("plan: %s", b)
	if o.Violation == nil {
		t.Logf("no violation")
		return
	}
	t.Logf("violation: %s | %s", o.Violation.Kind, o.Violation.Detail)
}
