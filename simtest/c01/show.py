#!/usr/bin/env python3
# show.py <dir-or-file> [loglines]: print the replay files the developer loop wrote (fingerprint, detail, plan, tail of the event log)
import json,glob,sys,os
p=sys.argv[1]; n=int(sys.argv[2]) if len(sys.argv)>2 else 0
for f in sorted(glob.glob(p+'/*.json') if os.path.isdir(p) else [p]):
    d=json.load(open(f))
    print('==',os.path.basename(f)); print(d['fingerprint'],'|',d['detail'])
    print('  tapes',len(d['plan_tape'] or []),len(d['sched_tape'] or []),'shrinkruns',d['shrink_runs'])
    print('  plan:',json.dumps(d.get('plan')))
    for l in (d.get('event_log') or [])[-n:] if n else []: print('    ',l)
