// Package c01 — a validator never attests twice in an epoch, and only for its duty epoch.
//
// Real code: services/attester/standard, services/signer/standard,
// strategies/attestationdata/{first,best,majority}, services/attester (Duty,
// MergeDuties), services/chaintime/standard.  Stubs: beacon nodes (attestation
// data), validating accounts provider, attestation submitter, wallet accounts
// (real BLS keys, signer-side request log).  The scenario lives in attsim
// (shared with C04); the oracle is attsim.OracleC01.
package c01

import (
	"verif/sim"
	"verif/simrt"
	"verif/simtest/c01/attsim"
)

func exec(plan any, sched *simrt.Tape) *sim.Outcome {
	pl := plan.(*attsim.Plan)
	out := &sim.Outcome{Probes: map[string]int{}, Sample: pl}
	h := attsim.Exec(pl, sched, "C01", out)
	if out.Violation != nil {
		return out
	}
	out.Violation = attsim.OracleC01(h, out)
	return out
}

func init() {
	sim.Register(&sim.Scenario{Property: "C01", Name: "attest-runs", Gen: attsim.GenC01, Exec: exec, Weight: 3})
	// the content-focused plans of C04 are one more workload for the same oracle
	sim.Register(&sim.Scenario{Property: "C01", Name: "attest-content", Gen: attsim.GenC04, Exec: exec, Weight: 1})
}
