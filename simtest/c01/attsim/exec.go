package attsim

import (
	"context"
	"fmt"
	"time"

	eth2client "github.com/attestantio/go-eth2-client"
	"github.com/attestantio/go-eth2-client/api"
	apiv1 "github.com/attestantio/go-eth2-client/api/v1"
	"github.com/attestantio/go-eth2-client/spec/phase0"
	"github.com/attestantio/vouch/services/attester"
	standardattester "github.com/attestantio/vouch/services/attester/standard"
	nullmetrics "github.com/attestantio/vouch/services/metrics/null"
	standardsigner "github.com/attestantio/vouch/services/signer/standard"
	bestdata "github.com/attestantio/vouch/strategies/attestationdata/best"
	firstdata "github.com/attestantio/vouch/strategies/attestationdata/first"
	majoritydata "github.com/attestantio/vouch/strategies/attestationdata/majority"
	"github.com/rs/zerolog"
	e2wtypes "github.com/wealdtech/go-eth2-wallet-types/v2"

	"verif/sim"
	"verif/simrt"
	"verif/simtest/env"
)

type runKey struct{}

func runOf(ctx context.Context) int {
	if v, ok := ctx.Value(runKey{}).(int); ok {
		return v
	}
	return -1
}

// Submission is one SubmitAttestations call seen by the simulated node.
type Submission struct {
	Step   int
	Atts   []*phase0.Attestation
	Failed bool
}

// RunRec is what the harness observed of one Attest call.
type RunRec struct {
	Idx               int
	Skipped           string // not issued: outside the property's domain
	Issued, Returned  bool
	CallStep, RetStep int
	Slot              uint64
	Epoch             uint64
	DataCalled        bool
	DataRet           *phase0.AttestationData // what the data provider handed to the attester
	DataErr           error
	AccCalled         bool
	AccAsked          []uint64
	AccErr            bool
	Submits           []*Submission
	Ret               []*phase0.Attestation
	RetErr            error
	Fired             map[string]bool // faults that actually fired in this run
}

// History of one execution.
type History struct {
	Plan       *Plan
	Chain      *env.Chain
	Runs       []*RunRec
	Reqs       []*env.SignReq
	Log        *env.SignerLog
	HarnessErr string
}

func root(tag byte, run int) phase0.Root {
	var r phase0.Root
	r[0], r[1], r[31] = tag, byte(run), tag
	return r
}

// runOfRoot inverts root(0xB0, run).
func runOfRoot(b []byte, nruns int) int {
	if len(b) != 32 || b[0] != 0xB0 || b[31] != 0xB0 || int(b[1]) >= nruns {
		return -1
	}
	for _, x := range b[2:31] {
		if x != 0 {
			return -1
		}
	}
	return int(b[1])
}

// nodeData is the attestation data node n returns for run r.
func nodeData(pl *Plan, ri int, no NodeOut, committee phase0.CommitteeIndex) *phase0.AttestationData {
	r := &pl.Runs[ri]
	slot := pl.slotOf(r)
	epoch := slot / SlotsPerEpoch
	src := epoch - 1 - no.SrcBack
	d := &phase0.AttestationData{
		Slot:            phase0.Slot(slot),
		Index:           committee,
		BeaconBlockRoot: root(0xB0, ri),
		Source:          &phase0.Checkpoint{Epoch: phase0.Epoch(src), Root: root(0x50, ri)},
		Target:          &phase0.Checkpoint{Epoch: phase0.Epoch(epoch), Root: root(0x70, ri)},
	}
	if no.Kind == "odd" {
		switch oddNames[no.Variant] {
		case "slot+1":
			d.Slot++
		case "slot-1":
			d.Slot--
		case "slot+epoch":
			d.Slot += SlotsPerEpoch
		case "source>target":
			d.Source.Epoch = d.Target.Epoch + 1
		case "target+1":
			d.Target.Epoch++
		case "target-1":
			d.Target.Epoch--
			d.Source.Epoch = d.Target.Epoch - 1
		case "target-1,source=target":
			d.Target.Epoch--
			d.Source.Epoch = d.Target.Epoch
		case "slot+epoch,target+1":
			d.Slot += SlotsPerEpoch
			d.Target.Epoch++
		}
	}
	return d
}

func copyData(d *phase0.AttestationData) *phase0.AttestationData {
	if d == nil {
		return nil
	}
	c := *d
	if d.Source != nil {
		s := *d.Source
		c.Source = &s
	}
	if d.Target != nil {
		t := *d.Target
		c.Target = &t
	}
	return &c
}

func copyAtt(a *phase0.Attestation) *phase0.Attestation {
	if a == nil {
		return nil
	}
	c := &phase0.Attestation{Signature: a.Signature, Data: copyData(a.Data)}
	c.AggregationBits = append(c.AggregationBits, a.AggregationBits...)
	return c
}

// ---- stubs ----

type node struct {
	h      *History
	script *env.Script
	n      int
}

func (nd *node) AttestationData(ctx context.Context, opts *api.AttestationDataOpts) (*api.Response[*phase0.AttestationData], error) {
	ri := runOf(ctx)
	if ri < 0 {
		nd.h.harness("AttestationData without run in context")
		return nil, env.ErrSimulated
	}
	if _, err := nd.script.Do(ctx, fmt.Sprintf("r%d.bn%d", ri, nd.n), "AttestationData", nil); err != nil {
		return nil, err
	}
	no := nd.h.Plan.Runs[ri].Nodes[nd.n]
	return &api.Response[*phase0.AttestationData]{Data: nodeData(nd.h.Plan, ri, no, opts.CommitteeIndex), Metadata: map[string]any{}}, nil
}

// dataSeam sits between the attester and its data provider and records what the attester was given.
type dataSeam struct {
	h     *History
	inner eth2client.AttestationDataProvider
	onRet func(ri int, d *phase0.AttestationData)
}

func (s *dataSeam) AttestationData(ctx context.Context, opts *api.AttestationDataOpts) (*api.Response[*phase0.AttestationData], error) {
	ri := runOf(ctx)
	if ri < 0 {
		s.h.harness("data seam without run in context")
		return nil, env.ErrSimulated
	}
	rec := s.h.Runs[ri]
	simrt.Crit(func() { rec.DataCalled = true })
	resp, err := s.inner.AttestationData(ctx, opts)
	simrt.Crit(func() {
		if err != nil {
			rec.DataErr = err
			rec.Fired["data-error"] = true
			return
		}
		rec.DataRet = copyData(resp.Data)
	})
	if err == nil && s.onRet != nil {
		s.onRet(ri, resp.Data)
	}
	return resp, err
}

type rootToSlot struct{ h *History }

func (c *rootToSlot) BlockRootToSlot(_ context.Context, r phase0.Root) (phase0.Slot, error) {
	simrt.Yield("stub/BlockRootToSlot")
	ri := runOfRoot(r[:], len(c.h.Plan.Runs))
	if ri < 0 {
		return 0, env.ErrSimulated
	}
	return phase0.Slot(c.h.Plan.slotOf(&c.h.Plan.Runs[ri]) - 1), nil
}

type accounts struct {
	h      *History
	script *env.Script
	accs   []e2wtypes.Account // by Vals index
}

func (a *accounts) ValidatingAccountsForEpoch(ctx context.Context, _ phase0.Epoch) (map[phase0.ValidatorIndex]e2wtypes.Account, error) {
	a.h.harness("unexpected ValidatingAccountsForEpoch")
	return nil, env.ErrSimulated
}

func (a *accounts) SyncCommitteeAccountsForEpoch(ctx context.Context, _ phase0.Epoch) (map[phase0.ValidatorIndex]e2wtypes.Account, error) {
	a.h.harness("unexpected SyncCommitteeAccountsForEpoch")
	return nil, env.ErrSimulated
}

func (a *accounts) SyncCommitteeAccountsForEpochByIndex(ctx context.Context, _ phase0.Epoch, _ []phase0.ValidatorIndex) (map[phase0.ValidatorIndex]e2wtypes.Account, error) {
	a.h.harness("unexpected SyncCommitteeAccountsForEpochByIndex")
	return nil, env.ErrSimulated
}

func (a *accounts) ValidatingAccountsForEpochByIndex(ctx context.Context, _ phase0.Epoch, indices []phase0.ValidatorIndex) (map[phase0.ValidatorIndex]e2wtypes.Account, error) {
	ri := runOf(ctx)
	if ri < 0 {
		a.h.harness("accounts provider without run in context")
		return nil, env.ErrSimulated
	}
	rec := a.h.Runs[ri]
	rp := &a.h.Plan.Runs[ri]
	simrt.Crit(func() {
		rec.AccCalled = true
		for _, i := range indices {
			rec.AccAsked = append(rec.AccAsked, uint64(i))
		}
	})
	if _, err := a.script.Do(ctx, fmt.Sprintf("r%d.acc", ri), "ValidatingAccounts", nil); err != nil {
		simrt.Crit(func() { rec.AccErr = true; rec.Fired["accounts-error"] = true })
		return nil, err
	}
	out := map[phase0.ValidatorIndex]e2wtypes.Account{}
	for _, i := range indices {
		for vi, v := range a.h.Plan.Vals {
			if v.Index != uint64(i) {
				continue
			}
			missing := false
			for _, m := range rp.Missing {
				if m == vi {
					missing = true
				}
			}
			if !missing {
				out[i] = a.accs[vi]
			}
		}
	}
	return out, nil
}

type submitter struct {
	h      *History
	script *env.Script
}

func (s *submitter) SubmitAttestations(ctx context.Context, atts []*phase0.Attestation) error {
	ri := runOf(ctx)
	if ri < 0 {
		s.h.harness("submitter without run in context")
		return env.ErrSimulated
	}
	rec := s.h.Runs[ri]
	sub := &Submission{Step: simrt.Step()}
	for _, a := range atts {
		sub.Atts = append(sub.Atts, copyAtt(a))
	}
	simrt.Crit(func() { rec.Submits = append(rec.Submits, sub) })
	if _, err := s.script.Do(ctx, fmt.Sprintf("r%d.sub", ri), "SubmitAttestations", nil); err != nil {
		simrt.Crit(func() { sub.Failed = true; rec.Fired["submit-error"] = true })
		return err
	}
	return nil
}

func (h *History) harness(msg string) {
	simrt.Crit(func() {
		if h.HarnessErr == "" {
			h.HarnessErr = msg
		}
	})
}

// SigningRoot is compute_signing_root of the consensus specification.
func SigningRoot(objectRoot phase0.Root, domain phase0.Domain) phase0.Root {
	sd := phase0.SigningData{ObjectRoot: objectRoot, Domain: domain}
	r, err := sd.HashTreeRoot()
	if err != nil {
		panic(err)
	}
	return r
}

// Exec runs the plan and returns the observed history.
func Exec(pl *Plan, sched *simrt.Tape, prop string, out *sim.Outcome) *History {
	h := &History{Plan: pl, Chain: env.DefaultChain(-1000 * time.Hour), Log: &env.SignerLog{}}
	for i := range pl.Runs {
		r := &pl.Runs[i]
		h.Runs = append(h.Runs, &RunRec{Idx: i, Slot: pl.slotOf(r), Epoch: pl.BaseEpoch + r.EpochOff, Fired: map[string]bool{}})
	}
	script := &env.Script{Outcomes: map[string][]env.Outcome{}}
	hasPlain := false
	for _, v := range pl.Vals {
		if v.Kind == int(env.KindPlain) {
			hasPlain = true
		}
	}
	for i := range pl.Runs {
		r := &pl.Runs[i]
		for n, no := range r.Nodes {
			script.Outcomes[fmt.Sprintf("r%d.bn%d/AttestationData", i, n)] = []env.Outcome{{Latency: no.Lat, Kind: no.Kind, Variant: no.Variant}}
		}
		script.Outcomes[fmt.Sprintf("r%d.sub/SubmitAttestations", i)] = []env.Outcome{r.Submit}
		if r.AccErr {
			script.Outcomes[fmt.Sprintf("r%d.acc/ValidatingAccounts", i)] = []env.Outcome{{Kind: "error"}}
		}
	}

	// Requests of plain accounts carry only a signing root; they are decoded
	// against the attestation data the attester was given for each run.
	type decoded struct {
		run       int
		slot      uint64
		committee uint64
		data      *phase0.AttestationData
	}
	plainTable := map[phase0.Root]decoded{}
	onData := func(ri int, d *phase0.AttestationData) {
		if !hasPlain || d == nil || d.Source == nil || d.Target == nil {
			return
		}
		dutySlot := h.Runs[ri].Slot
		slots := []uint64{dutySlot}
		if uint64(d.Slot) != dutySlot {
			slots = append(slots, uint64(d.Slot))
		}
		simrt.Crit(func() {
			for _, slot := range slots {
				for c := uint64(0); c < 4; c++ {
					ad := copyData(d)
					ad.Slot, ad.Index = phase0.Slot(slot), phase0.CommitteeIndex(c)
					or, err := ad.HashTreeRoot()
					if err != nil {
						continue
					}
					for _, ep := range []uint64{dutySlot / SlotsPerEpoch, slot / SlotsPerEpoch} {
						sr := SigningRoot(or, h.Chain.DomainAt(env.DomainBeaconAttester, phase0.Epoch(ep)))
						if _, exists := plainTable[sr]; !exists {
							plainTable[sr] = decoded{run: ri, slot: slot, committee: c, data: copyData(d)}
						}
					}
				}
			}
		})
	}
	valOfKey := func(key int) int {
		for vi, v := range pl.Vals {
			if v.Key == key {
				return vi
			}
		}
		return -1
	}
	h.Log.Fault = func(r *env.SignReq) (string, time.Duration) {
		ri := -1
		switch r.Method {
		case "SignBeaconAttestation", "SignBeaconAttestations":
			ri = runOfRoot(r.BlockRoot, len(pl.Runs))
		case "Sign":
			var sr phase0.Root
			copy(sr[:], r.Data)
			var d decoded
			ok := false
			simrt.Crit(func() { d, ok = plainTable[sr] })
			if ok {
				ri = d.run
				r.Slot, r.CommitteeIndex = d.slot, d.committee
				r.BlockRoot = append([]byte{}, d.data.BeaconBlockRoot[:]...)
				r.SourceEpoch, r.TargetEpoch = uint64(d.data.Source.Epoch), uint64(d.data.Target.Epoch)
				r.SourceRoot = append([]byte{}, d.data.Source.Root[:]...)
				r.TargetRoot = append([]byte{}, d.data.Target.Root[:]...)
				r.Tag = "decoded"
			}
		}
		if ri < 0 {
			r.Tag = "run=?"
			return "", 0
		}
		r.Tag = fmt.Sprintf("run=%d", ri)
		rp := &pl.Runs[ri]
		vi := valOfKey(r.KeyIndex)
		affected := vi >= 0 && rp.SignMask&(1<<vi) != 0
		switch rp.SignKind {
		case "error":
			if affected {
				simrt.Crit(func() { h.Runs[ri].Fired["signer-error"] = true })
				return "error", rp.SignLat
			}
		case "zero":
			if affected {
				simrt.Crit(func() { h.Runs[ri].Fired["signer-zero"] = true })
				return "zero", 0
			}
		case "lat":
			return "", rp.SignLat
		}
		return "", 0
	}

	res := sim.Run(sched, 3*time.Hour, 120000, nil, func(ctx context.Context) {
		chain := h.Chain
		cp := &env.ChainProviders{C: chain}
		ct := env.NewChainTime(ctx, chain)
		mon := nullmetrics.New()

		accs := &accounts{h: h, script: script}
		for _, v := range pl.Vals {
			accs.accs = append(accs.accs, env.NewAccount(h.Log, env.AccountKind(v.Kind), v.Key, fmt.Sprintf("val%d", v.Index)))
		}
		nodes := map[string]eth2client.AttestationDataProvider{}
		for n := 0; n < pl.NNodes; n++ {
			nodes[fmt.Sprintf("bn%d", n)] = &node{h: h, script: script, n: n}
		}
		var provider eth2client.AttestationDataProvider
		var err error
		switch pl.Mode {
		case "direct":
			provider = nodes["bn0"]
		case "first":
			provider, err = firstdata.New(ctx, firstdata.WithLogLevel(zerolog.Disabled), firstdata.WithClientMonitor(mon),
				firstdata.WithAttestationDataProviders(nodes), firstdata.WithTimeout(pl.Timeout))
		case "best":
			provider, err = bestdata.New(ctx, bestdata.WithLogLevel(zerolog.Disabled), bestdata.WithClientMonitor(mon),
				bestdata.WithProcessConcurrency(2), bestdata.WithAttestationDataProviders(nodes), bestdata.WithTimeout(pl.Timeout),
				bestdata.WithChainTime(ct), bestdata.WithBlockRootToSlotCache(&rootToSlot{h}))
		case "majority":
			provider, err = majoritydata.New(ctx, majoritydata.WithLogLevel(zerolog.Disabled), majoritydata.WithClientMonitor(mon),
				majoritydata.WithProcessConcurrency(2), majoritydata.WithAttestationDataProviders(nodes), majoritydata.WithTimeout(pl.Timeout),
				majoritydata.WithChainTime(ct), majoritydata.WithBlockRootToSlotCache(&rootToSlot{h}), majoritydata.WithThreshold(1))
		}
		if err != nil {
			panic(err)
		}
		sgn, err := standardsigner.New(ctx, standardsigner.WithLogLevel(zerolog.Disabled), standardsigner.WithMonitor(mon),
			standardsigner.WithClientMonitor(mon), standardsigner.WithSpecProvider(cp), standardsigner.WithDomainProvider(cp))
		if err != nil {
			panic(err)
		}
		att, err := standardattester.New(ctx, standardattester.WithLogLevel(zerolog.Disabled), standardattester.WithMonitor(mon),
			standardattester.WithProcessConcurrency(2), standardattester.WithChainTime(ct), standardattester.WithSpecProvider(cp),
			standardattester.WithAttestationDataProvider(&dataSeam{h: h, inner: provider, onRet: onData}),
			standardattester.WithAttestationsSubmitter(&submitter{h: h, script: script}),
			standardattester.WithValidatingAccountsProvider(accs),
			standardattester.WithBeaconAttestationsSigner(sgn))
		if err != nil {
			panic(err)
		}
		var svc attester.Service = att

		done := 0
		for c := 0; c < pl.Clients; c++ {
			simrt.Go(fmt.Sprintf("client%d", c), func() {
				defer simrt.Crit(func() { done++ })
				for ri := range pl.Runs {
					rp := &pl.Runs[ri]
					if rp.Client != c {
						continue
					}
					rec := h.Runs[ri]
					simrt.Sleep(ctx, rp.Delay, "client/delay")
					if !admit(ctx, h, rec) {
						continue
					}
					duty := buildDuty(ctx, pl, rp, rec.Slot)
					rctx := context.WithValue(ctx, runKey{}, ri)
					rec.CallStep = simrt.Step()
					atts, err := svc.Attest(rctx, duty)
					simrt.Yield("client/ret")
					simrt.Crit(func() {
						rec.RetStep = simrt.Step()
						rec.Returned = true
						rec.RetErr = err
						for _, a := range atts {
							rec.Ret = append(rec.Ret, copyAtt(a))
						}
					})
				}
			})
		}
		for {
			n := 0
			simrt.Crit(func() { n = done })
			if n == pl.Clients {
				break
			}
			simrt.Sleep(ctx, 2*time.Second, "main/wait")
		}
		// let late answers of slow nodes drain
		simrt.Sleep(ctx, 3*time.Second, "main/drain")
	})
	out.Res = res
	h.Reqs = h.Log.Snapshot()
	if res.Violation != nil {
		out.Violation = res.Violation
		if res.Violation.Kind == "panic" || res.Violation.Kind == "deadlock" || res.Violation.Kind == "horizon" {
			out.Violation.Kind = prop + "/" + res.Violation.Kind
		}
		return h
	}
	if h.HarnessErr != "" {
		out.Violation = env.Viol("harness-attsim", "%s", h.HarnessErr)
	}
	return h
}

// admit applies the domain restriction of C01 (the attested set is only kept
// for the previous epoch): a duty is not issued when a run two or more epochs
// later has been issued, and a run waits for in-flight runs two or more epochs
// older to return.  It marks the run issued.
func admit(ctx context.Context, h *History, rec *RunRec) bool {
	for tries := 0; ; tries++ {
		verdict := ""
		simrt.Crit(func() {
			for _, o := range h.Runs {
				if !o.Issued || o == rec {
					continue
				}
				if o.Epoch >= rec.Epoch+2 {
					verdict = "skip"
					return
				}
				if !o.Returned && o.Epoch+2 <= rec.Epoch {
					verdict = "wait"
				}
			}
			if verdict == "" {
				rec.Issued = true
			}
		})
		switch verdict {
		case "":
			return true
		case "skip":
			rec.Skipped = "epoch two or more below an issued run"
			simrt.Probe("domain:skipped-too-old")
			return false
		}
		if tries == 0 {
			simrt.Probe("domain:waited-for-older-run")
		}
		if tries > 2000 {
			rec.Skipped = "older run never returned"
			return false
		}
		simrt.Sleep(ctx, time.Second, "client/admit-wait")
	}
}

func buildDuty(ctx context.Context, pl *Plan, rp *RunPlan, slot uint64) *attester.Duty {
	if rp.Merge {
		var in []*apiv1.AttesterDuty
		for _, e := range rp.Entries {
			v := pl.Vals[e.V]
			in = append(in, &apiv1.AttesterDuty{
				PubKey: env.PubKey(v.Key), Slot: phase0.Slot(slot), ValidatorIndex: phase0.ValidatorIndex(v.Index),
				CommitteeIndex: phase0.CommitteeIndex(e.Committee), CommitteeLength: rp.Sizes[e.Committee], CommitteesAtSlot: 4,
				ValidatorCommitteeIndex: e.Pos,
			})
		}
		// as in a node's answer for an epoch: the same committee numbers occur at the other slots too, with
		// other validators and committees of slightly different lengths (the duty of this slot must not notice)
		for i, e := range rp.Entries {
			for _, other := range []uint64{slot + 1, slot + 2} {
				in = append(in, &apiv1.AttesterDuty{
					PubKey: env.PubKey(pl.Vals[e.V].Key), Slot: phase0.Slot(other), ValidatorIndex: phase0.ValidatorIndex(900000 + 10*i + int(other-slot)),
					CommitteeIndex: phase0.CommitteeIndex(e.Committee), CommitteeLength: rp.Sizes[e.Committee] + 7*(other-slot), CommitteesAtSlot: 4,
					ValidatorCommitteeIndex: 0,
				})
			}
		}
		if rp.Large && len(rp.Entries) > 0 {
			// forty more duties of other validators in the following slots
			for i := 0; i < 40; i++ {
				other := slot + 3 + uint64(i%8)
				in = append(in, &apiv1.AttesterDuty{
					PubKey: env.PubKey(pl.Vals[rp.Entries[0].V].Key), Slot: phase0.Slot(other), ValidatorIndex: phase0.ValidatorIndex(800000 + i),
					CommitteeIndex: phase0.CommitteeIndex(i % 4), CommitteeLength: 64, CommitteesAtSlot: 4,
					ValidatorCommitteeIndex: uint64(i),
				})
			}
		}
		duties, err := attester.MergeDuties(ctx, in)
		if err != nil {
			panic(fmt.Sprintf("MergeDuties: %v (%d duties)", err, len(duties)))
		}
		for _, d := range duties {
			if uint64(d.Slot()) == slot {
				return d
			}
		}
		panic(fmt.Sprintf("MergeDuties: no duty for slot %d among %d", slot, len(duties)))
	}
	var vis []phase0.ValidatorIndex
	var cis []phase0.CommitteeIndex
	var pos []uint64
	sizes := map[phase0.CommitteeIndex]uint64{}
	for _, e := range rp.Entries {
		vis = append(vis, phase0.ValidatorIndex(pl.Vals[e.V].Index))
		cis = append(cis, phase0.CommitteeIndex(e.Committee))
		pos = append(pos, e.Pos)
		sizes[phase0.CommitteeIndex(e.Committee)] = rp.Sizes[e.Committee]
	}
	d, err := attester.NewDuty(ctx, phase0.Slot(slot), 4, vis, cis, pos, sizes)
	if err != nil {
		panic(err)
	}
	return d
}
