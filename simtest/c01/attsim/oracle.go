package attsim

import (
	"bytes"
	"fmt"
	"sort"
	"strconv"
	"strings"

	"github.com/attestantio/go-eth2-client/spec/phase0"

	"verif/sim"
	"verif/simrt"
	"verif/simtest/env"
)

// req is a signer-side request with its attribution.
type req struct {
	*env.SignReq
	run int // index of the Attest run whose data it carries, -1 unknown
	val int // Vals index of the key, -1 unknown
}

func (h *History) valOfKey(key int) int {
	for vi, v := range h.Plan.Vals {
		if v.Key == key {
			return vi
		}
	}
	return -1
}

func (h *History) requests() []*req {
	var out []*req
	for _, r := range h.Reqs {
		q := &req{SignReq: r, run: -1, val: h.valOfKey(r.KeyIndex)}
		if strings.HasPrefix(r.Tag, "run=") {
			if n, err := strconv.Atoi(r.Tag[4:]); err == nil {
				q.run = n
			}
		}
		out = append(out, q)
	}
	return out
}

func isAttMethod(m string) bool {
	return m == "SignBeaconAttestation" || m == "SignBeaconAttestations"
}

// dataClass judges attestation data against the duty slot by the rules of the
// C01 statement: "" = acceptable, otherwise which rule it breaks.
func dataClass(d *phase0.AttestationData, dutySlot uint64) string {
	switch {
	case uint64(d.Slot) != dutySlot:
		return "wrong-slot"
	case d.Source.Epoch > d.Target.Epoch:
		return "source-above-target"
	case uint64(d.Target.Epoch) > dutySlot/SlotsPerEpoch:
		return "target-above-duty-epoch"
	case uint64(d.Target.Epoch) < dutySlot/SlotsPerEpoch:
		return "target-below-duty-epoch"
	}
	return ""
}

func reqMatchesData(q *req, d *phase0.AttestationData) bool {
	return bytes.Equal(q.BlockRoot, d.BeaconBlockRoot[:]) &&
		q.SourceEpoch == uint64(d.Source.Epoch) && bytes.Equal(q.SourceRoot, d.Source.Root[:]) &&
		q.TargetEpoch == uint64(d.Target.Epoch) && bytes.Equal(q.TargetRoot, d.Target.Root[:])
}

func (h *History) bySignature(reqs []*req, sig []byte) *req {
	for _, q := range reqs {
		if q.Signature != nil && bytes.Equal(q.Signature, sig) {
			return q
		}
	}
	return nil
}

func hasVal(rp *RunPlan, vi int) *Entry {
	for i := range rp.Entries {
		if rp.Entries[i].V == vi {
			return &rp.Entries[i]
		}
	}
	return nil
}

// OracleC01 judges the signer-side history by the C01 statement.
func OracleC01(h *History, out *sim.Outcome) *simrt.Violation {
	pl := h.Plan
	reqs := h.requests()
	c01Probes(h, reqs, out)

	// what arrives at the signer must be an attestation request we can read
	for _, q := range reqs {
		switch {
		case q.Method == "Sign" && q.run < 0:
			return env.Viol("C01/undecodable-plain-request", "key %d was asked to sign root %x which is not the signing root of the data of any run", q.KeyIndex, q.Data)
		case q.Method != "Sign" && !isAttMethod(q.Method):
			return env.Viol("C01/unexpected-signing-method", "signer saw %s for key %d", q.Method, q.KeyIndex)
		}
	}
	// (3) data that breaks the rules is refused: no request, no submission
	for _, rec := range h.Runs {
		if rec.DataRet == nil {
			continue
		}
		class := dataClass(rec.DataRet, rec.Slot)
		if class == "" {
			continue
		}
		out.Probes["invalid-data-returned:"+class]++
		for _, q := range reqs {
			if q.run == rec.Idx {
				return env.Viol("C01/invalid-data-signed:"+class, "run %d (duty slot %d, epoch %d) was given data slot=%d source=%d target=%d and asked key %d to sign it (%s)",
					rec.Idx, rec.Slot, rec.Epoch, rec.DataRet.Slot, rec.DataRet.Source.Epoch, rec.DataRet.Target.Epoch, q.KeyIndex, q.Method)
			}
		}
		if len(rec.Submits) > 0 {
			return env.Viol("C01/invalid-data-submitted:"+class, "run %d submitted %d attestations although its data was refused-worthy", rec.Idx, len(rec.Submits[0].Atts))
		}
		out.Probes["invalid-data-refused"]++
	}
	// (2) every request carries the duty's slot, target = epoch(slot), source <= target
	for _, q := range reqs {
		if q.KeyIndex < 0 {
			continue
		}
		if q.run < 0 {
			return env.Viol("C01/request-unknown-data", "key %d asked to sign slot %d block root %x which no run was given", q.KeyIndex, q.Slot, q.BlockRoot)
		}
		rec := h.Runs[q.run]
		switch {
		case rec.DataRet == nil:
			return env.Viol("C01/signed-without-data", "run %d obtained no data but key %d was asked to sign", rec.Idx, q.KeyIndex)
		case q.Slot != rec.Slot:
			return env.Viol("C01/request-wrong-slot", "run %d duty slot %d: key %d asked to sign slot %d", rec.Idx, rec.Slot, q.KeyIndex, q.Slot)
		case q.TargetEpoch < q.Slot/SlotsPerEpoch:
			return env.Viol("C01/request-target-below-slot-epoch", "run %d: key %d slot %d target epoch %d", rec.Idx, q.KeyIndex, q.Slot, q.TargetEpoch)
		case q.TargetEpoch > q.Slot/SlotsPerEpoch:
			return env.Viol("C01/request-target-above-slot-epoch", "run %d: key %d slot %d target epoch %d", rec.Idx, q.KeyIndex, q.Slot, q.TargetEpoch)
		case q.SourceEpoch > q.TargetEpoch:
			return env.Viol("C01/request-source-above-target", "run %d: key %d source %d target %d", rec.Idx, q.KeyIndex, q.SourceEpoch, q.TargetEpoch)
		}
	}
	// (1) at most one request per (validator key, epoch)
	type ke struct {
		key   int
		epoch uint64
	}
	first := map[ke]*req{}
	for _, q := range reqs {
		if q.KeyIndex < 0 {
			continue
		}
		k := ke{q.KeyIndex, q.Slot / SlotsPerEpoch}
		if f, seen := first[k]; seen {
			// two duty jobs that overlapped in time and both signed: no sequential order of the
			// two explains it (C17 reads this marker); one after the other: plain C01
			overlap := ""
			if a, b := h.Runs[f.run], h.Runs[q.run]; f.run != q.run && a.CallStep <= endStep(b) && b.CallStep <= endStep(a) {
				overlap = " " + OverlapMarker
			}
			return env.Viol("C01/double-sign-request", "key %d (validator %d) epoch %d: asked to sign in run %d (slot %d, step %d, %s) and again in run %d (slot %d, step %d, %s); runs: %s%s",
				q.KeyIndex, pl.Vals[q.val].Index, k.epoch, f.run, f.Slot, f.Step, f.Outcome, q.run, q.Slot, q.Step, q.Outcome, h.describeRuns(f.run, q.run), overlap)
		}
		first[k] = q
	}
	// (4) what is submitted is what was signed
	for _, rec := range h.Runs {
		for _, sub := range rec.Submits {
			for _, a := range sub.Atts {
				q := h.bySignature(reqs, a.Signature[:])
				switch {
				case q == nil:
					return env.Viol("C01/submitted-unknown-signature", "run %d submitted an attestation whose signature no signing request produced", rec.Idx)
				case q.run != rec.Idx:
					return env.Viol("C01/submitted-other-runs-signature", "run %d submitted a signature produced for run %d", rec.Idx, q.run)
				case uint64(a.Data.Slot) != q.Slot || uint64(a.Data.Index) != q.CommitteeIndex || !reqMatchesData(q, a.Data):
					return env.Viol("C01/submitted-differs-from-signed", "run %d: submitted slot=%d index=%d source=%d target=%d root=%x, signed slot=%d index=%d source=%d target=%d root=%x",
						rec.Idx, a.Data.Slot, a.Data.Index, a.Data.Source.Epoch, a.Data.Target.Epoch, a.Data.BeaconBlockRoot[:4], q.Slot, q.CommitteeIndex, q.SourceEpoch, q.TargetEpoch, q.BlockRoot[:4])
				}
				out.Probes["submitted-checked"]++
			}
		}
	}
	return nil
}

func (h *History) describeRuns(idx ...int) string {
	var b []string
	for _, i := range idx {
		if i < 0 || i >= len(h.Runs) {
			continue
		}
		rec := h.Runs[i]
		b = append(b, fmt.Sprintf("run%d[%s slot %d steps %d..%d err=%v]", i, h.Plan.Runs[i].Origin, rec.Slot, rec.CallStep, rec.RetStep, rec.RetErr))
	}
	return strings.Join(b, " ")
}

func c01Probes(h *History, reqs []*req, out *sim.Outcome) {
	pl := h.Plan
	out.Probes["requests"] += len(reqs)
	for i, a := range h.Runs {
		if !a.Issued {
			continue
		}
		out.Probes["runs-issued"]++
		if a.Returned && a.RetErr == nil {
			out.Probes["runs-ok"]++
		}
		out.Probes["origin:"+pl.Runs[i].Origin]++
		for j, b := range h.Runs {
			if j == i || !b.Issued || a.Epoch != b.Epoch {
				continue
			}
			shared := false
			for _, e := range pl.Runs[i].Entries {
				if hasVal(&pl.Runs[j], e.V) != nil {
					shared = true
				}
			}
			if !shared || a.CallStep > b.CallStep {
				continue
			}
			// a was called first
			out.Nontrivial = true
			out.Probes["shared-validator-same-epoch"]++
			if b.CallStep < a.RetStep {
				out.Probes["overlapping-runs-shared-validator"]++
			} else if a.RetErr != nil {
				out.Probes["retry-after-failed-run"]++
			}
			if a.Slot != b.Slot {
				out.Probes["shared-validator-other-slot"]++
			}
			// a later-epoch run completed in between: the attested set of the older epoch must have survived
			for _, c := range h.Runs {
				if c.Issued && c.Returned && c.RetErr == nil && c.Epoch == a.Epoch+1 && c.CallStep > a.CallStep && c.RetStep < b.CallStep {
					out.Probes["older-epoch-rerun-after-newer-epoch-completed"]++
					break
				}
			}
		}
	}
}

// OracleC04 judges every submitted attestation and its signing request against
// the duty entry of the validator whose account signed it.
func OracleC04(h *History, out *sim.Outcome) *simrt.Violation {
	pl := h.Plan
	reqs := h.requests()
	byRun := map[int][]*req{}
	for _, q := range reqs {
		if q.KeyIndex < 0 {
			return env.Viol("C04/request-without-account", "a batch entry without a usable account reached the signer (method %s, batch index %d)", q.Method, q.BatchIndex)
		}
		if q.Method != "Sign" && !isAttMethod(q.Method) {
			return env.Viol("C04/unexpected-signing-method", "signer saw %s for key %d", q.Method, q.KeyIndex)
		}
		if q.Method == "Sign" && q.run < 0 {
			return env.Viol("C04/undecodable-plain-request", "key %d was asked to sign root %x which is not the signing root of any run's data with a committee index of the universe", q.KeyIndex, q.Data)
		}
		if q.run < 0 {
			return env.Viol("C04/signed-data-differs-from-provider", "key %d asked to sign slot %d block root %x which no run was given", q.KeyIndex, q.Slot, q.BlockRoot)
		}
		byRun[q.run] = append(byRun[q.run], q)
	}
	for _, rec := range h.Runs {
		rp := &pl.Runs[rec.Idx]
		// the signing requests of the run
		signed := map[int]*req{} // Vals index -> request that produced a signature
		faulted := false
		for f := range rec.Fired {
			if f != "signer-zero" {
				faulted = true
			}
		}
		signFailed := rec.Fired["signer-error"]
		for _, q := range byRun[rec.Idx] {
			if rec.DataRet == nil {
				return env.Viol("C04/signed-without-data", "run %d obtained no data but key %d was asked to sign", rec.Idx, q.KeyIndex)
			}
			e := hasVal(rp, q.val)
			switch {
			case e == nil:
				return env.Viol("C04/signed-for-validator-not-in-duty", "run %d: key %d asked to sign, not in duty %v", rec.Idx, q.KeyIndex, rp.Entries)
			case q.Slot != rec.Slot:
				return env.Viol("C04/signed-wrong-slot", "run %d duty slot %d: key %d asked to sign slot %d", rec.Idx, rec.Slot, q.KeyIndex, q.Slot)
			case q.CommitteeIndex != e.Committee:
				return env.Viol("C04/signed-wrong-committee-index", "run %d: validator %d (key %d) is in committee %d position %d, asked to sign committee index %d; duty %s; asked accounts for %v",
					rec.Idx, pl.Vals[q.val].Index, q.KeyIndex, e.Committee, e.Pos, q.CommitteeIndex, h.dutyString(rp), rec.AccAsked)
			case !reqMatchesData(q, rec.DataRet):
				return env.Viol("C04/signed-data-differs-from-provider", "run %d: key %d asked to sign source=%d target=%d root=%x, provider returned source=%d target=%d root=%x",
					rec.Idx, q.KeyIndex, q.SourceEpoch, q.TargetEpoch, q.BlockRoot[:4], rec.DataRet.Source.Epoch, rec.DataRet.Target.Epoch, rec.DataRet.BeaconBlockRoot[:4])
			}
			if q.Outcome == "zero" && q.Method != "SignBeaconAttestations" {
				// a single-request signer has no "no signature" answer: the whole signing call fails
				faulted, signFailed = true, true
			}
			if q.Signature != nil {
				if signed[q.val] != nil {
					return env.Viol("C04/validator-signed-twice-in-run", "run %d: key %d signed twice", rec.Idx, q.KeyIndex)
				}
				signed[q.val] = q
			}
		}
		// the submitted attestations
		submitted := map[int]bool{}
		for _, sub := range rec.Submits {
			for _, a := range sub.Atts {
				q := h.bySignature(reqs, a.Signature[:])
				if q == nil {
					return env.Viol("C04/attestation-signature-unknown", "run %d submitted an attestation whose signature no account produced (zero signature: %v)", rec.Idx, a.Signature.IsZero())
				}
				if q.run != rec.Idx {
					return env.Viol("C04/attestation-signature-of-other-run", "run %d submitted a signature produced for run %d", rec.Idx, q.run)
				}
				e := hasVal(rp, q.val)
				if e == nil {
					return env.Viol("C04/attestation-for-validator-not-in-duty", "run %d: attestation signed by key %d, not in duty", rec.Idx, q.KeyIndex)
				}
				vIndex := pl.Vals[q.val].Index
				size := rp.Sizes[e.Committee]
				bits := a.AggregationBits
				switch {
				case uint64(a.Data.Slot) != rec.Slot:
					return env.Viol("C04/attestation-wrong-slot", "run %d duty slot %d: attestation of validator %d has slot %d", rec.Idx, rec.Slot, vIndex, a.Data.Slot)
				case uint64(a.Data.Index) != e.Committee:
					return env.Viol("C04/attestation-wrong-committee-index", "run %d: validator %d is in committee %d position %d, attestation has committee index %d; duty %s",
						rec.Idx, vIndex, e.Committee, e.Pos, a.Data.Index, h.dutyString(rp))
				case bits.Len() != size:
					return env.Viol("C04/attestation-wrong-committee-size", "run %d: validator %d committee %d has size %d, aggregation bits have length %d; duty %s",
						rec.Idx, vIndex, e.Committee, size, bits.Len(), h.dutyString(rp))
				case bits.Count() != 1 || !bits.BitAt(e.Pos):
					return env.Viol("C04/attestation-wrong-position", "run %d: validator %d has position %d in committee %d, aggregation bits set %v; duty %s",
						rec.Idx, vIndex, e.Pos, e.Committee, bits.BitIndices(), h.dutyString(rp))
				case a.Data.BeaconBlockRoot != rec.DataRet.BeaconBlockRoot || *a.Data.Source != *rec.DataRet.Source || *a.Data.Target != *rec.DataRet.Target:
					return env.Viol("C04/attestation-data-differs-from-provider", "run %d: validator %d attestation source=%d target=%d root=%x, provider returned source=%d target=%d root=%x",
						rec.Idx, vIndex, a.Data.Source.Epoch, a.Data.Target.Epoch, a.Data.BeaconBlockRoot[:4], rec.DataRet.Source.Epoch, rec.DataRet.Target.Epoch, rec.DataRet.BeaconBlockRoot[:4])
				case submitted[q.val]:
					return env.Viol("C04/duplicate-attestation", "run %d: two attestations of validator %d", rec.Idx, vIndex)
				}
				// a validator that attested earlier in the epoch contributes none
				for _, o := range reqs {
					if o.KeyIndex == q.KeyIndex && o.run != q.run && o.Slot/SlotsPerEpoch == q.Slot/SlotsPerEpoch && o.Seq < q.Seq {
						return env.Viol("C04/already-attested-validator-attested-again", "run %d: validator %d attests although run %d already asked for its signature this epoch", rec.Idx, vIndex, o.run)
					}
				}
				for _, m := range rp.Missing {
					if m == q.val {
						return env.Viol("C04/attestation-for-validator-without-account", "run %d: validator %d has no account in this run", rec.Idx, vIndex)
					}
				}
				submitted[q.val] = true
				out.Probes["attestation-checked"]++
			}
		}
		// counts: exactly the validators that returned a signature
		if !signFailed {
			for vi := range pl.Vals {
				if signed[vi] != nil && !submitted[vi] && len(rec.Submits) > 0 {
					return env.Viol("C04/signed-but-not-submitted", "run %d: validator %d signed but is missing from the submission", rec.Idx, pl.Vals[vi].Index)
				}
			}
			if len(signed) > 0 && len(rec.Submits) == 0 && rec.Returned {
				return env.Viol("C04/signed-but-not-submitted", "run %d: %d signatures obtained, nothing submitted", rec.Idx, len(signed))
			}
		}
		if rec.Returned && rec.RetErr == nil {
			if len(rec.Ret) != len(submitted) {
				return env.Viol("C04/returned-differs-from-submitted", "run %d returned %d attestations, submitted %d", rec.Idx, len(rec.Ret), len(submitted))
			}
			for _, a := range rec.Ret {
				q := h.bySignature(reqs, a.Signature[:])
				if q == nil || !submitted[q.val] {
					return env.Viol("C04/returned-differs-from-submitted", "run %d returned an attestation that was not submitted", rec.Idx)
				}
			}
		}
		// validators that must be there
		skippedAttested, skippedNoAccount, skippedZero := 0, 0, 0
		for i := range rp.Entries {
			e := &rp.Entries[i]
			vIndex := pl.Vals[e.V].Index
			missing := false
			for _, m := range rp.Missing {
				if m == e.V {
					missing = true
				}
			}
			zero := rp.SignKind == "zero" && rp.SignMask&(1<<e.V) != 0
			claimed, attestedBefore := false, false
			for _, o := range h.Runs {
				if o == rec || !o.Issued || o.Epoch != rec.Epoch || hasVal(&pl.Runs[o.Idx], e.V) == nil {
					continue
				}
				if !rec.Returned || o.CallStep < rec.RetStep {
					claimed = true
				}
			}
			for _, o := range reqs {
				if o.val == e.V && o.run != rec.Idx && o.Slot/SlotsPerEpoch == rec.Epoch && (len(byRun[rec.Idx]) == 0 || o.Seq < byRun[rec.Idx][0].Seq) {
					attestedBefore = true
				}
			}
			switch {
			case attestedBefore:
				skippedAttested++
			case missing:
				skippedNoAccount++
			case zero:
				skippedZero++
			}
			if !rec.Issued || !rec.Returned || faulted || rec.DataRet == nil || dataClass(rec.DataRet, rec.Slot) != "" || missing || zero || claimed {
				continue
			}
			if !submitted[e.V] {
				return env.Viol("C04/missing-attestation", "run %d (no fault fired, returned err=%v): validator %d has an account, was not attested before and got no attestation; duty %s", rec.Idx, rec.RetErr, vIndex, h.dutyString(rp))
			}
			out.Probes["must-attest-checked"]++
		}
		if len(submitted) > 0 {
			if skippedAttested > 0 {
				out.Probes["run-with-already-attested-validator"]++
				out.Nontrivial = true
			}
			if skippedNoAccount > 0 {
				out.Probes["run-with-validator-without-account"]++
				out.Nontrivial = true
			}
			if skippedZero > 0 {
				out.Probes["run-with-unsigned-validator"]++
				out.Nontrivial = true
			}
			dist, ord := false, false
			for vi := range submitted {
				if pl.Vals[vi].Kind == int(env.KindDistributed) {
					dist = true
				} else {
					ord = true
				}
			}
			if dist && ord {
				out.Probes["run-with-ordinary-and-distributed"]++
			}
			if rp.Merge {
				out.Probes["duty-through-MergeDuties"]++
			}
		}
	}
	return nil
}

func (h *History) dutyString(rp *RunPlan) string {
	var b []string
	for _, e := range rp.Entries {
		b = append(b, fmt.Sprintf("(val %d: committee %d pos %d size %d)", h.Plan.Vals[e.V].Index, e.Committee, e.Pos, rp.Sizes[e.Committee]))
	}
	if rp.Merge {
		sort.Strings(b)
	}
	return strings.Join(b, " ")
}

// OverlapMarker is appended to a double-sign report when the two duty jobs overlapped in time.
const OverlapMarker = "[overlapping-runs]"

func endStep(r *RunRec) int {
	if !r.Returned {
		return int(^uint(0) >> 1)
	}
	return r.RetStep
}
