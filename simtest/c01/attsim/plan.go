// Package attsim is the attestation scenario shared by the C01 and C04 checks:
// real services/attester/standard + real services/signer/standard + one of the
// real attestation data strategies (or a single simulated node), driven by
// client tasks that issue Attest calls with arbitrary overlap.
package attsim

import (
	"time"

	"verif/simrt"
	"verif/simtest/env"
)

// Val is one validator of the universe.
type Val struct {
	Index uint64 `json:"index"` // validator index on chain
	Key   int    `json:"key"`   // env key index
	Kind  int    `json:"kind"`  // env.AccountKind
}

// Entry is one validator's assignment in a duty.
type Entry struct {
	V         int    `json:"v"` // index into Plan.Vals
	Committee uint64 `json:"c"`
	Pos       uint64 `json:"pos"`
}

// NodeOut is what one simulated beacon node answers for one run.
type NodeOut struct {
	Lat time.Duration `json:"lat"`
	// Kind: "" | "error" | "hang" | "odd"
	Kind    string `json:"kind,omitempty"`
	Variant int    `json:"variant,omitempty"` // odd content selector, see oddNames
	SrcBack uint64 `json:"srcback,omitempty"` // source epoch = target epoch - 1 - SrcBack (valid data)
}

// RunPlan is one Attest call.
type RunPlan struct {
	Client   int           `json:"client"`
	Delay    time.Duration `json:"delay"` // after the client's previous call returned
	EpochOff uint64        `json:"epoch_off"`
	SlotIn   uint64        `json:"slot_in"`
	Entries  []Entry       `json:"entries"`
	Sizes    [4]uint64     `json:"sizes"` // committee index -> committee size
	Merge    bool          `json:"merge,omitempty"`
	// Large: the answer that is merged is as long as a busy node's for an epoch (dozens of duties)
	Large bool `json:"large,omitempty"`
	Origin   string        `json:"origin,omitempty"` // fresh | redeliver | reorg
	Nodes    []NodeOut     `json:"nodes"`
	Missing  []int         `json:"missing,omitempty"` // Vals without an account in this run
	AccErr   bool          `json:"acc_err,omitempty"`
	// signer fault for the requests of this run
	SignKind string        `json:"sign_kind,omitempty"` // "" | error | zero | lat
	SignMask int           `json:"sign_mask,omitempty"` // bit per Vals index
	SignLat  time.Duration `json:"sign_lat,omitempty"`
	Submit   env.Outcome   `json:"submit"`
}

// Plan is the whole case.
type Plan struct {
	Focus     string        `json:"focus"`
	BaseEpoch uint64        `json:"base_epoch"`
	Vals      []Val         `json:"vals"`
	Mode      string        `json:"mode"` // direct | first | best | majority
	NNodes    int           `json:"nnodes"`
	Timeout   time.Duration `json:"timeout"`
	Clients   int           `json:"clients"`
	Runs      []RunPlan     `json:"runs"`
}

// SlotsPerEpoch of the simulated chain (env.DefaultChain).
const SlotsPerEpoch = 8

// Odd content, restricted to what the C01 statement lists.
var oddNames = []string{
	"slot+1", "slot-1", "slot+epoch", // wrong slot
	"source>target",                      // source epoch above target epoch
	"target+1",                           // target epoch above the duty epoch
	"target-1", "target-1,source=target", // target epoch below the duty epoch
	"slot+epoch,target+1", // self-consistent data of the wrong slot
}

var slotIns = []uint64{0, 3, 7}

func (pl *Plan) slotOf(r *RunPlan) uint64 {
	return (pl.BaseEpoch+r.EpochOff)*SlotsPerEpoch + r.SlotIn
}

// GenC01 draws a plan with the C01 emphasis: many runs, much overlap, all fault kinds.
func GenC01(p *simrt.Tape) any { return gen(p, "c01") }

// GenC04 draws a plan with the C04 emphasis: content of duties, skipped validators.
func GenC04(p *simrt.Tape) any { return gen(p, "c04") }

func gen(p *simrt.Tape, focus string) *Plan {
	c04 := focus == "c04"
	pl := &Plan{Focus: focus, BaseEpoch: uint64(p.Range(2, 5)), Timeout: 2 * time.Second}
	nv := p.Range(2, 6)
	for i := 0; i < nv; i++ {
		kind := int(env.KindMulti)
		if c04 {
			// mixture of ordinary and distributed accounts, sometimes the single-request kinds
			switch {
			case p.Pct(40):
				kind = int(env.KindDistributed)
			case p.Pct(15):
				kind = p.Pick(2) // plain | protecting
			}
		} else if p.Pct(25) {
			kind = p.Pick(4)
		}
		pl.Vals = append(pl.Vals, Val{Index: uint64(100 + 7*i), Key: i, Kind: kind})
	}
	modes := []string{"direct", "direct", "first", "best", "majority"}
	if c04 {
		modes = []string{"direct", "direct", "direct", "first", "best"}
	}
	pl.Mode = modes[p.Pick(len(modes))]
	pl.NNodes = 1
	if pl.Mode != "direct" {
		pl.NNodes = p.Range(1, 3)
	}
	var nruns int
	if c04 {
		pl.Clients = 1
		if p.Pct(35) {
			pl.Clients = 2
		}
		nruns = p.Range(1, 5)
	} else {
		pl.Clients = p.Range(2, 4)
		nruns = p.Range(2, 6)
		if p.Pct(35) {
			nruns = p.Range(7, 12)
		}
	}
	delays := []time.Duration{0, 0, 1, time.Millisecond, 100 * time.Millisecond, time.Second, 3 * time.Second}
	epochOff := uint64(0)
	for i := 0; i < nruns; i++ {
		r := RunPlan{Client: p.Pick(pl.Clients), Delay: delays[p.Pick(len(delays))], Origin: "fresh"}
		derived := false
		if i > 0 {
			switch {
			case p.Pct(18): // the same duty delivered again
				src := pl.Runs[p.Pick(i)]
				r.EpochOff, r.SlotIn, r.Sizes, r.Merge, r.Large = src.EpochOff, src.SlotIn, src.Sizes, src.Merge, src.Large
				r.Entries = append([]Entry{}, src.Entries...)
				r.Origin = "redeliver"
				derived = true
			case p.Pct(18): // reorg: (some of) the validators move to another slot of the same epoch
				src := pl.Runs[p.Pick(i)]
				r.EpochOff, r.Sizes = src.EpochOff, src.Sizes
				r.SlotIn = slotIns[(indexOf(slotIns, src.SlotIn)+1+p.Pick(2))%3]
				for _, e := range src.Entries {
					if len(r.Entries) == 0 || p.Pct(70) {
						r.Entries = append(r.Entries, e)
					}
				}
				r.Origin = "reorg"
				derived = true
			}
		}
		if !derived {
			// epochs mostly move forward, sometimes one back
			switch {
			case p.Pct(20) && epochOff < 2:
				epochOff++
			case p.Pct(8) && epochOff > 0:
				epochOff--
			}
			r.EpochOff = epochOff
			r.SlotIn = slotIns[p.Pick(3)]
			genDuty(p, pl, &r)
		}
		r.Merge = r.Merge || (!derived && p.Pct(25))
		r.Large = r.Large || (r.Merge && !derived && p.Pct(40))
		// beacon node answers
		cleanPct := 84
		if c04 {
			cleanPct = 92
		}
		lats := []time.Duration{0, 0, time.Millisecond, 200 * time.Millisecond}
		for n := 0; n < pl.NNodes; n++ {
			no := NodeOut{Lat: lats[p.Pick(len(lats))], SrcBack: uint64(p.Pick(2))}
			if !p.Pct(cleanPct) {
				switch p.Pick(6) {
				case 0:
					no.Kind = "error"
				case 1:
					if p.Pct(30) {
						no.Kind = "hang"
					} else {
						lat := env.LatencyLattice(pl.Timeout)
						no.Lat = lat[p.Pick(len(lat))]
					}
				default:
					no.Kind = "odd"
					no.Variant = p.Pick(len(oddNames))
				}
			}
			r.Nodes = append(r.Nodes, no)
		}
		// accounts
		missPct := 8
		if c04 {
			missPct = 15
		}
		for _, e := range r.Entries {
			if p.Pct(missPct) {
				r.Missing = append(r.Missing, e.V)
			}
		}
		r.AccErr = p.Pct(3)
		// signer
		signPct := 22
		if c04 {
			signPct = 35
		}
		if p.Pct(signPct) {
			kinds := []string{"error", "zero", "zero", "lat"}
			if c04 {
				kinds = []string{"error", "zero", "zero", "zero", "lat"}
			}
			r.SignKind = kinds[p.Pick(len(kinds))]
			for _, e := range r.Entries {
				if p.Bool() {
					r.SignMask |= 1 << e.V
				}
			}
			if r.SignMask == 0 {
				r.SignMask = 1 << r.Entries[p.Pick(len(r.Entries))].V
			}
			r.SignLat = []time.Duration{time.Millisecond, time.Second}[p.Pick(2)]
		}
		// submission
		r.Submit.Latency = []time.Duration{0, time.Millisecond, 500 * time.Millisecond}[p.Pick(3)]
		subErr := 12
		if c04 {
			subErr = 5
		}
		if p.Pct(subErr) {
			r.Submit.Kind = "error"
		}
		pl.Runs = append(pl.Runs, r)
	}
	return pl
}

func indexOf(a []uint64, v uint64) int {
	for i, x := range a {
		if x == v {
			return i
		}
	}
	return 0
}

// genDuty draws 1..6 validators in arbitrary order over 1..3 committees with
// distinct sizes; positions are distinct within the duty and different from
// every committee index, so that any mix-up between entries or fields is visible.
func genDuty(p *simrt.Tape, pl *Plan, r *RunPlan) {
	nv := len(pl.Vals)
	k := p.Range(1, nv)
	perm := make([]int, nv)
	for i := range perm {
		perm[i] = i
	}
	for i := 0; i < k; i++ {
		j := i + p.Pick(nv-i)
		perm[i], perm[j] = perm[j], perm[i]
	}
	ncomm := p.Range(1, 3)
	for c := 0; c < 4; c++ {
		r.Sizes[c] = uint64(12 + 8*c + p.Pick(3)) // 12-14, 20-22, 28-30, 36-38: distinct
	}
	used := map[uint64]bool{}
	for i := 0; i < k; i++ {
		c := uint64(p.Pick(ncomm))
		if ncomm > 1 && p.Pct(30) {
			c++ // committee indices need not start at 0
		}
		var pos uint64
		if p.Bool() {
			pos = uint64(4 + p.Pick(7)) // 4..10
		} else {
			pos = r.Sizes[c] - 1 - uint64(p.Pick(3)) // at or near the end of the committee
		}
		for used[pos] || pos < 4 {
			pos = (pos + 1) % r.Sizes[c]
		}
		used[pos] = true
		r.Entries = append(r.Entries, Entry{V: perm[i], Committee: c, Pos: pos})
	}
}
