// Package c20: memory and goroutines stay bounded; pending-attestation marks are exact.
//
// Real code: the full syssim system run long (13 epochs): controller, scheduler,
// attester, aggregators, sync committee services, signer, submitter, cache and
// optionally the attestation data strategies.
package c20

import (
	"context"
	"fmt"
	"os"
	"reflect"
	"sort"
	"strings"
	"time"

	"github.com/attestantio/go-eth2-client/spec/phase0"

	"verif/sim"
	"verif/simrt"
	"verif/simtest/c03"
	"verif/simtest/c07"
	. "verif/simtest/env"
	"verif/simtest/syssim"
)

const (
	spe = 4
	epp = 8
	// A structure is given 12 epochs (48 slots) to reach its steady size: that is the
	// "fixed window of recent slots" this check accepts.
	epochA     = 12 // first measured epoch (after warm-up)
	stormFrom  = 13 // faults from this epoch ...
	stormUntil = 16 // ... until the end of this one
	epochB     = 20 // second measured epoch: same phase of the sync committee period as epochA
)

func gen(p *simrt.Tape) any {
	pl := &syssim.Plan{
		Seed:                  uint64(p.Intn(1 << 16)),
		SecondsPerSlot:        12,
		SlotsPerEpoch:         spe,
		EpochsPerPeriod:       epp,
		TotalValidators:       p.Range(8, 12),
		Committees:            2,
		TargetAggregators:     16,
		Nodes:                 p.Range(1, 3),
		FastTrackAttestations: p.Bool(),
		FastTrackSync:         p.Bool(),
		FastTrackGrace:        500 * time.Millisecond,
		AccountKind:           int(KindMulti),
		Multinode:             p.Pct(30),
		Steady:                true,
		DataStrategy:          []string{"", "first", "best", "first"}[p.Pick(4)],
	}
	slot := time.Duration(pl.SecondsPerSlot) * time.Second
	pl.MaxAttestationDelay = slot / 3
	pl.AggregationDelay = slot * 2 / 3
	pl.MaxSyncMessageDelay = slot / 4
	pl.SyncAggregationDelay = slot * 7 / 12
	nOurs := p.Range(2, 5)
	perm := make([]int, pl.TotalValidators)
	for i := range perm {
		perm[i] = i
	}
	for i := len(perm) - 1; i > 0; i-- {
		j := p.Intn(i + 1)
		perm[i], perm[j] = perm[j], perm[i]
	}
	pl.Ours = append([]int{}, perm[:nOurs]...)
	sort.Ints(pl.Ours)
	epoch := slot * spe
	pl.StartOffset = epoch + time.Duration(p.Intn(int(epoch/time.Millisecond)))*time.Millisecond
	pl.HorizonSlots = (epochB+1)*spe + 1
	// equal head latencies for every node and slot: responses of all nodes arrive at the same instant
	lat := []int{400, 1000, 2000}[p.Pick(3)]
	pl.HeadLatencyMs = []int{lat}
	// the storm
	nre := p.Range(0, 6)
	for i := 0; i < nre; i++ {
		pl.Reorgs = append(pl.Reorgs, syssim.Reorg{Slot: stormFrom*spe + uint64(p.Intn((stormUntil-stormFrom+1)*spe)), Kind: p.Pick(3)})
	}
	for i, n := 0, p.Pick(4); i < n; i++ {
		pl.Missed = append(pl.Missed, stormFrom*spe+uint64(p.Intn((stormUntil-stormFrom+1)*spe)))
	}
	// reorg head events landing exactly when the slot's attestation job is due (cancel and re-schedule of a due job)
	pl.CoincideReorg = p.Bool()
	// head-root requests that fail during some slots of the storm: a slot without a record of what was signed
	// over (the pruning of those records must not rely on there being one per slot)
	// (what such a gap leaves behind only shows once the window of records has moved past it, more than 33 slots
	// later: these runs are measured one sync committee period later still)
	if p.Pct(30) {
		for i, n := 0, p.Range(2, 8); i < n; i++ {
			pl.RootFailSlots = append(pl.RootFailSlots, stormFrom*spe+uint64(p.Intn((stormUntil-stormFrom+1)*spe)))
		}
		pl.HorizonSlots = (epochB+epp+1)*spe + 1
	}
	// a secondary node that never answers attestation data requests (and whose client has no timeout of its own):
	// only the strategy's cancellation ends those requests
	if pl.DataStrategy != "" && pl.Nodes >= 2 && p.Pct(60) {
		if pl.Faults == nil {
			pl.Faults = map[string][]Outcome{}
		}
		pl.Faults["bn1/AttestationData!"] = []Outcome{{Kind: "blackhole"}}
	}
	// a beacon committee subscriber whose duties requests are answered very late: a request unrelated to
	// attesting that is outstanding while attestation jobs run
	if sublate := p.Pct(30); sublate || os.Getenv("C20_SUBLATE") != "" { // C20_SUBLATE: developer aid
		pl.SubDutiesLatency = slot * 5 / 2
	}
	return pl
}

type sample struct {
	epoch uint64
	sizes map[string]int
	tasks map[string]int // live tasks by spawn site
}

// sizes reads the bookkeeping structures named in the property, reflectively.
func sizes(sys *syssim.System) (map[string]int, error) {
	out := map[string]int{}
	get := func(name string, obj any, field string) error {
		v := reflect.ValueOf(obj)
		if !v.IsValid() || v.IsNil() {
			return nil
		}
		f := v.Elem().FieldByName(field)
		if !f.IsValid() {
			return fmt.Errorf("field %s not found in %T", field, obj)
		}
		out[name] = f.Len()
		return nil
	}
	for _, e := range []struct {
		name  string
		obj   any
		field string
	}{
		{"controller.pendingAttestations", sys.Controller, "pendingAttestations"},
		{"controller.subscriptionInfos", sys.Controller, "subscriptionInfos"},
		{"attester.attested", sys.Attester, "attested"},
		{"synccommitteemessenger.slotDataRecords", sys.Messenger, "slotDataRecords"},
		{"synccommitteeaggregator.beaconBlockRoots", sys.SyncAggregator, "beaconBlockRoots"},
		{"scheduler.jobs", sys.Scheduler, "jobs"},
	} {
		if err := get(e.name, e.obj, e.field); err != nil {
			return nil, err
		}
	}
	n, _ := simrt.LiveTasks()
	out["live-tasks"] = n
	return out, nil
}

func exec(plan any, sched *simrt.Tape) *sim.Outcome {
	pl := plan.(*syssim.Plan)
	out := &sim.Outcome{Probes: map[string]int{}, Sample: pl}
	var rec *syssim.Record
	var samples []sample
	var herr error
	var pendViol *simrt.Violation
	slotDur := time.Duration(pl.SecondsPerSlot) * time.Second
	horizon := 10*time.Minute + time.Duration(pl.HorizonSlots+2)*slotDur + time.Minute
	dueSeen = map[int]bool{}
	res := sim.Run(sched, horizon, 3000000, nil, func(ctx context.Context) {
		rec = syssim.Run(ctx, pl, &syssim.Hooks{
			Mid: func(r *syssim.Record, s uint64, live *syssim.Incarnation) {
				if live == nil || live.Sys == nil || herr != nil {
					return
				}
				// three quarters into the last slot of an epoch: everything of the epoch is over
				if s%spe == spe-1 {
					sz, err := sizes(live.Sys)
					if err != nil {
						herr = err
						return
					}
					_, names := simrt.LiveTasks()
					bySite := map[string]int{}
					for _, n := range names {
						if i := strings.LastIndex(n, "@"); i >= 0 {
							n = n[i+1:]
						}
						bySite[n]++
					}
					samples = append(samples, sample{epoch: s / spe, sizes: sz, tasks: bySite})
				}
				if pendViol == nil {
					pendViol = checkPending(r, live, s, out)
				}
			},
		})
	})
	out.Res = res
	if res.Violation != nil {
		out.Violation = res.Violation
		switch res.Violation.Kind {
		case "panic", "deadlock", "horizon":
			out.Violation.Kind = "C20/" + res.Violation.Kind
		}
		return out
	}
	if herr != nil {
		out.Violation = Viol("harness-reflection", "%v", herr)
		return out
	}
	if len(rec.BuildErrors) > 0 {
		out.Violation = Viol("harness-build", "services failed to start: %v", rec.BuildErrors)
		return out
	}
	out.Nontrivial = len(pl.Reorgs) > 0 || len(pl.Missed) > 0 || pl.DataStrategy != ""
	if pendViol != nil {
		out.Violation = pendViol
		return out
	}
	var a, b *sample
	lastEpoch := uint64(epochB)
	if len(pl.RootFailSlots) > 0 {
		lastEpoch = epochB + pl.EpochsPerPeriod
	}
	for i := range samples {
		if samples[i].epoch == epochA {
			a = &samples[i]
		}
		if samples[i].epoch == lastEpoch {
			b = &samples[i]
		}
	}
	if a == nil || b == nil {
		out.Violation = Viol("harness-samples", "missing measurement windows: %v", samples)
		return out
	}
	var names []string
	for k := range a.sizes {
		names = append(names, k)
	}
	sort.Strings(names)
	series := func(name string) string {
		var l []string
		for _, s := range samples {
			l = append(l, fmt.Sprintf("e%d:%d", s.epoch, s.sizes[name]))
		}
		return strings.Join(l, " ")
	}
	if os.Getenv("C20_DEBUG") != "" {
		fmt.Fprintf(os.Stderr, "C20 fail-slots %v: slotDataRecords %s\n", pl.RootFailSlots, series("synccommitteemessenger.slotDataRecords"))
	}
	for _, name := range names {
		out.Probes["size-compared"]++
		_ = name
		if b.sizes[name] > a.sizes[name] {
			extra := ""
			if name == "live-tasks" {
				var d []string
				for site, n := range b.tasks {
					if n > a.tasks[site] {
						d = append(d, fmt.Sprintf("%s +%d", site, n-a.tasks[site]))
					}
				}
				sort.Strings(d)
				extra = "; additional tasks by spawn site: " + strings.Join(d, ", ")
			}
			out.Violation = &simrt.Violation{Kind: "C20/growth-" + name, Detail: fmt.Sprintf("%s holds %d entries at the end of epoch %d but held %d at the same phase of the previous sync committee period (epoch %d), with identical duties and no faults since epoch %d; per-epoch series: %s%s", name, b.sizes[name], lastEpoch, a.sizes[name], epochA, stormUntil, series(name), extra)}
			return out
		}
	}
	return out
}

// checkPending compares HasPendingAttestations with the job table as observed at the scheduler seam.
var dueSeen = map[int]bool{}

func checkPending(rec *syssim.Record, live *syssim.Incarnation, cur uint64, out *sim.Outcome) *simrt.Violation {
	pl := rec.Plan
	c := rec.Model.Chain
	slotDur := time.Duration(pl.SecondsPerSlot) * time.Second
	// only at settled points: no duty request in flight
	inflight := false
	simrt.Crit(func() {
		for _, f := range rec.H.Fetches {
			if f.Inc == live.N && f.EndStep == 0 && f.Kind != "attester-sub" {
				inflight = true
			}
		}
	})
	if inflight {
		return nil
	}
	// attestation jobs are recognised by their run time: slot start + the configured attestation delay.
	// A name can denote several job instances over time (cancel + re-schedule), so instances are tracked.
	type inst struct {
		slot                      uint64
		started, ended, withdrawn bool
	}
	byName := map[string][]*inst{}
	var all []*inst
	var evs []*syssim.JobEvent
	simrt.Crit(func() { evs = append(evs, rec.Jobs...) })
	for _, e := range evs {
		if e.Inc != live.N {
			continue
		}
		switch e.Op {
		case "schedule":
			if e.Err {
				continue
			}
			off := e.At.Sub(c.GenesisTime)
			if off < 0 || off%slotDur != pl.MaxAttestationDelay {
				continue
			}
			in := &inst{slot: uint64(off / slotDur)}
			byName[e.Name] = append(byName[e.Name], in)
			all = append(all, in)
			if e.T >= off+(c.GenesisTime.Sub(SimEpoch)) && !dueSeen[e.Step] {
				dueSeen[e.Step] = true
				out.Probes["attestation-job-already-due-when-set-up"]++
			}
		case "start":
			for _, in := range byName[e.Name] {
				if !in.started && !in.withdrawn {
					in.started = true
					break
				}
			}
		case "end":
			for _, in := range byName[e.Name] {
				if in.started && !in.ended {
					in.ended = true
					break
				}
			}
		case "cancel":
			if e.Err {
				continue
			}
			// a successful cancellation withdraws the instance that has not started yet
			l := byName[e.Name]
			for i := len(l) - 1; i >= 0; i-- {
				if !l[i].started && !l[i].withdrawn {
					l[i].withdrawn = true
					break
				}
			}
		}
	}
	state := map[uint64]int{} // slot -> number of outstanding attestation jobs
	for _, in := range all {
		if !in.ended && !in.withdrawn {
			state[in.slot]++
		}
	}
	from := uint64(0)
	if cur > 2*pl.SlotsPerEpoch {
		from = cur - 2*pl.SlotsPerEpoch
	}
	for s := from; s <= cur+3*pl.SlotsPerEpoch; s++ {
		want := state[s] > 0
		got := live.Sys.Controller.HasPendingAttestations(context.Background(), phase0.Slot(s))
		if want {
			out.Probes["pending-mark-true-checked"]++
		}
		if got != want {
			kind := "C20/pending-mark-without-job"
			if want {
				kind = "C20/job-without-pending-mark"
			}
			return Viol(kind, "at %v (slot %d, nothing in flight) HasPendingAttestations(%d)=%v but an attestation job for that slot is outstanding=%v", simrt.Now(), cur, s, got, want)
		}
	}
	out.Probes["pending-check-points"]++
	// "... waits for in-flight attestations and for nothing else": a slot whose attestation process returned more
	// than a slot ago (its attestations were submitted or given up) is no longer pending, whatever other requests
	// (subscriptions, duties) are outstanding.  Not judged when goroutines are stalled on purpose.
	if pl.StallAfterSchedulePct == 0 {
		var invs []*syssim.Invocation
		simrt.Crit(func() { invs = append(invs, rec.Invocations...) })
		for _, inv := range invs {
			if inv.Kind != "attest" || inv.Inc != live.N || inv.EndStep == 0 || inv.EndT+slotDur > simrt.Now() || state[inv.Slot] > 1 {
				continue
			}
			unstarted := false
			for _, in := range all {
				if in.slot == inv.Slot && !in.started && !in.withdrawn {
					unstarted = true
				}
			}
			if unstarted {
				continue
			}
			out.Probes["pending-after-attesting-checked"]++
			if live.Sys.Controller.HasPendingAttestations(context.Background(), phase0.Slot(inv.Slot)) {
				return Viol("C20/pending-mark-long-after-attesting", "at %v (slot %d) HasPendingAttestations(%d) is still true although the attestation process of that slot returned at %v, more than a slot ago: a shutdown requested now would wait for something other than an in-flight attestation", simrt.Now(), cur, inv.Slot, inv.EndT)
			}
		}
	}
	return nil
}

// execPending runs the short whole-system plans of C03 (restarts, reorgs at every phase of a slot, slow and
// failing duty requests) and checks the pending-attestation marks only.
func execPending(plan any, sched *simrt.Tape) *sim.Outcome {
	pl := plan.(*syssim.Plan)
	out := &sim.Outcome{Probes: map[string]int{}, Sample: pl, Nontrivial: len(pl.Reorgs) > 0}
	var pendViol *simrt.Violation
	slotDur := time.Duration(pl.SecondsPerSlot) * time.Second
	horizon := 10*time.Minute + time.Duration(pl.HorizonSlots+2)*slotDur + time.Minute
	dueSeen = map[int]bool{}
	var rec *syssim.Record
	res := sim.Run(sched, horizon, 600000, nil, func(ctx context.Context) {
		rec = syssim.Run(ctx, pl, &syssim.Hooks{Mid: func(r *syssim.Record, s uint64, live *syssim.Incarnation) {
			if live == nil || live.Sys == nil || pendViol != nil {
				return
			}
			pendViol = checkPending(r, live, s, out)
		}})
	})
	out.Res = res
	if res.Violation != nil {
		out.Violation = res.Violation
		switch res.Violation.Kind {
		case "panic", "deadlock", "horizon":
			out.Violation.Kind = "C20/" + res.Violation.Kind
		}
		return out
	}
	if len(rec.BuildErrors) > 0 {
		out.Violation = Viol("harness-build", "services failed to start: %v", rec.BuildErrors)
		return out
	}
	out.Violation = pendViol
	if pendViol != nil && os.Getenv("VERIF_DEBUG") != "" {
		for _, j := range rec.Jobs {
			if j.Class == "Attest" || strings.HasPrefix(j.Name, "Attestations") {
				fmt.Fprintf(os.Stderr, "JOB inc=%d %s %q at=%v t=%v step=%d err=%v\n", j.Inc, j.Op, j.Name, j.At.Sub(SimEpoch), j.T, j.Step, j.Err)
			}
		}
	}
	return out
}

func init() {
	// the goroutines the strategies start: none may outlive its call, the timeout and the nodes' answers
	for _, sc := range c07.LeakScenarios("C20") {
		sc.Weight = 10 // these runs cost well under a millisecond each; a long run costs seconds
		sim.Register(sc)
	}
	sim.Register(&sim.Scenario{Property: "C20", Name: "longrun", Gen: gen, Exec: exec, Weight: 1})
	sim.Register(&sim.Scenario{Property: "C20", Name: "pending-marks", Exec: execPending, Weight: 3, Gen: func(p *simrt.Tape) any {
		pl := c03.Gen(false)(p).(*syssim.Plan)
		// attestation jobs are recognised by their run time within the slot: keep the other delays off it
		slot := time.Duration(pl.SecondsPerSlot) * time.Second
		pl.MaxSyncMessageDelay = slot / 4
		pl.SyncAggregationDelay = slot * 7 / 12
		// the goroutine that set a job up may not get the CPU again before the job has run or been withdrawn
		if p.Pct(60) {
			pl.StallAfterSchedulePct = []int{5, 20, 50}[p.Pick(3)]
		}
		// attestation jobs that are still running when the next head event (possibly a reorg) arrives
		if p.Pct(40) {
			pl.AttestTakes = []time.Duration{slot / 2, slot * 3 / 4, slot + time.Second}[p.Pick(3)]
		}
		return pl
	}})
}
