// Package c05: a proposal signs only the selected block of the duty slot and submits it intact.
//
// Real code: services/beaconblockproposer/standard (Prepare, Propose) and
// services/signer/standard over env stub accounts.  Stubs: validating accounts
// provider, one simulated beacon node (proposal provider + node client),
// graffiti provider, block auctioneer, relays that unblind, proposal submitter.
// Oracle: over the signer-side request log and the stub histories.
package c05

import (
	"context"
	"encoding/binary"
	"errors"
	"fmt"
	"os"
	"strings"
	"time"

	"github.com/attestantio/go-block-relay/services/blockauctioneer"
	builderclient "github.com/attestantio/go-builder-client"
	builderapi "github.com/attestantio/go-builder-client/api"
	builderspec "github.com/attestantio/go-builder-client/spec"
	"github.com/attestantio/go-eth2-client/api"
	"github.com/attestantio/go-eth2-client/spec/phase0"
	"github.com/attestantio/vouch/services/beaconblockproposer"
	proposer "github.com/attestantio/vouch/services/beaconblockproposer/standard"
	nullmetrics "github.com/attestantio/vouch/services/metrics/null"
	signer "github.com/attestantio/vouch/services/signer/standard"
	"github.com/rs/zerolog"
	e2wtypes "github.com/wealdtech/go-eth2-wallet-types/v2"

	"verif/sim"
	"verif/simrt"
	. "verif/simtest/env"
)

// ---------------------------------------------------------------------------
// plan

type c05Call struct {
	Lat  time.Duration `json:"lat"`
	Kind string        `json:"kind,omitempty"` // "" full block | error | e400 | hang | nodata (answers, but without a block)
}

type c05Duty struct {
	Slot          uint64 `json:"slot"`
	Index         uint64 `json:"index"`
	Key           int    `json:"key"`
	Account       int    `json:"account"`           // env.AccountKind
	Prepare       string `json:"prepare,omitempty"` // "" ok | noaccount | accerror | randaoerror
	ProposeAnyway bool   `json:"propose_anyway,omitempty"`
	Version       int    `json:"version"`
	Blinded       bool   `json:"blinded,omitempty"`
	SlotDelta     int64  `json:"slot_delta,omitempty"` // proposal slot - duty slot
	// BlockProposer: the proposer_index the obtained block names (0: the duty's validator).  A node on another
	// fork, or a strategy, may hand out a block for the duty's slot that names another validator.
	BlockProposer uint64        `json:"block_proposer,omitempty"`
	Proposal      string        `json:"proposal,omitempty"` // "" ok | error
	ProposalLat   time.Duration `json:"proposal_lat,omitempty"`
	Content       int           `json:"content"`
	Graffiti      string        `json:"graffiti"`          // none | ok | error | long | client
	Auction       string        `json:"auction,omitempty"` // "" winner | error | empty | nowinner
	AuctionLat    time.Duration `json:"auction_lat,omitempty"`
	NProv         int           `json:"n_prov,omitempty"`
	NAll          int           `json:"n_all,omitempty"`
	Unblind       [][]c05Call   `json:"unblind,omitempty"`    // per relay, per call
	BlockSign     string        `json:"block_sign,omitempty"` // "" ok | error
	Submit        string        `json:"submit,omitempty"`     // "" ok | error
	// CancelAfter: the context Propose runs under is cancelled this long after the slot start (0: never), as when vouch shuts down.
	CancelAfter time.Duration `json:"cancel_after,omitempty"`
	// PreparedForOther: before this duty is prepared, its slot was prepared for the plan's other validator
	// (the proposer of the slot changed with a reorg).
	PreparedForOther bool `json:"prepared_for_other,omitempty"`
}

type c05Plan struct {
	Auctioneer bool      `json:"auctioneer"`
	UnblindAll bool      `json:"unblind_all,omitempty"`
	NRelays    int       `json:"n_relays"`
	Duties     []c05Duty `json:"duties"`
	// BlindedWithoutAuction is only set by the probe scenario (not part of C05's space).
	BlindedWithoutAuction bool `json:"blinded_without_auction,omitempty"`
}

func c05GenPlan(p *simrt.Tape, probe bool) *c05Plan {
	pl := &c05Plan{Auctioneer: p.Pct(80), UnblindAll: p.Pct(35), NRelays: p.Range(1, 3), BlindedWithoutAuction: probe}
	if probe {
		pl.Auctioneer = p.Bool()
	}
	nd := 1
	if p.Pct(35) {
		nd = 2
	}
	slot := uint64(p.Range(3, 8))
	lats := []time.Duration{0, 10 * time.Millisecond, 100 * time.Millisecond, 250 * time.Millisecond, time.Second, 5 * time.Second}
	for j := 0; j < nd; j++ {
		d := c05Duty{Slot: slot, Index: uint64(11 * (j + 1)), Key: j + 1, Account: p.Pick(4), Version: p.Pick(5), Content: 100*(j+1) + p.Pick(50)}
		slot += uint64(p.Range(1, 3))
		r := p.Draw(100)
		switch {
		case r < 4:
			d.Prepare = "noaccount"
		case r < 7:
			d.Prepare = "accerror"
		case r < 11:
			d.Prepare = "randaoerror"
		}
		if d.Prepare != "" {
			d.ProposeAnyway = p.Pct(60)
		}
		if p.Pct(12) {
			d.SlotDelta = []int64{1, -1, 8, -2}[p.Pick(4)]
		}
		if p.Pct(12) {
			// another validator of the plan (the second duty's, whether or not it exists in this plan), an unknown one, a neighbour
			d.BlockProposer = []uint64{uint64(11 * (2 - j)), 999, d.Index + 1}[p.Pick(3)]
		}
		if p.Pct(6) {
			d.Proposal = "error"
		}
		d.ProposalLat = []time.Duration{0, 0, 20 * time.Millisecond, 500 * time.Millisecond}[p.Pick(4)]
		d.Graffiti = []string{"none", "ok", "ok", "error", "error", "long", "client"}[p.Pick(7)]
		if pl.Auctioneer {
			d.Auction = []string{"", "", "", "", "error", "empty", "nowinner"}[p.Pick(7)]
			d.AuctionLat = []time.Duration{0, 100 * time.Millisecond, 2 * time.Second}[p.Pick(3)]
			d.NAll = p.Range(1, pl.NRelays)
			d.NProv = p.Range(1, d.NAll)
			switch d.Auction {
			case "empty":
				d.NAll, d.NProv = 0, 0
			case "nowinner":
				d.NProv = 0
			case "error":
				d.NAll, d.NProv = 0, 0
			}
		}
		if d.Version >= 2 && p.Pct(60) {
			haveResult := pl.Auctioneer && d.Auction != "error"
			if haveResult || probe {
				d.Blinded = true
			}
		}
		if probe && d.Version >= 2 {
			d.Blinded = true
			if pl.Auctioneer {
				d.Auction, d.NAll, d.NProv = "error", 0, 0
			}
		}
		if d.Blinded {
			mode := p.Draw(100)
			same := mode < 35
			// giveUp: one relay ends up without a block early (an answer without data, or a failure on every
			// attempt), the others hold the block but answer later; every relay is asked.
			giveUp := !same && mode < 55 && pl.NRelays >= 2 && (d.Auction == "" || d.Auction == "nowinner")
			sameLat := lats[p.Pick(3)]
			quitter, style := 0, 0
			if giveUp {
				quitter, style = p.Pick(pl.NRelays), p.Pick(3)
				d.NAll = pl.NRelays
				if d.Auction == "" {
					d.NProv = pl.NRelays
				}
			}
			for i := 0; i < pl.NRelays; i++ {
				var calls []c05Call
				for k := 0; k < 3; k++ {
					c := c05Call{Lat: lats[p.Pick(len(lats))]}
					r := p.Draw(100)
					switch {
					case same:
						c.Lat = sameLat
					case giveUp && i == quitter:
						c.Lat = lats[r%3]
						switch {
						case style == 0 || (style == 2 && k > 0):
							c.Kind = "nodata"
						default:
							c.Kind = "error"
						}
					case giveUp:
						if k == 0 && r < 30 {
							c.Kind = "error"
						} else {
							c.Lat = lats[3+r%3]
						}
					case r < 45:
					case r < 65:
						c.Kind = "error"
					case r < 80:
						c.Kind = "e400"
					case r < 90:
						c.Kind = "hang"
					default:
						c.Kind = "nodata"
					}
					calls = append(calls, c)
				}
				d.Unblind = append(d.Unblind, calls)
			}
		}
		if (d.Blinded && p.Pct(30)) || p.Pct(6) {
			// never on the 10ms grid of the stub latencies: no same-instant race with a response
			d.CancelAfter = []time.Duration{777 * time.Millisecond, 7777 * time.Millisecond, 300001 * time.Millisecond}[p.Pick(3)]
		}
		if p.Pct(5) {
			d.BlockSign = "error"
		}
		if p.Pct(8) {
			d.Submit = "error"
		}
		pl.Duties = append(pl.Duties, d)
	}
	if nd == 2 && !probe && p.Pct(40) {
		j := p.Pick(2)
		// (same epoch only: the other validator's reveal request for this slot's epoch is then the one its own duty makes)
		if pl.Duties[1-j].Prepare == "" && pl.Duties[0].Slot/8 == pl.Duties[1].Slot/8 {
			pl.Duties[j].PreparedForOther = true
		}
	}
	return pl
}

func c05Gen(p *simrt.Tape) any      { return c05GenPlan(p, false) }
func c05GenProbe(p *simrt.Tape) any { return c05GenPlan(p, true) }

// ---------------------------------------------------------------------------
// histories

type c05PropCall struct {
	duty          int
	slot          uint64
	randao        phase0.BLSSignature
	graffiti      [32]byte
	step, endStep int
	failed        bool
	view          *c05View
	side          string
	proposal      *api.VersionedProposal
}

type c05UnblindCall struct {
	relay         int
	duty          int
	step, endStep int
	t, endT       time.Duration
	nilBlock      bool
	view          *c05View
	sig           phase0.BLSSignature
	outcome       string // ok | error | e400 | hang | nodata | client-refused | unknown-block | cancelled
	resp          *api.VersionedSignedProposal
	respJSON      string
	respSide      string
}

type c05Part struct {
	name string
	view *c05View
	err  error
	sig  phase0.BLSSignature
}

type c05Submission struct {
	step    int
	t       time.Duration
	ptr     *api.VersionedSignedProposal
	version string
	blinded bool
	parts   []c05Part
	side    string
	failed  bool
}

type c05DutyRun struct {
	prepared        bool
	prepareErr      error
	proposeCalled   bool
	proposeStep     int
	proposeReturned bool
	proposeT        time.Duration
	graffitiCalls   int
	auctionCalls    int
	auctionKeyOK    bool
	cancelled       bool // the context Propose runs under was cancelled, at cancelT
	cancelT         time.Duration
}

type c05Hist struct {
	pl       *c05Plan
	ch       *Chain
	props    []*c05PropCall
	unblinds []*c05UnblindCall
	subs     []*c05Submission
	duties   []*c05DutyRun
	alive    []string
}

func (h *c05Hist) dutyBySlot(slot uint64) int {
	for j := range h.pl.Duties {
		if h.pl.Duties[j].Slot == slot {
			return j
		}
	}
	return -1
}

// ---------------------------------------------------------------------------
// stubs

type c05Accounts struct {
	h    *c05Hist
	accs []e2wtypes.Account
}

func (a *c05Accounts) ValidatingAccountsForEpoch(_ context.Context, _ phase0.Epoch) (map[phase0.ValidatorIndex]e2wtypes.Account, error) {
	out := map[phase0.ValidatorIndex]e2wtypes.Account{}
	for j, d := range a.h.pl.Duties {
		out[phase0.ValidatorIndex(d.Index)] = a.accs[j]
	}
	return out, nil
}

func (a *c05Accounts) ValidatingAccountsForEpochByIndex(_ context.Context, _ phase0.Epoch, indices []phase0.ValidatorIndex) (map[phase0.ValidatorIndex]e2wtypes.Account, error) {
	simrt.Yield("accounts/ByIndex")
	out := map[phase0.ValidatorIndex]e2wtypes.Account{}
	for _, idx := range indices {
		for j, d := range a.h.pl.Duties {
			if uint64(idx) != d.Index {
				continue
			}
			switch d.Prepare {
			case "accerror":
				simrt.Probe("fault:accounts-error")
				return nil, fmt.Errorf("accounts: %w", ErrSimulated)
			case "noaccount":
				simrt.Probe("fault:accounts-missing")
			default:
				out[idx] = a.accs[j]
			}
		}
	}
	return out, nil
}

func (a *c05Accounts) SyncCommitteeAccountsForEpoch(_ context.Context, _ phase0.Epoch) (map[phase0.ValidatorIndex]e2wtypes.Account, error) {
	return map[phase0.ValidatorIndex]e2wtypes.Account{}, nil
}

func (a *c05Accounts) SyncCommitteeAccountsForEpochByIndex(_ context.Context, _ phase0.Epoch, _ []phase0.ValidatorIndex) (map[phase0.ValidatorIndex]e2wtypes.Account, error) {
	return map[phase0.ValidatorIndex]e2wtypes.Account{}, nil
}

type c05Node struct {
	h  *c05Hist
	sc *Script
}

func (n *c05Node) Name() string    { return "node" }
func (n *c05Node) Address() string { return "node" }

func (n *c05Node) NodeClient(_ context.Context) (*api.Response[string], error) {
	simrt.Yield("node/NodeClient")
	return &api.Response[string]{Data: "simnode", Metadata: map[string]any{}}, nil
}

func (n *c05Node) Proposal(ctx context.Context, opts *api.ProposalOpts) (*api.Response[*api.VersionedProposal], error) {
	rec := &c05PropCall{duty: n.h.dutyBySlot(uint64(opts.Slot)), slot: uint64(opts.Slot), randao: opts.RandaoReveal, graffiti: opts.Graffiti, step: simrt.Step()}
	simrt.Crit(func() { n.h.props = append(n.h.props, rec) })
	party := fmt.Sprintf("node/d%d", rec.duty)
	_, err := n.sc.Do(ctx, party, "Proposal", nil)
	if err != nil || rec.duty < 0 {
		simrt.Crit(func() { rec.failed, rec.endStep = true, simrt.Step() })
		if err == nil {
			err = fmt.Errorf("node: no proposal for slot %d: %w", opts.Slot, ErrSimulated)
		}
		return nil, err
	}
	d := &n.h.pl.Duties[rec.duty]
	named := d.Index
	if d.BlockProposer != 0 {
		named = d.BlockProposer
	}
	p := c05Proposal(d.Version, d.Blinded, c05Hdr{slot: phase0.Slot(int64(d.Slot) + d.SlotDelta), proposer: phase0.ValidatorIndex(named), randao: opts.RandaoReveal, graffiti: opts.Graffiti, content: d.Content})
	v, verr := c05MsgView(c05ProposalMsg(p))
	if verr != nil {
		panic(verr)
	}
	simrt.Crit(func() {
		rec.view, rec.proposal, rec.endStep = v, p, simrt.Step()
		if p.Deneb != nil {
			rec.side = c05SideHash(p.Deneb.KZGProofs, p.Deneb.Blobs)
		}
	})
	return &api.Response[*api.VersionedProposal]{Data: p, Metadata: map[string]any{}}, nil
}

type c05Graffiti struct{ h *c05Hist }

func (g *c05Graffiti) Graffiti(_ context.Context, slot phase0.Slot, _ phase0.ValidatorIndex) ([]byte, error) {
	simrt.Yield("graffiti")
	j := g.h.dutyBySlot(uint64(slot))
	if j < 0 {
		return nil, nil
	}
	simrt.Crit(func() { g.h.duties[j].graffitiCalls++ })
	switch g.h.pl.Duties[j].Graffiti {
	case "error":
		simrt.Probe("fault:graffiti-error")
		return nil, fmt.Errorf("graffiti: %w", ErrSimulated)
	case "long":
		return []byte("a graffiti that is quite a bit longer than thirty-two bytes"), nil
	case "client":
		return []byte("vouch {{CLIENT}}"), nil
	}
	return []byte(fmt.Sprintf("graffiti-%d", j)), nil
}

type c05Head struct{}

func (c05Head) ExecutionChainHead(_ context.Context) (phase0.Hash32, uint64) {
	return phase0.Hash32(c05H("head", 0)), 4999
}

type c05Auctioneer struct {
	h      *c05Hist
	sc     *Script
	relays []*c05RelayStub
}

func (a *c05Auctioneer) AuctionBlock(ctx context.Context, slot phase0.Slot, _ phase0.Hash32, pubkey phase0.BLSPubKey) (*blockauctioneer.Results, error) {
	j := a.h.dutyBySlot(uint64(slot))
	if j < 0 {
		return nil, fmt.Errorf("auction: unknown slot: %w", ErrSimulated)
	}
	d := &a.h.pl.Duties[j]
	simrt.Crit(func() {
		a.h.duties[j].auctionCalls++
		a.h.duties[j].auctionKeyOK = pubkey == PubKey(d.Key)
	})
	if _, err := a.sc.Do(ctx, fmt.Sprintf("auction/d%d", j), "AuctionBlock", nil); err != nil {
		return nil, err
	}
	res := &blockauctioneer.Results{Participation: map[string]*blockauctioneer.Participation{}, AllProviders: []builderclient.BuilderBidProvider{}, Providers: []builderclient.BuilderBidProvider{}}
	for i := 0; i < d.NAll; i++ {
		res.AllProviders = append(res.AllProviders, a.relays[i])
	}
	for i := 0; i < d.NProv; i++ {
		res.Providers = append(res.Providers, a.relays[i])
	}
	if d.NProv > 0 {
		res.WinningParticipation = &blockauctioneer.Participation{Category: "standard"}
	}
	return res, nil
}

type c05RelayStub struct {
	idx int
	h   *c05Hist
	sc  *Script
}

func (r *c05RelayStub) Name() string              { return fmt.Sprintf("relay%d", r.idx) }
func (r *c05RelayStub) Address() string           { return fmt.Sprintf("http://relay%d.sim:18550", r.idx) }
func (r *c05RelayStub) Pubkey() *phase0.BLSPubKey { return nil }

func (r *c05RelayStub) BuilderBid(_ context.Context, _ *builderapi.BuilderBidOpts) (*builderapi.Response[*builderspec.VersionedSignedBuilderBid], error) {
	return nil, fmt.Errorf("%s: not used: %w", r.Name(), ErrSimulated)
}

// UnblindProposal models the builder client library plus the relay behind it.
func (r *c05RelayStub) UnblindProposal(ctx context.Context, opts *builderapi.UnblindProposalOpts) (*builderapi.Response[*api.VersionedSignedProposal], error) {
	rec := &c05UnblindCall{relay: r.idx, duty: -1, step: simrt.Step(), t: simrt.Now()}
	simrt.Crit(func() { r.h.unblinds = append(r.h.unblinds, rec) })
	finish := func(outcome string) {
		simrt.Crit(func() { rec.outcome, rec.endStep, rec.endT = outcome, simrt.Step(), simrt.Now() })
	}
	// The client library refuses a request without a block before anything is sent.
	parts := c05BlindedParts(opts.Proposal)
	if len(parts) != 1 {
		rec.nilBlock = true
		simrt.Yield("relay/Unblind-refused")
		finish("client-refused")
		return nil, errors.New("proposal without payload")
	}
	v, err := c05MsgView(parts[0].msg)
	if err != nil {
		rec.nilBlock = true
		simrt.Yield("relay/Unblind-refused")
		finish("client-refused")
		return nil, errors.New("proposal without payload")
	}
	rec.view, rec.sig = v, parts[0].sig
	// Does the relay know the payload?  (It does for every blinded block the node handed out.)
	content := -1
	simrt.Crit(func() {
		for _, p := range r.h.props {
			if p.view != nil && p.view.blinded && p.view.msg == v.msg {
				rec.duty, content = p.duty, r.h.pl.Duties[p.duty].Content
			}
		}
	})
	e400 := func() error {
		return errors.Join(errors.New("failed to submit unblind proposal request"),
			&builderapi.Error{Method: "POST", Endpoint: "/eth/v1/builder/blinded_blocks", StatusCode: 400, Data: []byte(`{"code":400,"message":"unknown payload"}`)})
	}
	if rec.duty < 0 {
		simrt.Yield("relay/Unblind-unknown")
		finish("unknown-block")
		return nil, e400()
	}
	o, err := r.sc.Do(ctx, fmt.Sprintf("relay%d/d%d", r.idx, rec.duty), "UnblindProposal", nil)
	if err != nil {
		if o.Kind == "" || ctx.Err() != nil {
			finish("cancelled")
		} else {
			finish(o.Kind)
		}
		return nil, err
	}
	if o.Kind == "odd" && o.Variant == 1 {
		// the relay answers, but there is no block in the answer
		simrt.Probe("fault:UnblindProposal-nodata")
		finish("nodata")
		return &builderapi.Response[*api.VersionedSignedProposal]{Metadata: map[string]any{}}, nil
	}
	if o.Kind == "odd" {
		finish("e400")
		return nil, e400()
	}
	full, err := c05Unblind(opts.Proposal, content)
	if err != nil {
		panic(err)
	}
	fp := c05SignedParts(full)
	fv, err := c05MsgView(fp[0].msg)
	if err != nil {
		panic(err)
	}
	simrt.Crit(func() {
		rec.resp, rec.respJSON = full, fv.json
		if full.Deneb != nil {
			rec.respSide = c05SideHash(full.Deneb.KZGProofs, full.Deneb.Blobs)
		}
	})
	finish("ok")
	return &builderapi.Response[*api.VersionedSignedProposal]{Data: full, Metadata: map[string]any{}}, nil
}

type c05Submitter struct{ h *c05Hist }

func (s *c05Submitter) SubmitProposal(_ context.Context, p *api.VersionedSignedProposal) error {
	simrt.Yield("submitter/SubmitProposal")
	rec := &c05Submission{step: simrt.Step(), t: simrt.Now(), ptr: p}
	if p != nil {
		rec.version, rec.blinded = p.Version.String(), p.Blinded
		for _, part := range c05SignedParts(p) {
			v, err := c05MsgView(part.msg)
			rec.parts = append(rec.parts, c05Part{name: part.name, view: v, err: err, sig: part.sig})
		}
		if p.Deneb != nil {
			rec.side = c05SideHash(p.Deneb.KZGProofs, p.Deneb.Blobs)
		}
	}
	fail := false
	for _, part := range rec.parts {
		if part.view != nil {
			if j := s.h.dutyBySlot(part.view.slot); j >= 0 && s.h.pl.Duties[j].Submit == "error" {
				fail = true
			}
		}
	}
	rec.failed = fail
	simrt.Crit(func() { s.h.subs = append(s.h.subs, rec) })
	if fail {
		simrt.Probe("fault:submit-error")
		return fmt.Errorf("submit: %w", ErrSimulated)
	}
	return nil
}

// ---------------------------------------------------------------------------
// execution

const c05Wait = 12 * time.Minute

func c05Exec(plan any, sched *simrt.Tape) *sim.Outcome {
	pl := plan.(*c05Plan)
	out := &sim.Outcome{Probes: map[string]int{}, Sample: pl}
	InitBLS()
	h := &c05Hist{pl: pl, ch: DefaultChain(0)}
	for range pl.Duties {
		h.duties = append(h.duties, &c05DutyRun{})
	}
	log := &SignerLog{}
	// signer-side faults: RANDAO reveal (first request of a key) or block signature
	seen := map[int]int{}
	log.Fault = func(r *SignReq) (string, time.Duration) {
		for j := range pl.Duties {
			d := &pl.Duties[j]
			if d.Key != r.KeyIndex {
				continue
			}
			n := seen[d.Key]
			seen[d.Key]++
			isBlock := r.Method == "SignBeaconProposal" || (r.Method == "Sign" && n > 0)
			if !isBlock && d.Prepare == "randaoerror" {
				return "error", 0
			}
			if isBlock && d.BlockSign == "error" {
				return "error", 0
			}
		}
		return "", 0
	}

	res := sim.Run(sched, 40*time.Minute, 80000, nil, func(ctx context.Context) {
		cp := &ChainProviders{C: h.ch}
		ct := NewChainTime(ctx, h.ch)
		sg, err := signer.New(ctx, signer.WithLogLevel(zerolog.Disabled), signer.WithMonitor(nullmetrics.New()), signer.WithClientMonitor(nullmetrics.New()),
			signer.WithSpecProvider(cp), signer.WithDomainProvider(cp))
		if err != nil {
			panic(err)
		}
		sc := &Script{Outcomes: map[string][]Outcome{}}
		accs := &c05Accounts{h: h}
		var lastSlot uint64
		for j := range pl.Duties {
			d := &pl.Duties[j]
			accs.accs = append(accs.accs, NewAccount(log, AccountKind(d.Account), d.Key, fmt.Sprintf("wallet/val%d", d.Key)))
			po := Outcome{Latency: d.ProposalLat}
			if d.Proposal == "error" {
				po.Kind = "error"
			}
			sc.Outcomes[fmt.Sprintf("node/d%d/Proposal", j)] = []Outcome{po}
			ao := Outcome{Latency: d.AuctionLat}
			if d.Auction == "error" {
				ao.Kind = "error"
			}
			sc.Outcomes[fmt.Sprintf("auction/d%d/AuctionBlock", j)] = []Outcome{ao}
			for i, calls := range d.Unblind {
				for _, c := range calls {
					o := Outcome{Latency: c.Lat}
					switch c.Kind {
					case "error", "hang":
						o.Kind = c.Kind
					case "e400":
						o.Kind = "odd"
					case "nodata":
						o.Kind, o.Variant = "odd", 1
					}
					key := fmt.Sprintf("relay%d/d%d/UnblindProposal", i, j)
					sc.Outcomes[key] = append(sc.Outcomes[key], o)
				}
			}
			lastSlot = max(lastSlot, d.Slot)
		}
		sc.Default = Outcome{Kind: "error"}
		node := &c05Node{h: h, sc: sc}
		params := []proposer.Parameter{
			proposer.WithLogLevel(zerolog.Disabled), proposer.WithMonitor(nullmetrics.New()), proposer.WithChainTime(ct),
			proposer.WithProposalDataProvider(node), proposer.WithValidatingAccountsProvider(accs), proposer.WithExecutionChainHeadProvider(c05Head{}),
			proposer.WithProposalSubmitter(&c05Submitter{h: h}), proposer.WithRANDAORevealSigner(sg), proposer.WithBeaconBlockSigner(sg), proposer.WithBlobSidecarSigner(sg),
			proposer.WithUnblindFromAllRelays(pl.UnblindAll), proposer.WithBuilderBoostFactor(100),
		}
		anyGraffiti := false
		for _, d := range pl.Duties {
			if d.Graffiti != "none" {
				anyGraffiti = true
			}
		}
		if anyGraffiti {
			params = append(params, proposer.WithGraffitiProvider(&c05Graffiti{h: h}))
		}
		if pl.Auctioneer {
			au := &c05Auctioneer{h: h, sc: sc}
			for i := 0; i < pl.NRelays; i++ {
				au.relays = append(au.relays, &c05RelayStub{idx: i, h: h, sc: sc})
			}
			params = append(params, proposer.WithBlockAuctioneer(au))
		}
		svc, err := proposer.New(ctx, params...)
		if err != nil {
			panic(err)
		}
		for j := range pl.Duties {
			d, dr := &pl.Duties[j], h.duties[j]
			simrt.Go(fmt.Sprintf("duty%d", j), func() {
				simrt.Sleep(ctx, time.Second+time.Duration(j)*10*time.Millisecond, "c05/before-prepare")
				if d.PreparedForOther {
					o := &pl.Duties[1-j]
					simrt.Probe("slot-prepared-for-another-validator-first")
					_ = svc.Prepare(ctx, beaconblockproposer.NewDuty(phase0.Slot(d.Slot), phase0.ValidatorIndex(o.Index)))
				}
				duty := beaconblockproposer.NewDuty(phase0.Slot(d.Slot), phase0.ValidatorIndex(d.Index))
				err := svc.Prepare(ctx, duty)
				simrt.Crit(func() { dr.prepared, dr.prepareErr = err == nil, err })
				if err != nil && !d.ProposeAnyway {
					return
				}
				simrt.Sleep(ctx, h.ch.SlotStart(d.Slot).Sub(SimEpoch)-simrt.Now(), "c05/until-slot")
				simrt.Crit(func() { dr.proposeCalled, dr.proposeStep = true, simrt.Step() })
				pctx, cancel := context.WithCancel(ctx)
				defer cancel()
				if d.CancelAfter > 0 {
					simrt.Go(fmt.Sprintf("cancel%d", j), func() {
						if simrt.Sleep(pctx, d.CancelAfter, "c05/cancel") == nil {
							simrt.Probe("fault:propose-context-cancelled")
							simrt.Crit(func() { dr.cancelled, dr.cancelT = true, simrt.Now() })
							cancel()
						}
					})
				}
				svc.Propose(pctx, duty)
				simrt.Crit(func() { dr.proposeReturned, dr.proposeT = true, simrt.Now() })
			})
		}
		// Whether Propose returns is not part of this property: wait a bounded time.
		simrt.Sleep(ctx, h.ch.SlotStart(lastSlot).Sub(SimEpoch)+c05Wait, "c05/bounded-wait")
		// what is still alive now would stay alive for ever in vouch (C20 material, not C05)
		_, names := simrt.LiveTasks()
		for _, n := range names {
			if n != "main" {
				h.alive = append(h.alive, n)
			}
		}
	})
	out.Res = res
	if res.Violation != nil {
		out.Violation = res.Violation
		if res.Violation.Kind == "panic" || res.Violation.Kind == "deadlock" || res.Violation.Kind == "horizon" {
			out.Violation.Kind = "C05/" + res.Violation.Kind
		}
		return out
	}
	for range res.Stranded {
		out.Probes["stranded-task"]++
	}
	for _, n := range h.alive {
		if !strings.Contains(n, "@beaconblockproposer/") {
			continue // the task running Propose itself: counted as propose-never-returned
		}
		out.Probes["goroutine-alive-at-end"]++
		if os.Getenv("C05_DEBUG") != "" {
			fmt.Println("ALIVE", n)
		}
	}
	out.Violation = c05Oracle(h, log, out)
	return out
}

// ---------------------------------------------------------------------------
// oracle

func c05EpochRoot(epoch uint64) (r [32]byte) {
	binary.LittleEndian.PutUint64(r[:], epoch)
	return
}

func c05SigningRoot(obj [32]byte, domain phase0.Domain) [32]byte {
	sd := &phase0.SigningData{ObjectRoot: obj, Domain: domain}
	r, err := sd.HashTreeRoot()
	if err != nil {
		panic(err)
	}
	return r
}

func c05HeaderRoot(slot, proposer uint64, parent, state, body [32]byte) [32]byte {
	hd := &phase0.BeaconBlockHeader{Slot: phase0.Slot(slot), ProposerIndex: phase0.ValidatorIndex(proposer), ParentRoot: parent, StateRoot: state, BodyRoot: body}
	r, err := hd.HashTreeRoot()
	if err != nil {
		panic(err)
	}
	return r
}

func eq32(a []byte, b [32]byte) bool { return len(a) == 32 && string(a) == string(b[:]) }

// c05IsRandaoReq: r asks key d.Key for the RANDAO reveal of the duty slot's epoch.
func c05IsRandaoReq(ch *Chain, r *SignReq, d *c05Duty) bool {
	if r.KeyIndex != d.Key {
		return false
	}
	epoch := ch.EpochOf(d.Slot)
	er := c05EpochRoot(epoch)
	switch r.Method {
	case "SignGeneric":
		return eq32(r.Data, er)
	case "Sign":
		return eq32(r.Data, c05SigningRoot(er, ch.DomainAt(DomainRandao, phase0.Epoch(epoch))))
	}
	return false
}

// c05IsBlockReq: r asks key d.Key to sign the block header (slot, proposer, the roots of v).
func c05IsBlockReq(ch *Chain, r *SignReq, d *c05Duty, slot uint64, v *c05View) bool {
	if r.KeyIndex != d.Key {
		return false
	}
	switch r.Method {
	case "SignBeaconProposal":
		return r.Slot == slot && r.ProposerIndex == d.Index && eq32(r.ParentRoot, v.parent) && eq32(r.StateRoot, v.state) && eq32(r.BodyRoot, v.body)
	case "SignGeneric":
		return eq32(r.Data, c05HeaderRoot(slot, d.Index, v.parent, v.state, v.body))
	case "Sign":
		return eq32(r.Data, c05SigningRoot(c05HeaderRoot(slot, d.Index, v.parent, v.state, v.body), ch.DomainAt(DomainBeaconProposer, phase0.Epoch(ch.EpochOf(slot)))))
	}
	return false
}

func c05Oracle(h *c05Hist, log *SignerLog, out *sim.Outcome) *simrt.Violation {
	pl, ch := h.pl, h.ch
	reqs := log.Snapshot()
	dutyOfKey := func(k int) int {
		for j := range pl.Duties {
			if pl.Duties[j].Key == k {
				return j
			}
		}
		return -1
	}
	// ---- signing requests
	randaoSigs := map[int][]phase0.BLSSignature{} // duty -> reveals the signer produced
	blockReq := map[*SignReq]*c05PropCall{}       // block signing request -> the proposal it signs
	for _, r := range reqs {
		j := dutyOfKey(r.KeyIndex)
		if j < 0 {
			return Viol("C05/signing-request-for-unknown-key", "request %d (%s) for key %d", r.Seq, r.Method, r.KeyIndex)
		}
		d := &pl.Duties[j]
		if c05IsRandaoReq(ch, r, d) {
			if r.Outcome == "ok" {
				var s phase0.BLSSignature
				copy(s[:], r.Signature)
				randaoSigs[j] = append(randaoSigs[j], s)
			}
			continue
		}
		// a block signature: which obtained proposal does it cover?
		var match *c05PropCall
		for _, p := range h.props {
			if p.duty == j && p.view != nil && p.endStep <= r.Step && c05IsBlockReq(ch, r, d, d.Slot, p.view) {
				match = p
			}
		}
		if match != nil && match.view.slot == d.Slot {
			blockReq[r] = match
			continue
		}
		if match != nil {
			return Viol("C05/signed-proposal-of-another-slot", "duty slot %d validator %d: the signer was asked (%s, request %d) to sign under the duty slot the roots of a proposal that is for slot %d", d.Slot, d.Index, r.Method, r.Seq, match.view.slot)
		}
		// a block signature may only be asked for the duty's validator: not for whichever validator the obtained block names
		if r.Method == "SignBeaconProposal" && r.ProposerIndex != d.Index {
			return Viol("C05/signed-block-of-another-validator", "duty slot %d validator %d: the signer was asked (SignBeaconProposal, request %d) for a block signature naming proposer %d", d.Slot, d.Index, r.Seq, r.ProposerIndex)
		}
		for _, p := range h.props {
			if p.duty != j || p.view == nil || p.view.proposer == d.Index {
				continue
			}
			named := *d
			named.Index = p.view.proposer
			if c05IsBlockReq(ch, r, &named, d.Slot, p.view) || c05IsBlockReq(ch, r, &named, p.view.slot, p.view) {
				return Viol("C05/signed-block-of-another-validator", "duty slot %d validator %d: the signer was asked (%s, request %d) to sign a block header naming proposer %d, the index found in the obtained block", d.Slot, d.Index, r.Method, r.Seq, p.view.proposer)
			}
		}
		for _, p := range h.props {
			if p.duty == j && p.view != nil && c05IsBlockReq(ch, r, d, p.view.slot, p.view) {
				return Viol("C05/signed-block-for-another-slot", "duty slot %d validator %d: the signer was asked (%s, request %d) to sign a block header of slot %d", d.Slot, d.Index, r.Method, r.Seq, p.view.slot)
			}
		}
		if r.Method == "SignBeaconProposal" {
			if r.Slot != d.Slot {
				return Viol("C05/signed-block-for-another-slot", "duty slot %d validator %d: SignBeaconProposal for slot %d", d.Slot, d.Index, r.Slot)
			}
			detail := "no proposal had been obtained"
			for _, p := range h.props {
				if p.duty == j && p.view != nil {
					detail = fmt.Sprintf("obtained proposal has parent %x state %x body %x", p.view.parent[:4], p.view.state[:4], p.view.body[:4])
				}
			}
			return Viol("C05/signed-roots-differ-from-proposal", "duty slot %d validator %d: SignBeaconProposal(slot %d, proposer %d, parent %x, state %x, body %x) but %s",
				d.Slot, d.Index, r.Slot, r.ProposerIndex, r.ParentRoot[:4], r.StateRoot[:4], r.BodyRoot[:4], detail)
		}
		return Viol("C05/unexpected-signing-request", "duty slot %d validator %d: request %d (%s, data %x) is neither the RANDAO reveal of the duty's epoch nor the header of the obtained proposal", d.Slot, d.Index, r.Seq, r.Method, r.Data)
	}
	// the signature a block request produced (if it succeeded)
	blockSigOf := func(j int, v *c05View) (phase0.BLSSignature, bool) {
		for _, r := range reqs {
			if blockReq[r] == nil {
				continue
			}
			if dutyOfKey(r.KeyIndex) == j && r.Outcome == "ok" && c05IsBlockReq(ch, r, &pl.Duties[j], pl.Duties[j].Slot, v) {
				var s phase0.BLSSignature
				copy(s[:], r.Signature)
				return s, true
			}
		}
		return phase0.BLSSignature{}, false
	}

	// ---- proposal requests carry the duty's own RANDAO reveal
	for _, p := range h.props {
		if p.duty < 0 {
			return Viol("C05/proposal-requested-for-unknown-slot", "proposal requested for slot %d", p.slot)
		}
		ok := false
		for _, s := range randaoSigs[p.duty] {
			if s == p.randao {
				ok = true
			}
		}
		if !ok {
			return Viol("C05/proposal-requested-with-foreign-randao-reveal", "duty slot %d: the proposal was requested with RANDAO reveal %x… which the signer never produced for this validator and epoch", p.slot, p.randao[:6])
		}
	}

	// ---- unblinding requests
	firstOK := -1
	for _, u := range h.unblinds {
		if u.outcome == "ok" && (firstOK < 0 || u.endStep < firstOK) {
			firstOK = u.endStep
		}
	}
	for _, u := range h.unblinds {
		if u.nilBlock {
			out.Probes["unblind-call-without-block"]++
			if firstOK < 0 || u.step < firstOK {
				return Viol("C05/unblind-request-without-block", "relay%d was asked to unblind a request carrying no block before any relay had answered", u.relay)
			}
			continue
		}
		if u.duty < 0 {
			return Viol("C05/unblind-request-not-the-signed-block", "relay%d was sent a blinded block (slot %d, root %x) that is not the blinded proposal obtained for any duty", u.relay, u.view.slot, u.view.msg[:6])
		}
		sig, ok := blockSigOf(u.duty, u.view)
		if !ok || sig != u.sig {
			return Viol("C05/unblind-request-not-the-signed-block", "relay%d was sent the blinded block of duty slot %d with signature %x…, which is not the signature the signer produced for it (%x…, produced=%v)", u.relay, pl.Duties[u.duty].Slot, u.sig[:6], sig[:6], ok)
		}
		switch u.outcome {
		case "e400":
			out.Probes["unblind-400"]++
		case "error", "hang":
			out.Probes["unblind-failed"]++
		}
	}

	// ---- submissions
	subsOf := make([]int, len(pl.Duties))
	for _, s := range h.subs {
		if s.ptr == nil {
			return Viol("C05/submitted-nothing", "SubmitProposal(nil)")
		}
		if len(s.parts) != 1 {
			names := ""
			for _, p := range s.parts {
				names += p.name + " "
			}
			return Viol("C05/submitted-malformed-container", "submitted proposal (version %s, blinded=%v) holds %d blocks: %s", s.version, s.blinded, len(s.parts), names)
		}
		part := s.parts[0]
		if part.view == nil {
			return Viol("C05/submitted-malformed-container", "submitted %s block cannot be read: %v", part.name, part.err)
		}
		if part.view.blinded || s.blinded {
			return Viol("C05/submitted-blinded-block", "submitted a blinded block (%s, blinded flag %v) for slot %d", part.name, s.blinded, part.view.slot)
		}
		j := h.dutyBySlot(part.view.slot)
		if j < 0 {
			return Viol("C05/submitted-block-of-another-slot", "submitted a block for slot %d, which is no duty's slot", part.view.slot)
		}
		d := &pl.Duties[j]
		subsOf[j]++
		var prop *c05PropCall
		for _, p := range h.props {
			if p.duty == j && p.view != nil && p.endStep <= s.step {
				prop = p
			}
		}
		if prop == nil {
			return Viol("C05/submitted-without-proposal", "duty slot %d: a block was submitted but no proposal had been obtained", d.Slot)
		}
		if s.version != prop.proposal.Version.String() || part.name != c05Versions[d.Version].String() {
			return Viol("C05/submitted-other-version", "duty slot %d: obtained a %s proposal, submitted version %s holding a %s block", d.Slot, prop.view.kind, s.version, part.name)
		}
		if !prop.view.blinded {
			if part.view.msg != prop.view.msg || part.view.json != prop.view.json {
				return Viol("C05/submitted-block-differs-from-proposal", "duty slot %d: submitted %s block root %x, obtained proposal root %x", d.Slot, part.name, part.view.msg[:6], prop.view.msg[:6])
			}
			sig, ok := blockSigOf(j, prop.view)
			if !ok || sig != part.sig {
				return Viol("C05/submitted-signature-not-the-block-signature", "duty slot %d: submitted signature %x… is not what the signer produced for this block (%x…, produced=%v)", d.Slot, part.sig[:6], sig[:6], ok)
			}
			if s.side != prop.side {
				return Viol("C05/submitted-blobs-differ-from-proposal", "duty slot %d: proofs/blobs submitted %s, obtained %s", d.Slot, s.side, prop.side)
			}
			out.Probes["submitted-full:"+part.name]++
		} else {
			var from *c05UnblindCall
			for _, u := range h.unblinds {
				if u.outcome == "ok" && u.duty == j && u.endStep <= s.step && c05SameBlock(u.resp, s.ptr) {
					from = u
				}
			}
			if from == nil {
				return Viol("C05/submitted-block-not-from-a-relay", "duty slot %d (blinded %s): the submitted block (root %x) is not a block any relay returned for the signed blinded block", d.Slot, part.name, part.view.msg[:6])
			}
			if part.view.json != from.respJSON || s.side != from.respSide {
				return Viol("C05/submitted-block-altered", "duty slot %d: the block returned by relay%d was altered before submission", d.Slot, from.relay)
			}
			sig, ok := blockSigOf(j, prop.view)
			if !ok || sig != part.sig {
				return Viol("C05/submitted-signature-not-the-block-signature", "duty slot %d: submitted signature %x… is not what the signer produced for the blinded block", d.Slot, part.sig[:6])
			}
			out.Probes["submitted-unblinded:"+part.name]++
		}
		if s.failed {
			out.Probes["submission-failed"]++
		}
	}

	// ---- the proposal is still made when graffiti or the auction fail
	for j := range pl.Duties {
		d, dr := &pl.Duties[j], h.duties[j]
		if !dr.proposeReturned && dr.proposeCalled {
			out.Probes["propose-never-returned"]++
		}
		if dr.proposeCalled && !dr.prepared {
			out.Probes["propose-without-prepare"]++
		}
		if !dr.prepared || !dr.proposeCalled {
			continue
		}
		out.Nontrivial = true
		out.Probes[fmt.Sprintf("duty:%s", c05Versions[d.Version])]++
		var prop *c05PropCall
		for _, p := range h.props {
			if p.duty == j {
				prop = p
			}
		}
		if prop == nil {
			why := "C05/proposal-not-requested"
			if d.Graffiti == "error" {
				why = "C05/proposal-skipped-after-graffiti-failure"
			} else if d.Auction == "error" {
				why = "C05/proposal-skipped-after-auction-failure"
			}
			return Viol(why, "duty slot %d (graffiti %s, auction %q): no proposal was requested from the beacon node", d.Slot, d.Graffiti, d.Auction)
		}
		if d.Graffiti == "error" {
			out.Probes["graffiti-failed-proposal-requested"]++
			if prop.graffiti != ([32]byte{}) {
				return Viol("C05/graffiti-after-failure", "duty slot %d: graffiti lookup failed but the proposal was requested with graffiti %q", d.Slot, prop.graffiti[:])
			}
		}
		if d.Auction == "error" || d.Auction == "empty" || d.Auction == "nowinner" {
			out.Probes["auction-without-winner-proposal-requested"]++
		}
		if d.SlotDelta != 0 && prop.view != nil {
			out.Probes["proposal-for-another-slot-refused"]++
		}
		if prop.view != nil && prop.view.proposer != d.Index {
			out.Probes["obtained-block-names-another-validator"]++
			if subsOf[j] > 0 {
				out.Probes["block-naming-another-validator-submitted"]++
			}
		}
		// a relay that was sent the signed blinded block returned the full block while the proposal was still
		// wanted (its context not cancelled): that block is owed to the submitter, whatever the other relays did
		// before (this is judged on what the relays answered, not on the plan).
		if d.Blinded {
			var got *c05UnblindCall
			gaveUpFirst := false
			for _, u := range h.unblinds {
				if u.duty != j {
					continue
				}
				if u.outcome == "ok" && (!dr.cancelled || u.endT < dr.cancelT) && (got == nil || u.endStep < got.endStep) {
					got = u
				}
			}
			if got != nil {
				for _, u := range h.unblinds {
					if u.duty == j && u.relay != got.relay && u.endStep < got.endStep && (u.outcome == "nodata" || u.outcome == "error" || u.outcome == "hang") {
						gaveUpFirst = true
					}
				}
				if gaveUpFirst {
					out.Probes["relay-failed-before-another-returned-the-block"]++
				}
				if subsOf[j] == 0 {
					kind := "C05/relay-block-not-submitted"
					if gaveUpFirst {
						kind = "C05/relay-block-not-submitted-after-another-relay-failed"
					}
					return Viol(kind, "duty slot %d (blinded %s): relay%d returned the full block for the signed blinded block at %v, but nothing was submitted", d.Slot, c05Versions[d.Version], got.relay, got.endT)
				}
			}
		}
		// must a block have been submitted?
		expect := d.Proposal == "" && d.SlotDelta == 0 && d.BlockSign == "" && d.CancelAfter == 0
		if expect && d.Blinded {
			asked := d.NProv
			if pl.UnblindAll || d.NProv == 0 {
				asked = d.NAll
			}
			can := false
			for i := 0; i < asked && i < len(d.Unblind); i++ {
				for _, c := range d.Unblind[i] {
					if c.Kind == "" {
						can = true
					}
					if c.Kind != "error" && c.Kind != "hang" {
						break
					}
				}
			}
			expect = can
			if !can {
				out.Probes["blinded-no-relay-can-unblind"]++
				if subsOf[j] != 0 {
					return Viol("C05/submitted-although-no-relay-unblinded", "duty slot %d: %d submissions although no relay returned a block", d.Slot, subsOf[j])
				}
			}
		}
		if expect && subsOf[j] == 0 {
			kind := "C05/proposal-not-submitted"
			if d.Graffiti == "error" {
				kind = "C05/proposal-skipped-after-graffiti-failure"
			} else if d.Auction == "error" || d.Auction == "empty" || d.Auction == "nowinner" {
				kind = "C05/proposal-skipped-after-auction-failure"
			}
			return Viol(kind, "duty slot %d (version %s blinded=%v graffiti %s auction %q): nothing was submitted within %v although every step the proposal needs succeeded", d.Slot, c05Versions[d.Version], d.Blinded, d.Graffiti, d.Auction, c05Wait)
		}
		if subsOf[j] > 1 {
			out.Probes["submitted-more-than-once"]++
		}
	}
	// same-instant successes
	for j := range pl.Duties {
		n := map[time.Duration]int{}
		for _, u := range h.unblinds {
			if u.duty == j && u.outcome == "ok" {
				n[u.endT]++
			}
		}
		for _, c := range n {
			if c > 1 {
				out.Probes["unblind-successes-at-one-instant"]++
			}
		}
	}
	return nil
}

// c05SameBlock: the submitted container holds the very block object the relay returned.
func c05SameBlock(resp, sub *api.VersionedSignedProposal) bool {
	switch {
	case resp.Bellatrix != nil:
		return sub.Bellatrix == resp.Bellatrix
	case resp.Capella != nil:
		return sub.Capella == resp.Capella
	case resp.Deneb != nil:
		return sub.Deneb == resp.Deneb
	}
	return false
}

func init() {
	sim.Register(&sim.Scenario{Property: "C05", Name: "propose", Gen: c05Gen, Exec: c05Exec})
	// not part of C05: confirms what happens for a blinded proposal without any auction result
	sim.Register(&sim.Scenario{Property: "C05PROBE", Name: "blinded-without-auction", Gen: c05GenProbe, Exec: c05Exec})
}
