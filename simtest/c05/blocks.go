package c05

import (
	"crypto/sha256"
	"encoding/binary"
	"encoding/json"
	"errors"
	"fmt"

	"github.com/attestantio/go-eth2-client/api"
	apiv1bellatrix "github.com/attestantio/go-eth2-client/api/v1/bellatrix"
	apiv1capella "github.com/attestantio/go-eth2-client/api/v1/capella"
	apiv1deneb "github.com/attestantio/go-eth2-client/api/v1/deneb"
	"github.com/attestantio/go-eth2-client/spec"
	"github.com/attestantio/go-eth2-client/spec/altair"
	"github.com/attestantio/go-eth2-client/spec/bellatrix"
	"github.com/attestantio/go-eth2-client/spec/capella"
	"github.com/attestantio/go-eth2-client/spec/deneb"
	"github.com/attestantio/go-eth2-client/spec/phase0"
	"github.com/holiman/uint256"
	"github.com/prysmaticlabs/go-bitfield"
)

// Block construction for the simulated beacon node and relays, and the
// oracle's own view (roots, JSON) of blocks.  Contents are a function of a small
// integer so that parent/state/body roots are attributable to one proposal.

func c05H(tag string, n int) (h [32]byte) {
	var b [8]byte
	binary.LittleEndian.PutUint64(b[:], uint64(n))
	return sha256.Sum256(append([]byte("c05-"+tag+"-"), b[:]...))
}

var c05Versions = []spec.DataVersion{spec.DataVersionPhase0, spec.DataVersionAltair, spec.DataVersionBellatrix, spec.DataVersionCapella, spec.DataVersionDeneb}

type c05Hdr struct {
	slot     phase0.Slot
	proposer phase0.ValidatorIndex
	randao   phase0.BLSSignature
	graffiti [32]byte
	content  int
}

func c05Eth1(c int) *phase0.ETH1Data {
	h := c05H("eth1", c)
	return &phase0.ETH1Data{DepositRoot: phase0.Root(c05H("deposit", c)), DepositCount: uint64(1000 + c), BlockHash: h[:]}
}

func c05Sync(c int) *altair.SyncAggregate {
	sa := &altair.SyncAggregate{SyncCommitteeBits: bitfield.NewBitvector512()}
	sa.SyncCommitteeBits.SetBitAt(uint64(c%512), true)
	sa.SyncCommitteeSignature[0] = 0xc0
	return sa
}

func c05Fee() (a bellatrix.ExecutionAddress) {
	for i := range a {
		a[i] = byte(0x20 + i)
	}
	return
}

func c05Txs(c int) []bellatrix.Transaction {
	return []bellatrix.Transaction{{0x02, byte(c), byte(c >> 8), 0x99}}
}

func c05Withdrawals(c int) []*capella.Withdrawal {
	return []*capella.Withdrawal{{Index: capella.WithdrawalIndex(c), ValidatorIndex: 7, Address: c05Fee(), Amount: 12345}}
}

func c05BaseFee() (b [32]byte) { b[0] = 7; return }

func c05PayloadBellatrix(c int) *bellatrix.ExecutionPayload {
	return &bellatrix.ExecutionPayload{ParentHash: phase0.Hash32(c05H("elparent", c)), FeeRecipient: c05Fee(), StateRoot: c05H("elstate", c), ReceiptsRoot: c05H("elreceipts", c),
		PrevRandao: c05H("elrandao", c), BlockNumber: uint64(5000 + c), GasLimit: 30000000, GasUsed: uint64(c), Timestamp: 946684800, ExtraData: []byte{},
		BaseFeePerGas: c05BaseFee(), BlockHash: phase0.Hash32(c05H("elblock", c)), Transactions: c05Txs(c)}
}

func c05HeaderBellatrix(c int) *bellatrix.ExecutionPayloadHeader {
	p := c05PayloadBellatrix(c)
	return &bellatrix.ExecutionPayloadHeader{ParentHash: p.ParentHash, FeeRecipient: p.FeeRecipient, StateRoot: p.StateRoot, ReceiptsRoot: p.ReceiptsRoot, PrevRandao: p.PrevRandao,
		BlockNumber: p.BlockNumber, GasLimit: p.GasLimit, GasUsed: p.GasUsed, Timestamp: p.Timestamp, ExtraData: []byte{}, BaseFeePerGas: p.BaseFeePerGas, BlockHash: p.BlockHash,
		TransactionsRoot: phase0.Root(c05H("txroot", c))}
}

func c05PayloadCapella(c int) *capella.ExecutionPayload {
	p := c05PayloadBellatrix(c)
	return &capella.ExecutionPayload{ParentHash: p.ParentHash, FeeRecipient: p.FeeRecipient, StateRoot: p.StateRoot, ReceiptsRoot: p.ReceiptsRoot, PrevRandao: p.PrevRandao,
		BlockNumber: p.BlockNumber, GasLimit: p.GasLimit, GasUsed: p.GasUsed, Timestamp: p.Timestamp, ExtraData: []byte{}, BaseFeePerGas: p.BaseFeePerGas, BlockHash: p.BlockHash,
		Transactions: c05Txs(c), Withdrawals: c05Withdrawals(c)}
}

func c05HeaderCapella(c int) *capella.ExecutionPayloadHeader {
	p := c05PayloadBellatrix(c)
	return &capella.ExecutionPayloadHeader{ParentHash: p.ParentHash, FeeRecipient: p.FeeRecipient, StateRoot: p.StateRoot, ReceiptsRoot: p.ReceiptsRoot, PrevRandao: p.PrevRandao,
		BlockNumber: p.BlockNumber, GasLimit: p.GasLimit, GasUsed: p.GasUsed, Timestamp: p.Timestamp, ExtraData: []byte{}, BaseFeePerGas: p.BaseFeePerGas, BlockHash: p.BlockHash,
		TransactionsRoot: phase0.Root(c05H("txroot", c)), WithdrawalsRoot: phase0.Root(c05H("wdroot", c))}
}

func c05PayloadDeneb(c int) *deneb.ExecutionPayload {
	p := c05PayloadBellatrix(c)
	return &deneb.ExecutionPayload{ParentHash: p.ParentHash, FeeRecipient: p.FeeRecipient, StateRoot: p.StateRoot, ReceiptsRoot: p.ReceiptsRoot, PrevRandao: p.PrevRandao,
		BlockNumber: p.BlockNumber, GasLimit: p.GasLimit, GasUsed: p.GasUsed, Timestamp: p.Timestamp, ExtraData: []byte{}, BaseFeePerGas: uint256.NewInt(7), BlockHash: p.BlockHash,
		Transactions: c05Txs(c), Withdrawals: c05Withdrawals(c), BlobGasUsed: 131072, ExcessBlobGas: uint64(c)}
}

func c05HeaderDeneb(c int) *deneb.ExecutionPayloadHeader {
	p := c05PayloadBellatrix(c)
	return &deneb.ExecutionPayloadHeader{ParentHash: p.ParentHash, FeeRecipient: p.FeeRecipient, StateRoot: p.StateRoot, ReceiptsRoot: p.ReceiptsRoot, PrevRandao: p.PrevRandao,
		BlockNumber: p.BlockNumber, GasLimit: p.GasLimit, GasUsed: p.GasUsed, Timestamp: p.Timestamp, ExtraData: []byte{}, BaseFeePerGas: uint256.NewInt(7), BlockHash: p.BlockHash,
		TransactionsRoot: phase0.Root(c05H("txroot", c)), WithdrawalsRoot: phase0.Root(c05H("wdroot", c)), BlobGasUsed: 131072, ExcessBlobGas: uint64(c)}
}

func c05Commitments(c int) []deneb.KZGCommitment {
	var k deneb.KZGCommitment
	h := c05H("kzg", c)
	copy(k[:], h[:])
	return []deneb.KZGCommitment{k}
}

func c05Proofs(c int) []deneb.KZGProof {
	var k deneb.KZGProof
	h := c05H("proof", c)
	copy(k[:], h[:])
	return []deneb.KZGProof{k}
}

func c05Blobs(c int) []deneb.Blob {
	var b deneb.Blob
	h := c05H("blob", c)
	copy(b[:], h[:])
	copy(b[len(b)-32:], h[:])
	return []deneb.Blob{b}
}

// c05Proposal is what the simulated beacon node returns.
func c05Proposal(version int, blinded bool, h c05Hdr) *api.VersionedProposal {
	c := h.content
	parent, state := phase0.Root(c05H("parent", c)), phase0.Root(c05H("state", c))
	p := &api.VersionedProposal{Version: c05Versions[version], Blinded: blinded}
	switch version {
	case 0:
		p.Phase0 = &phase0.BeaconBlock{Slot: h.slot, ProposerIndex: h.proposer, ParentRoot: parent, StateRoot: state,
			Body: &phase0.BeaconBlockBody{RANDAOReveal: h.randao, ETH1Data: c05Eth1(c), Graffiti: h.graffiti}}
	case 1:
		p.Altair = &altair.BeaconBlock{Slot: h.slot, ProposerIndex: h.proposer, ParentRoot: parent, StateRoot: state,
			Body: &altair.BeaconBlockBody{RANDAOReveal: h.randao, ETH1Data: c05Eth1(c), Graffiti: h.graffiti, SyncAggregate: c05Sync(c)}}
	case 2:
		if blinded {
			p.BellatrixBlinded = &apiv1bellatrix.BlindedBeaconBlock{Slot: h.slot, ProposerIndex: h.proposer, ParentRoot: parent, StateRoot: state,
				Body: &apiv1bellatrix.BlindedBeaconBlockBody{RANDAOReveal: h.randao, ETH1Data: c05Eth1(c), Graffiti: h.graffiti, SyncAggregate: c05Sync(c), ExecutionPayloadHeader: c05HeaderBellatrix(c)}}
		} else {
			p.Bellatrix = &bellatrix.BeaconBlock{Slot: h.slot, ProposerIndex: h.proposer, ParentRoot: parent, StateRoot: state,
				Body: &bellatrix.BeaconBlockBody{RANDAOReveal: h.randao, ETH1Data: c05Eth1(c), Graffiti: h.graffiti, SyncAggregate: c05Sync(c), ExecutionPayload: c05PayloadBellatrix(c)}}
		}
	case 3:
		if blinded {
			p.CapellaBlinded = &apiv1capella.BlindedBeaconBlock{Slot: h.slot, ProposerIndex: h.proposer, ParentRoot: parent, StateRoot: state,
				Body: &apiv1capella.BlindedBeaconBlockBody{RANDAOReveal: h.randao, ETH1Data: c05Eth1(c), Graffiti: h.graffiti, SyncAggregate: c05Sync(c), ExecutionPayloadHeader: c05HeaderCapella(c)}}
		} else {
			p.Capella = &capella.BeaconBlock{Slot: h.slot, ProposerIndex: h.proposer, ParentRoot: parent, StateRoot: state,
				Body: &capella.BeaconBlockBody{RANDAOReveal: h.randao, ETH1Data: c05Eth1(c), Graffiti: h.graffiti, SyncAggregate: c05Sync(c), ExecutionPayload: c05PayloadCapella(c)}}
		}
	default:
		if blinded {
			p.DenebBlinded = &apiv1deneb.BlindedBeaconBlock{Slot: h.slot, ProposerIndex: h.proposer, ParentRoot: parent, StateRoot: state,
				Body: &apiv1deneb.BlindedBeaconBlockBody{RANDAOReveal: h.randao, ETH1Data: c05Eth1(c), Graffiti: h.graffiti, SyncAggregate: c05Sync(c), ExecutionPayloadHeader: c05HeaderDeneb(c), BlobKZGCommitments: c05Commitments(c)}}
		} else {
			p.Deneb = &apiv1deneb.BlockContents{
				Block: &deneb.BeaconBlock{Slot: h.slot, ProposerIndex: h.proposer, ParentRoot: parent, StateRoot: state,
					Body: &deneb.BeaconBlockBody{RANDAOReveal: h.randao, ETH1Data: c05Eth1(c), Graffiti: h.graffiti, SyncAggregate: c05Sync(c), ExecutionPayload: c05PayloadDeneb(c), BlobKZGCommitments: c05Commitments(c)}},
				KZGProofs: c05Proofs(c), Blobs: c05Blobs(c)}
		}
	}
	return p
}

// c05Unblind is what a relay (through the builder client library) hands back
// for a signed blinded block: the same block fields with the payload in place
// of the header, under the signature it was sent.
func c05Unblind(req *api.VersionedSignedBlindedProposal, c int) (*api.VersionedSignedProposal, error) {
	out := &api.VersionedSignedProposal{Version: req.Version}
	switch req.Version {
	case spec.DataVersionBellatrix:
		if req.Bellatrix == nil || req.Bellatrix.Message == nil || req.Bellatrix.Message.Body == nil {
			return nil, errors.New("bellatrix proposal without payload")
		}
		m, b := req.Bellatrix.Message, req.Bellatrix.Message.Body
		out.Bellatrix = &bellatrix.SignedBeaconBlock{Signature: req.Bellatrix.Signature, Message: &bellatrix.BeaconBlock{Slot: m.Slot, ProposerIndex: m.ProposerIndex, ParentRoot: m.ParentRoot, StateRoot: m.StateRoot,
			Body: &bellatrix.BeaconBlockBody{RANDAOReveal: b.RANDAOReveal, ETH1Data: b.ETH1Data, Graffiti: b.Graffiti, ProposerSlashings: b.ProposerSlashings, AttesterSlashings: b.AttesterSlashings,
				Attestations: b.Attestations, Deposits: b.Deposits, VoluntaryExits: b.VoluntaryExits, SyncAggregate: b.SyncAggregate, ExecutionPayload: c05PayloadBellatrix(c)}}}
	case spec.DataVersionCapella:
		if req.Capella == nil || req.Capella.Message == nil || req.Capella.Message.Body == nil {
			return nil, errors.New("capella proposal without payload")
		}
		m, b := req.Capella.Message, req.Capella.Message.Body
		out.Capella = &capella.SignedBeaconBlock{Signature: req.Capella.Signature, Message: &capella.BeaconBlock{Slot: m.Slot, ProposerIndex: m.ProposerIndex, ParentRoot: m.ParentRoot, StateRoot: m.StateRoot,
			Body: &capella.BeaconBlockBody{RANDAOReveal: b.RANDAOReveal, ETH1Data: b.ETH1Data, Graffiti: b.Graffiti, ProposerSlashings: b.ProposerSlashings, AttesterSlashings: b.AttesterSlashings,
				Attestations: b.Attestations, Deposits: b.Deposits, VoluntaryExits: b.VoluntaryExits, SyncAggregate: b.SyncAggregate, ExecutionPayload: c05PayloadCapella(c), BLSToExecutionChanges: b.BLSToExecutionChanges}}}
	case spec.DataVersionDeneb:
		if req.Deneb == nil || req.Deneb.Message == nil || req.Deneb.Message.Body == nil {
			return nil, errors.New("deneb proposal without payload")
		}
		m, b := req.Deneb.Message, req.Deneb.Message.Body
		out.Deneb = &apiv1deneb.SignedBlockContents{KZGProofs: c05Proofs(c), Blobs: c05Blobs(c),
			SignedBlock: &deneb.SignedBeaconBlock{Signature: req.Deneb.Signature, Message: &deneb.BeaconBlock{Slot: m.Slot, ProposerIndex: m.ProposerIndex, ParentRoot: m.ParentRoot, StateRoot: m.StateRoot,
				Body: &deneb.BeaconBlockBody{RANDAOReveal: b.RANDAOReveal, ETH1Data: b.ETH1Data, Graffiti: b.Graffiti, ProposerSlashings: b.ProposerSlashings, AttesterSlashings: b.AttesterSlashings,
					Attestations: b.Attestations, Deposits: b.Deposits, VoluntaryExits: b.VoluntaryExits, SyncAggregate: b.SyncAggregate, ExecutionPayload: c05PayloadDeneb(c), BLSToExecutionChanges: b.BLSToExecutionChanges,
					BlobKZGCommitments: b.BlobKZGCommitments}}}}
	default:
		return nil, fmt.Errorf("unhandled data version %v", req.Version)
	}
	return out, nil
}

// ---------------------------------------------------------------------------
// the oracle's view of a block message

type c05View struct {
	kind                     string // e.g. "capella", "capella-blinded"
	blinded                  bool
	slot                     uint64
	proposer                 uint64
	parent, state, body, msg [32]byte
	json                     string
}

type c05htr interface{ HashTreeRoot() ([32]byte, error) }

// c05MsgView recomputes slot and roots of a block message with the
// go-eth2-client spec types' own HashTreeRoot.
func c05MsgView(msg any) (*c05View, error) {
	v := &c05View{}
	var body, m c05htr
	miss := errors.New("message or body missing")
	switch b := msg.(type) {
	case *phase0.BeaconBlock:
		if b == nil || b.Body == nil {
			return nil, miss
		}
		v.kind, v.slot, v.proposer, v.parent, v.state, body, m = "phase0", uint64(b.Slot), uint64(b.ProposerIndex), b.ParentRoot, b.StateRoot, b.Body, b
	case *altair.BeaconBlock:
		if b == nil || b.Body == nil {
			return nil, miss
		}
		v.kind, v.slot, v.proposer, v.parent, v.state, body, m = "altair", uint64(b.Slot), uint64(b.ProposerIndex), b.ParentRoot, b.StateRoot, b.Body, b
	case *bellatrix.BeaconBlock:
		if b == nil || b.Body == nil {
			return nil, miss
		}
		v.kind, v.slot, v.proposer, v.parent, v.state, body, m = "bellatrix", uint64(b.Slot), uint64(b.ProposerIndex), b.ParentRoot, b.StateRoot, b.Body, b
	case *capella.BeaconBlock:
		if b == nil || b.Body == nil {
			return nil, miss
		}
		v.kind, v.slot, v.proposer, v.parent, v.state, body, m = "capella", uint64(b.Slot), uint64(b.ProposerIndex), b.ParentRoot, b.StateRoot, b.Body, b
	case *deneb.BeaconBlock:
		if b == nil || b.Body == nil {
			return nil, miss
		}
		v.kind, v.slot, v.proposer, v.parent, v.state, body, m = "deneb", uint64(b.Slot), uint64(b.ProposerIndex), b.ParentRoot, b.StateRoot, b.Body, b
	case *apiv1bellatrix.BlindedBeaconBlock:
		if b == nil || b.Body == nil {
			return nil, miss
		}
		v.kind, v.blinded, v.slot, v.proposer, v.parent, v.state, body, m = "bellatrix-blinded", true, uint64(b.Slot), uint64(b.ProposerIndex), b.ParentRoot, b.StateRoot, b.Body, b
	case *apiv1capella.BlindedBeaconBlock:
		if b == nil || b.Body == nil {
			return nil, miss
		}
		v.kind, v.blinded, v.slot, v.proposer, v.parent, v.state, body, m = "capella-blinded", true, uint64(b.Slot), uint64(b.ProposerIndex), b.ParentRoot, b.StateRoot, b.Body, b
	case *apiv1deneb.BlindedBeaconBlock:
		if b == nil || b.Body == nil {
			return nil, miss
		}
		v.kind, v.blinded, v.slot, v.proposer, v.parent, v.state, body, m = "deneb-blinded", true, uint64(b.Slot), uint64(b.ProposerIndex), b.ParentRoot, b.StateRoot, b.Body, b
	default:
		return nil, fmt.Errorf("unknown message type %T", msg)
	}
	var err error
	if v.body, err = body.HashTreeRoot(); err != nil {
		return nil, err
	}
	if v.msg, err = m.HashTreeRoot(); err != nil {
		return nil, err
	}
	j, err := json.Marshal(msg)
	if err != nil {
		return nil, err
	}
	v.json = string(j)
	return v, nil
}

// c05ProposalMsg picks the message the version/blinded flags of an unsigned proposal designate.
func c05ProposalMsg(p *api.VersionedProposal) any {
	switch p.Version {
	case spec.DataVersionPhase0:
		return p.Phase0
	case spec.DataVersionAltair:
		return p.Altair
	case spec.DataVersionBellatrix:
		if p.Blinded {
			return p.BellatrixBlinded
		}
		return p.Bellatrix
	case spec.DataVersionCapella:
		if p.Blinded {
			return p.CapellaBlinded
		}
		return p.Capella
	case spec.DataVersionDeneb:
		if p.Blinded {
			return p.DenebBlinded
		}
		if p.Deneb == nil {
			return (*deneb.BeaconBlock)(nil)
		}
		return p.Deneb.Block
	}
	return nil
}

type c05Signed struct {
	name string
	msg  any
	sig  phase0.BLSSignature
}

// c05SignedParts lists every signed container present in a signed proposal,
// whatever its version and blinded flags say.
func c05SignedParts(s *api.VersionedSignedProposal) []c05Signed {
	var out []c05Signed
	if s.Phase0 != nil {
		out = append(out, c05Signed{"phase0", s.Phase0.Message, s.Phase0.Signature})
	}
	if s.Altair != nil {
		out = append(out, c05Signed{"altair", s.Altair.Message, s.Altair.Signature})
	}
	if s.Bellatrix != nil {
		out = append(out, c05Signed{"bellatrix", s.Bellatrix.Message, s.Bellatrix.Signature})
	}
	if s.BellatrixBlinded != nil {
		out = append(out, c05Signed{"bellatrix-blinded", s.BellatrixBlinded.Message, s.BellatrixBlinded.Signature})
	}
	if s.Capella != nil {
		out = append(out, c05Signed{"capella", s.Capella.Message, s.Capella.Signature})
	}
	if s.CapellaBlinded != nil {
		out = append(out, c05Signed{"capella-blinded", s.CapellaBlinded.Message, s.CapellaBlinded.Signature})
	}
	if s.Deneb != nil {
		if s.Deneb.SignedBlock != nil {
			out = append(out, c05Signed{"deneb", s.Deneb.SignedBlock.Message, s.Deneb.SignedBlock.Signature})
		} else {
			out = append(out, c05Signed{"deneb", (*deneb.BeaconBlock)(nil), phase0.BLSSignature{}})
		}
	}
	if s.DenebBlinded != nil {
		out = append(out, c05Signed{"deneb-blinded", s.DenebBlinded.Message, s.DenebBlinded.Signature})
	}
	return out
}

// c05BlindedParts: the same for an unblinding request.
func c05BlindedParts(r *api.VersionedSignedBlindedProposal) []c05Signed {
	var out []c05Signed
	if r.Bellatrix != nil {
		out = append(out, c05Signed{"bellatrix-blinded", r.Bellatrix.Message, r.Bellatrix.Signature})
	}
	if r.Capella != nil {
		out = append(out, c05Signed{"capella-blinded", r.Capella.Message, r.Capella.Signature})
	}
	if r.Deneb != nil {
		out = append(out, c05Signed{"deneb-blinded", r.Deneb.Message, r.Deneb.Signature})
	}
	return out
}

func c05SideHash(proofs []deneb.KZGProof, blobs []deneb.Blob) string {
	h := sha256.New()
	for _, p := range proofs {
		h.Write(p[:])
	}
	h.Write([]byte{0xff})
	for i := range blobs {
		h.Write(blobs[i][:])
	}
	return fmt.Sprintf("%d/%d/%x", len(proofs), len(blobs), h.Sum(nil)[:8])
}
