package c16

import (
	"fmt"
	"os"
	"testing"

	"verif/sim"
	"verif/simrt"
)

// TestDiffRuns (VERIF_DIFF=<scenario>): runs the scenario twice per seed in one process and prints the first
// diverging line of the two event logs.
func TestDiffRuns(t *testing.T) {
	name := os.Getenv("VERIF_DIFF")
	if name == "" {
		t.Skip()
	}
	s := sim.Find("C16", name)
	for seed := uint64(1000); seed < 1040; seed += 2 {
		var logs [2][]string
		for k := 0; k < 2; k++ {
			o := sim.RunOnce(t, s, simrt.NewTape(seed|1, nil), simrt.NewTape(seed&^1, nil))
			logs[k] = o.Res.Log
		}
		n := len(logs[0])
		if len(logs[1]) < n {
			n = len(logs[1])
		}
		for i := 0; i < n; i++ {
			if logs[0][i] != logs[1][i] {
				lo := i - 6
				if lo < 0 {
					lo = 0
				}
				for j := lo; j <= i; j++ {
					fmt.Printf("seed %d A %s\n", seed, logs[0][j])
				}
				fmt.Printf("seed %d B %s\n", seed, logs[1][i])
				return
			}
		}
		if len(logs[0]) != len(logs[1]) {
			fmt.Printf("seed %d: lengths %d %d\n", seed, len(logs[0]), len(logs[1]))
			return
		}
	}
	fmt.Println("no divergence")
}
