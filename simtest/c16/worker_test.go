//go:debug randseednop=0
package c16

import (
	"testing"

	"verif/sim"
)

// randseednop=0: this package also runs scenarios of C10-C12 (vouch draws the registration job's time from the
// math/rand global source; relaysim seeds it from the plan with rand.Seed, which is a no-op otherwise).
func TestWorker(t *testing.T) { sim.WorkerMain(t) }
