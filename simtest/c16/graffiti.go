package c16

import (
	"context"
	"errors"
	"fmt"
	"strings"
	"time"

	"github.com/attestantio/go-eth2-client/spec/phase0"
	dynamicgraffiti "github.com/attestantio/vouch/services/graffitiprovider/dynamic"
	staticgraffiti "github.com/attestantio/vouch/services/graffitiprovider/static"
	"github.com/rs/zerolog"
	"github.com/wealdtech/go-majordomo"

	"verif/sim"
	"verif/simrt"
	"verif/simtest/c10/relaysim"
	. "verif/simtest/env"
)

// Graffiti sources an operator can supply: files (primary and fallback location, per-validator and per-slot
// templates) with any mix of blank lines, line endings, over-long lines, template fragments and bytes that
// are not text; a source that fails, has nothing, or is empty.  Oracle: no panic, and the provider returns.

type graffitiFile struct {
	Kind string `json:"kind"` // content | error | notfound | empty
	Body string `json:"body,omitempty"`
}

type graffitiPlan struct {
	Location string                  `json:"location"`
	Fallback string                  `json:"fallback,omitempty"`
	Files    map[string]graffitiFile `json:"files"` // by resolved location; anything else: not found
	Static   string                  `json:"static"`
	Calls    [][2]uint64             `json:"calls"` // (slot, validator index)
}

var graffitiLines = []string{"", "", " ", "\t", "  \t ", "hello", "{{SLOT}}", "v{{VALIDATORINDEX}} s{{SLOT}}", "0123456789012345678901234567890123456789", "\xff\xfe\x00", "{{", "}}{{SLOT", "{{SLOT}}{{SLOT}}{{SLOT}}{{SLOT}}{{SLOT}}{{SLOT}}{{SLOT}}", "\r"}
var graffitiSeps = []string{"\n", "\n", "\r\n", "\n\n", "\r\n\r\n", "\n\n\n", "\n\r\n"}

func genGraffitiBody(p *simrt.Tape) string {
	var b strings.Builder
	if p.Pct(30) {
		b.WriteString(graffitiSeps[p.Pick(len(graffitiSeps))])
	}
	for i, n := 0, p.Range(0, 4); i < n; i++ {
		b.WriteString(graffitiLines[p.Pick(len(graffitiLines))])
		if i+1 < n || p.Pct(60) {
			b.WriteString(graffitiSeps[p.Pick(len(graffitiSeps))])
		}
	}
	return b.String()
}

func genGraffitiFile(p *simrt.Tape) graffitiFile {
	switch p.Pick(8) {
	case 0:
		return graffitiFile{Kind: "error"}
	case 1:
		return graffitiFile{Kind: "notfound"}
	case 2:
		return graffitiFile{Kind: "empty"}
	}
	return graffitiFile{Kind: "content", Body: genGraffitiBody(p)}
}

func genGraffiti(p *simrt.Tape) any {
	pl := &graffitiPlan{Files: map[string]graffitiFile{}}
	pl.Location = []string{"file:///g/all", "file:///g/{{VALIDATORINDEX}}", "file:///g/{{SLOT}}/{{VALIDATORINDEX}}", "file:///g/{{SLOT}}{{"}[p.Pick(4)]
	if p.Pct(60) {
		pl.Fallback = "file:///g/fallback"
		pl.Files[pl.Fallback] = genGraffitiFile(p)
	}
	for i, n := 0, p.Range(1, 4); i < n; i++ {
		slot, val := uint64(p.Range(0, 3)), uint64(p.Range(0, 2))
		pl.Calls = append(pl.Calls, [2]uint64{slot, val})
		loc := strings.ReplaceAll(strings.ReplaceAll(pl.Location, "{{SLOT}}", fmt.Sprint(slot)), "{{VALIDATORINDEX}}", fmt.Sprint(val))
		if _, ok := pl.Files[loc]; !ok && p.Pct(80) {
			pl.Files[loc] = genGraffitiFile(p)
		}
	}
	pl.Static = graffitiLines[p.Pick(len(graffitiLines))]
	return pl
}

type graffitiStore struct{ pl *graffitiPlan }

func (s *graffitiStore) Fetch(ctx context.Context, url string) ([]byte, error) {
	simrt.Yield("graffiti/Fetch")
	f, ok := s.pl.Files[url]
	if !ok {
		return nil, majordomo.ErrNotFound
	}
	switch f.Kind {
	case "error":
		simrt.Probe("fault:graffiti-source-error")
		return nil, errors.New("simulated source failure")
	case "notfound":
		return nil, majordomo.ErrNotFound
	case "empty":
		simrt.Probe("fault:graffiti-source-empty")
		return []byte{}, nil
	}
	if strings.TrimSpace(f.Body) == "" {
		simrt.Probe("fault:graffiti-only-blank-lines")
	}
	return []byte(f.Body), nil
}

func execGraffiti(plan any, sched *simrt.Tape) *sim.Outcome {
	pl := plan.(*graffitiPlan)
	out := &sim.Outcome{Probes: map[string]int{}, Sample: pl, Nontrivial: true}
	res := sim.Run(sched, time.Minute, 20000, nil, func(ctx context.Context) {
		relaysim.SeedGlobalRand(int64(len(pl.Location)*131 + len(pl.Calls))) // the provider picks a line with math/rand
		params := []dynamicgraffiti.Parameter{dynamicgraffiti.WithLogLevel(zerolog.Disabled), dynamicgraffiti.WithMajordomo(&graffitiStore{pl: pl}), dynamicgraffiti.WithLocation(pl.Location)}
		if pl.Fallback != "" {
			params = append(params, dynamicgraffiti.WithFallbackLocation(pl.Fallback))
		}
		dyn, err := dynamicgraffiti.New(ctx, params...)
		if err != nil {
			panic(fmt.Sprintf("harness: dynamic graffiti provider: %v", err))
		}
		st, err := staticgraffiti.New(ctx, staticgraffiti.WithLogLevel(zerolog.Disabled), staticgraffiti.WithGraffiti([]byte(pl.Static)))
		for _, c := range pl.Calls {
			c := c
			simrt.Go("graffiti", func() {
				g, gerr := dyn.Graffiti(ctx, phase0.Slot(c[0]), phase0.ValidatorIndex(c[1]))
				if gerr == nil {
					simrt.Probe("graffiti-obtained")
					// what the proposer does with it
					var fixed [32]byte
					copy(fixed[:], g)
				}
				if err == nil {
					_, _ = st.Graffiti(ctx, phase0.Slot(c[0]), phase0.ValidatorIndex(c[1]))
				}
			})
		}
		simrt.Sleep(ctx, time.Second, "graffiti/drain")
	})
	out.Res = res
	if res.Violation != nil {
		out.Violation = res.Violation
		switch res.Violation.Kind {
		case "panic":
			out.Violation.Kind = "C16/panic/" + PanicSite(res.Violation.Detail)
		case "deadlock", "horizon":
			out.Violation.Kind = "C16/" + res.Violation.Kind
		}
	}
	return out
}

func init() {
	sim.Register(&sim.Scenario{Property: "C16", Name: "graffiti-sources", Gen: genGraffiti, Exec: execGraffiti, Weight: 1})
}
