// Package c16: no data from a beacon node, relay or configuration can crash vouch.
//
// The "odd content" fault kind: stubs return well-formed but unexpected content
// (nil data and nested pointers, empty lists, duplicate or out-of-range duties,
// other-slot payloads, nil values, a blinded proposal without auction).  Every
// goroutine of the instrumented code runs under a recover wrapper, so a panic is
// recorded instead of killing the worker.
package c16

import (
	"context"
	"sort"
	"strings"
	"time"

	"verif/sim"
	"verif/simrt"
	_ "verif/simtest/c05" // registers C05PROBE/blinded-without-auction
	_ "verif/simtest/c08" // registers C08PROBE/odd-error-bodies
	_ "verif/simtest/c18" // registers C18PROBE/odd-headers
	"verif/simtest/c07"
	_ "verif/simtest/c09" // registers C09PROBE/unobtainable-client-*
	_ "verif/simtest/c10" // execution configurations of any shape, resolved for every validator
	"verif/simtest/c12" // configuration source returning errors, null, garbled and partial documents
	. "verif/simtest/env"
	"verif/simtest/syssim"
)

var oddKinds = map[string][]string{
	"AttesterDuties":            {"other-epoch", "duplicate", "empty", "nil-data", "out-of-range", "foreign-validator"},
	"ProposerDuties":            {"other-epoch", "empty", "nil-data", "duplicate", "foreign-validator"},
	"SyncCommitteeDuties":       {"empty", "nil-data", "out-of-range"},
	"AttestationData":           {"nil-data", "nil-source", "nil-target", "wrong-slot", "target-below", "source-above"},
	"AggregateAttestation":      {"nil-data", "nil-att-data", "empty-bits"},
	"BeaconBlockRoot":           {"nil-data"},
	"BeaconBlockHeader":         {"nil-data", "nil-header"},
	"Proposal":                  {"nil-data", "wrong-slot", "nil-block", "nil-values", "blinded-no-auction", "nil-body"},
	"SignedBeaconBlock":         {"nil-data", "nil-block"},
	"SyncCommitteeContribution": {"nil-data"},
	"HeadEvent":                 {"nil-data", "far-future-slot"},
	"BlockEvent":                {"nil-data"},
}

func gen(p *simrt.Tape) any {
	pl := &syssim.Plan{
		Seed:                  uint64(p.Intn(1 << 16)),
		SecondsPerSlot:        12,
		SlotsPerEpoch:         4,
		EpochsPerPeriod:       8,
		TotalValidators:       p.Range(8, 12),
		Committees:            2,
		TargetAggregators:     16,
		Nodes:                 p.Range(1, 2),
		FastTrackAttestations: p.Bool(),
		FastTrackSync:         p.Bool(),
		FastTrackGrace:        500 * time.Millisecond,
		AccountKind:           int(KindMulti),
		Multinode:             p.Pct(30),
		DataStrategy:          []string{"", "", "first", "best"}[p.Pick(4)],
	}
	slot := time.Duration(pl.SecondsPerSlot) * time.Second
	pl.MaxAttestationDelay = slot / 3
	pl.AggregationDelay = slot * 2 / 3
	pl.MaxSyncMessageDelay = slot / 3
	pl.SyncAggregationDelay = slot * 2 / 3
	nOurs := p.Range(2, 5)
	perm := make([]int, pl.TotalValidators)
	for i := range perm {
		perm[i] = i
	}
	for i := len(perm) - 1; i > 0; i-- {
		j := p.Intn(i + 1)
		perm[i], perm[j] = perm[j], perm[i]
	}
	pl.Ours = append([]int{}, perm[:nOurs]...)
	sort.Ints(pl.Ours)
	epoch := slot * time.Duration(pl.SlotsPerEpoch)
	pl.StartOffset = epoch + time.Duration(p.Intn(int(epoch/time.Millisecond)))*time.Millisecond
	startSlot := uint64(pl.StartOffset / slot)
	pl.HorizonSlots = startSlot + 3*pl.SlotsPerEpoch
	pl.HeadLatencyMs = []int{[]int{400, 1000, 3000}[p.Pick(3)]}
	methods := make([]string, 0, len(oddKinds))
	for m := range oddKinds {
		methods = append(methods, m)
	}
	sort.Strings(methods)
	for i, n := 0, p.Range(1, 3); i < n; i++ {
		m := methods[p.Pick(len(methods))]
		pl.Odd = append(pl.Odd, syssim.OddContent{Method: m, Call: p.Intn(5), Kind: oddKinds[m][p.Pick(len(oddKinds[m]))]})
	}
	if p.Pct(20) {
		pl.Reorgs = append(pl.Reorgs, syssim.Reorg{Slot: startSlot + 1 + uint64(p.Intn(4)), Kind: p.Pick(3)})
	}
	if p.Pct(15) {
		pl.OddSpec = []string{"zero-target-aggregators", "zero-sync-target-aggregators", "huge-target-aggregators"}[p.Pick(3)]
	}
	return pl
}

func exec(plan any, sched *simrt.Tape) *sim.Outcome {
	pl := plan.(*syssim.Plan)
	out := &sim.Outcome{Probes: map[string]int{}, Sample: pl}
	var rec *syssim.Record
	slot := time.Duration(pl.SecondsPerSlot) * time.Second
	horizon := 10*time.Minute + time.Duration(pl.HorizonSlots+2)*slot + time.Minute
	res := sim.Run(sched, horizon, 600000, nil, func(ctx context.Context) {
		rec = syssim.Run(ctx, pl, nil)
		simrt.Sleep(ctx, slot, "c16/drain")
	})
	out.Res = res
	out.Nontrivial = true
	if res.Violation != nil {
		out.Violation = res.Violation
		switch res.Violation.Kind {
		case "panic":
			// name the crash by the odd content that was being served
			out.Violation.Kind = "C16/panic/" + PanicSite(res.Violation.Detail)
		case "deadlock", "horizon":
			out.Violation.Kind = "C16/" + res.Violation.Kind
		}
		return out
	}
	if len(rec.BuildErrors) > 0 {
		if strings.HasPrefix(pl.OddSpec, "zero-") {
			// declining to start on a specification with a zero divisor is an error, not a crash
			out.Probes["start-refused-on-odd-specification"]++
			return out
		}
		out.Violation = Viol("harness-build", "services failed to start: %v", rec.BuildErrors)
		return out
	}
	// the process keeps running: duties of the last epoch are still carried out
	lastEpochStart := (pl.HorizonSlots/pl.SlotsPerEpoch - 1) * pl.SlotsPerEpoch
	later := 0
	for _, inv := range rec.Invs("attest") {
		if inv.Slot >= lastEpochStart {
			later++
		}
	}
	oddLate := false
	for _, o := range pl.Odd {
		if o.Call >= 2 {
			oddLate = true // may hit the last epoch's own requests
		}
	}
	if later == 0 && !oddLate {
		expected := false
		for _, f := range rec.H.Fetches {
			if f.Kind == "attester" && !f.Err && f.Epoch == lastEpochStart/pl.SlotsPerEpoch && len(f.Att) > 0 {
				expected = true
			}
		}
		if expected {
			out.Violation = Viol("C16/duties-stopped-after-odd-content", "no attestation ran in the last epoch (slots >= %d) although duties for it were obtained; odd content served: %v", lastEpochStart, pl.Odd)
			return out
		}
	}
	out.Probes["survived-odd-content"]++
	return out
}

func init() {
	sim.Register(&sim.Scenario{Property: "C16", Name: "system-odd", Gen: gen, Exec: exec, Weight: 4})
	for _, s := range c07.OddScenarios("C16") {
		sim.Register(s)
	}
	// odd-content probes built with the proposer and auction scenarios: only crashes count here
	for _, ref := range [][2]string{{"C05PROBE", "blinded-without-auction"}, {"C09PROBE", "unobtainable-client-best"}, {"C09PROBE", "unobtainable-client-deadline"},
		{"C12", "config-source-chaos"}, {"C10", "precedence"}, {"C05", "propose"}, {"C08PROBE", "odd-error-bodies"}, {"C18PROBE", "odd-headers"}, {"C12", "config-shapes"}} {
		name, w := ref[1], 1
		if name == "config-shapes" {
			ref[1], w = "config-source-chaos", 2
		}
		src := sim.Find(ref[0], ref[1])
		if src == nil {
			continue
		}
		inner, g := src.Exec, src.Gen
		if name == "config-shapes" {
			g = c12.GenShaped
		}
		sim.Register(&sim.Scenario{Property: "C16", Name: name, Gen: g, Weight: w, Exec: func(plan any, sched *simrt.Tape) *sim.Outcome {
			o := inner(plan, sched)
			if o != nil && o.Violation != nil {
				if strings.Contains(o.Violation.Kind, "panic") {
					o.Violation.Kind = "C16/panic/" + PanicSite(o.Violation.Detail)
				} else if !strings.HasPrefix(o.Violation.Kind, "harness-") {
					o.Violation = nil
				}
			}
			if o != nil {
				o.Nontrivial = true
			}
			return o
		}})
	}
}
