package c13

import (
	"context"
	"fmt"
	"sort"
	"strings"
	"time"

	eth2client "github.com/attestantio/go-eth2-client"
	"github.com/attestantio/go-eth2-client/api"
	apiv1 "github.com/attestantio/go-eth2-client/api/v1"
	"github.com/attestantio/go-eth2-client/spec/phase0"
	"github.com/attestantio/vouch/services/accountmanager"
	"github.com/attestantio/vouch/services/chaintime"
	nullmetrics "github.com/attestantio/vouch/services/metrics/null"
	"github.com/attestantio/vouch/services/validatorsmanager"
	standardvalidatorsmanager "github.com/attestantio/vouch/services/validatorsmanager/standard"
	"github.com/rs/zerolog"
	e2wtypes "github.com/wealdtech/go-eth2-wallet-types/v2"

	"verif/sim"
	"verif/simrt"
	. "verif/simtest/env"
)

// manager is what both account managers offer.
type manager interface {
	accountmanager.ValidatingAccountsProvider
	accountmanager.Refresher
	accountmanager.AccountsProvider
}

// ---- history ----

// offerRec: one wallet was asked for its accounts during operation Op.
type offerRec struct {
	Op      int
	Wallet  string
	Step    int
	Outcome string // "" | empty | error
	Accts   []int  // indices into plan.Accts
}

// valCall: the beacon node was asked for validators during operation Op.
type valCall struct {
	Op        int
	Step      int
	EndStep   int
	Requested map[int]bool // key indices (public keys nobody has are ignored)
	ReqOther  int          // requested public keys that belong to no account
	Outcome   string
	Returned  map[int]vrec // by key
}

type opRec struct {
	Idx               int
	Kind              string
	CallStep, RetStep int
	Done              bool
	Err               error
	Epoch             uint64 // epoch (oracle arithmetic) at the start of the operation
}

type resEntry struct {
	Index  uint64
	Nil    bool
	Key    int // account index; -1: not an account of the universe
	Name   string
	Wallet string
}

type lookupRec struct {
	Client, I         int
	L                 lookup
	Epoch             uint64
	Indices           []uint64
	CallStep, RetStep int
	CallT             time.Duration
	Done              bool
	Err               error
	Res               []resEntry // sorted by index
	Found             bool       // bypubkey
}

type history struct {
	pl      *plan
	ops     []*opRec
	offers  []*offerRec
	vals    []*valCall
	lookups []*lookupRec
	curOp   int
	// live signer / chain state (harness side)
	present  []bool
	registry []vrec
	pending  []string
}

// probe notes a probe from inside a simrt.Crit section (simrt.Probe takes the same lock).
func (h *history) probe(name string) { h.pending = append(h.pending, name) }

// flushProbes fires the noted probes; call it outside simrt.Crit.
func (h *history) flushProbes() {
	var p []string
	simrt.Crit(func() { p, h.pending = h.pending, nil })
	for _, n := range p {
		simrt.Probe(n)
	}
}

// ---- the beacon node's validators endpoint ----

type valProvider struct {
	h     *history
	chain *Chain
}

var _ eth2client.ValidatorsProvider = (*valProvider)(nil)

func (p *valProvider) Validators(ctx context.Context, opts *api.ValidatorsOpts) (*api.Response[map[phase0.ValidatorIndex]*apiv1.Validator], error) {
	h := p.h
	var vc *valCall
	var out valOutcome
	simrt.Crit(func() {
		out = h.pl.Ops[h.curOp].Val
		vc = &valCall{Op: h.curOp, Step: simrt.Step(), Requested: map[int]bool{}, Outcome: out.Kind, Returned: map[int]vrec{}}
		for _, pk := range opts.PubKeys {
			if k, ok := keyOfPubKey(h.pl, pk); ok {
				vc.Requested[k] = true
			} else {
				vc.ReqOther++
			}
		}
		h.vals = append(h.vals, vc)
	})
	if err := simrt.Sleep(ctx, out.Lat, "bn/Validators"); err != nil {
		simrt.Crit(func() { vc.Outcome, vc.EndStep = "cancelled", simrt.Step() })
		return nil, err
	}
	if out.Lat > 0 {
		simrt.Probe("fault:validators-latency")
	}
	res := map[phase0.ValidatorIndex]*apiv1.Validator{}
	var err error
	simrt.Crit(func() {
		vc.EndStep = simrt.Step()
		switch out.Kind {
		case "error":
			h.probe("fault:validators-error")
			err = fmt.Errorf("bn Validators: %w", ErrSimulated)
			return
		case "empty":
			h.probe("fault:validators-empty")
			return
		}
		var keys []int
		for k := range h.registry {
			// no public keys in the request means no filter, as in the API
			if h.registry[k].Known && (len(opts.PubKeys) == 0 || vc.Requested[k]) {
				keys = append(keys, k)
			}
		}
		if out.Kind == "partial" && len(keys) > 1 {
			h.probe("fault:validators-partial")
			d := out.Drop % len(keys)
			keys = append(append([]int{}, keys[:d]...), keys[d+1:]...)
		} else if out.Kind == "partial" {
			vc.Outcome = ""
		}
		for _, k := range keys {
			r := h.registry[k]
			vc.Returned[k] = r
			bal := phase0.Gwei(r.EffBal)
			res[phase0.ValidatorIndex(r.Index)] = &apiv1.Validator{
				Index:   phase0.ValidatorIndex(r.Index),
				Balance: bal,
				Validator: &phase0.Validator{
					PublicKey:                  PubKey(h.pl.Accts[k].Key),
					WithdrawalCredentials:      make([]byte, 32),
					EffectiveBalance:           phase0.Gwei(r.EffBal),
					Slashed:                    r.Slashed,
					ActivationEligibilityEpoch: phase0.Epoch(r.Elig),
					ActivationEpoch:            phase0.Epoch(r.Act),
					ExitEpoch:                  phase0.Epoch(r.Exit),
					WithdrawableEpoch:          phase0.Epoch(r.Wd),
				},
			}
		}
	})
	h.flushProbes()
	if err != nil {
		return nil, err
	}
	return &api.Response[map[phase0.ValidatorIndex]*apiv1.Validator]{Data: res, Metadata: map[string]any{}}, nil
}

// keyOfPubKey maps a validator public key to the account (index in plan.Accts) it belongs to.
func keyOfPubKey(pl *plan, pk phase0.BLSPubKey) (int, bool) {
	for x, a := range pl.Accts {
		if PubKey(a.Key) == pk {
			return x, true
		}
	}
	return -1, false
}

// identify maps a returned account to the universe by its validator public key
// (the composite key of a distributed account), as the chain would.
func identify(pl *plan, a e2wtypes.Account) (x int, name, wallet string) {
	var pk phase0.BLSPubKey
	if cp, ok := a.(e2wtypes.AccountCompositePublicKeyProvider); ok {
		copy(pk[:], cp.CompositePublicKey().Marshal())
	} else {
		copy(pk[:], a.PublicKey().Marshal())
	}
	x, _ = keyOfPubKey(pl, pk)
	if wp, ok := a.(e2wtypes.AccountWalletProvider); ok && wp.Wallet() != nil {
		wallet = wp.Wallet().Name()
	}
	return x, a.Name(), wallet
}

// oracleEpoch is the epoch by the oracle's own arithmetic.
func oracleEpoch(c *Chain) uint64 { return c.EpochOf(c.SlotAt(time.Now())) }

// applyChanges applies the chain events and signer changes planned before operation i.
func (h *history) applyChanges(i int, c *Chain) {
	cur := oracleEpoch(c)
	for _, ev := range h.pl.Events {
		if ev.BeforeOp != i {
			continue
		}
		r := &h.registry[ev.Key]
		switch ev.Kind {
		case "slash":
			if r.Known && !r.Slashed && r.Act != far && r.Act <= cur && (r.Exit == far || r.Exit > cur) {
				r.Slashed = true
				r.Exit = cur + 1 + uint64(ev.Delay)
				r.Wd = r.Exit + 3
				h.probe("chain-slash")
			}
		case "exit":
			if r.Known && r.Exit == far && r.Act != far {
				r.Exit = cur + 1 + uint64(ev.Delay)
				r.Wd = r.Exit + 2
				h.probe("chain-exit")
			}
		case "activate":
			if r.Known && r.Act == far {
				r.Elig, r.Act = cur, cur+1+uint64(ev.Delay)
				h.probe("chain-activate")
			}
		case "appear":
			if !r.Known {
				r.Known = true
				h.probe("chain-appear")
			}
		case "withdrawn":
			if r.Known && r.Wd != far && r.Wd <= cur && r.EffBal != 0 {
				r.EffBal = 0
				h.probe("chain-withdrawn")
			}
		}
	}
	for _, ch := range h.pl.Changes {
		if ch.BeforeOp == i && h.present[ch.Acct] != ch.Present {
			h.present[ch.Acct] = ch.Present
			h.probe("signer-change")
		}
	}
}

// scenarioImpl is what differs between the two account managers.
type scenarioImpl interface {
	// setup runs inside the bubble before the manager is built.
	setup(h *history) error
	// build constructs the real account manager (which does its first refresh).
	build(ctx context.Context, h *history, vm validatorsmanager.Service, ct chaintime.Service, prov *ChainProviders) (manager, error)
	// beforeOp makes the signer offer what the plan says for operation i.
	beforeOp(h *history, i int)
	cleanup()
}

func execPlan(impl scenarioImpl) func(plan any, sched *simrt.Tape) *sim.Outcome {
	return func(planAny any, sched *simrt.Tape) *sim.Outcome {
		pl := planAny.(*plan)
		out := &sim.Outcome{Probes: map[string]int{}, Sample: pl}
		h := &history{pl: pl}
		for _, a := range pl.Accts {
			h.present = append(h.present, a.Present)
		}
		h.registry = append(h.registry, pl.Registry...)
		var buildErr error
		defer impl.cleanup()

		res := sim.Run(sched, 30*time.Minute, 60000, nil, func(ctx context.Context) {
			chain := DefaultChain(-(time.Duration(pl.StartEpoch)*epochDur + pl.StartOffset))
			chain.SecondsPerSlot, chain.SlotsPerEpoch = secondsPerSlot, slotsPerEpoch
			prov := &ChainProviders{C: chain}
			ct := NewChainTime(ctx, chain)
			vp := &valProvider{h: h, chain: chain}
			vm, err := standardvalidatorsmanager.New(ctx,
				standardvalidatorsmanager.WithLogLevel(zerolog.Disabled),
				standardvalidatorsmanager.WithMonitor(nullmetrics.New()),
				standardvalidatorsmanager.WithClientMonitor(nullmetrics.New()),
				standardvalidatorsmanager.WithValidatorsProvider(vp),
				standardvalidatorsmanager.WithFarFutureEpoch(FarFuture),
			)
			if err != nil {
				panic(err)
			}
			if err := impl.setup(h); err != nil {
				panic(err)
			}

			// operation 0: construction
			rec0 := &opRec{Idx: 0, Kind: "new", Epoch: oracleEpoch(chain)}
			h.ops = append(h.ops, rec0)
			impl.beforeOp(h, 0)
			rec0.CallStep = simrt.Step()
			am, err := impl.build(ctx, h, vm, ct, prov)
			simrt.Yield("c13/built")
			rec0.RetStep, rec0.Done, rec0.Err = simrt.Step(), true, err
			if err != nil {
				buildErr = err
				return
			}

			allKeys := make([]phase0.BLSPubKey, len(pl.Accts))
			for k, a := range pl.Accts {
				allKeys[k] = PubKey(a.Key)
			}

			// refresher task: the remaining operations, one after the other
			refresherDone := false
			simrt.Go("refresher", func() {
				for i := 1; i < len(pl.Ops); i++ {
					o := pl.Ops[i]
					if d := o.At - simrt.Now(); d > 0 {
						simrt.Sleep(ctx, d, "c13/opwait")
					}
					rec := &opRec{Idx: i, Kind: o.Kind, Epoch: oracleEpoch(chain)}
					simrt.Crit(func() {
						h.curOp = i
						h.applyChanges(i, chain)
						h.ops = append(h.ops, rec)
					})
					h.flushProbes()
					impl.beforeOp(h, i)
					simrt.Yield("c13/opcall")
					rec.CallStep = simrt.Step()
					if o.Kind == "refresh" {
						am.Refresh(ctx)
					} else {
						rec.Err = vm.RefreshValidatorsFromBeaconNode(ctx, allKeys)
					}
					simrt.Yield("c13/opret")
					simrt.Crit(func() { rec.RetStep, rec.Done = simrt.Step(), true })
				}
				simrt.Crit(func() { refresherDone = true })
			})

			// client tasks
			clientsDone := 0
			for c := range pl.Clients {
				ls := append([]lookup{}, pl.Clients[c]...)
				sort.SliceStable(ls, func(i, j int) bool { return ls[i].At < ls[j].At })
				simrt.Go(fmt.Sprintf("client%d", c), func() {
					for i, l := range ls {
						if d := l.At - simrt.Now(); d > 0 {
							simrt.Sleep(ctx, d, "c13/lookupwait")
						}
						rec := &lookupRec{Client: c, I: i, L: l}
						e := int64(l.Epoch)
						if l.Rel {
							e += int64(ct.CurrentEpoch())
						}
						if e < 0 {
							e = 0
						}
						rec.Epoch = uint64(e)
						for k := range pl.Accts {
							if l.IdxMask&(1<<k) != 0 {
								rec.Indices = append(rec.Indices, pl.Registry[k].Index)
							}
						}
						if l.IdxMask&(1<<8) != 0 {
							rec.Indices = append(rec.Indices, 9999)
						}
						idx := make([]phase0.ValidatorIndex, len(rec.Indices))
						for j, x := range rec.Indices {
							idx[j] = phase0.ValidatorIndex(x)
						}
						simrt.Crit(func() { h.lookups = append(h.lookups, rec) })
						simrt.Yield("c13/lookupcall")
						rec.CallStep, rec.CallT = simrt.Step(), simrt.Now()
						var m map[phase0.ValidatorIndex]e2wtypes.Account
						switch l.Kind {
						case "validating":
							m, rec.Err = am.ValidatingAccountsForEpoch(ctx, phase0.Epoch(rec.Epoch))
						case "validatingidx":
							m, rec.Err = am.ValidatingAccountsForEpochByIndex(ctx, phase0.Epoch(rec.Epoch), idx)
						case "sync":
							m, rec.Err = am.SyncCommitteeAccountsForEpoch(ctx, phase0.Epoch(rec.Epoch))
						case "syncidx":
							m, rec.Err = am.SyncCommitteeAccountsForEpochByIndex(ctx, phase0.Epoch(rec.Epoch), idx)
						case "bypubkey":
							var a e2wtypes.Account
							pk := PubKey(nobodyKey)
							if l.Key < len(pl.Accts) {
								pk = PubKey(pl.Accts[l.Key].Key)
							}
							a, rec.Err = am.AccountByPublicKey(ctx, pk)
							if rec.Err == nil {
								rec.Found = true
								m = map[phase0.ValidatorIndex]e2wtypes.Account{0: a}
								rec.Err = nil
							}
						}
						for vi, a := range m {
							en := resEntry{Index: uint64(vi), Key: -1}
							if a == nil {
								en.Nil = true
							} else {
								en.Key, en.Name, en.Wallet = identify(pl, a)
							}
							rec.Res = append(rec.Res, en)
						}
						sort.Slice(rec.Res, func(i, j int) bool { return rec.Res[i].Index < rec.Res[j].Index })
						simrt.Yield("c13/lookupret")
						simrt.Crit(func() { rec.RetStep, rec.Done = simrt.Step(), true })
					}
					simrt.Crit(func() { clientsDone++ })
				})
			}
			// wait for everybody (bounded: the horizon of sim.Run catches a hang)
			for {
				simrt.Sleep(ctx, epochDur, "c13/mainwait")
				done := false
				simrt.Crit(func() { done = refresherDone && clientsDone == len(pl.Clients) })
				if done && simrt.Now() >= pl.End {
					return
				}
			}
		})
		out.Res = res
		if res.Violation != nil {
			out.Violation = res.Violation
			switch res.Violation.Kind {
			case "panic":
				out.Violation.Kind = "C13/panic"
				// the one panic that is a known finding gets its own class, so that any other panic stands out
				if d := res.Violation.Detail; strings.Contains(d, "nil pointer dereference") && strings.Contains(d, ").accountsForEpochWithFilter(") {
					out.Violation.Kind = "C13/panic-nil-account-in-lookup"
				}
			case "deadlock":
				out.Violation.Kind = "C13/" + res.Violation.Kind
			case "horizon", "stuck":
				out.Violation.Kind = "C13/" + res.Violation.Kind
			}
			return out
		}
		if buildErr != nil {
			// Construction may fail only if the beacon node failed the first validators request
			// (wallet manager) -- never for a specifier list, valid or not.
			out.Probes["construction-failed"]++
			if pl.Ops[0].Val.Kind == "error" {
				return out
			}
			out.Violation = Viol("C13/construction-failed", "account manager construction failed: %v", buildErr)
			return out
		}
		out.Violation = judge(h, out)
		return out
	}
}
