// Package c13 checks property C13: only configured accounts validate, and only
// while their validator is active.
//
// Real code: services/accountmanager/{dirk,wallet}, services/accountmanager/utils,
// services/validatorsmanager/standard, services/chaintime/standard.
// Stubs: the Dirk server behind the wallets (scenario "dirk"; through the
// VerifNew seam) or nd wallets on disk (scenario "wallet"), the beacon node's
// validators endpoint.  Oracle: reference model over the observable history
// (what the wallets offered, what the beacon node answered, what the lookups
// returned); see oracle.go.
package c13

import (
	"fmt"
	"time"

	"verif/simrt"
)

const far = ^uint64(0)

const (
	secondsPerSlot = 2
	slotsPerEpoch  = 4
	epochDur       = time.Duration(secondsPerSlot*slotsPerEpoch) * time.Second
)

// acct is one account that exists (or can come to exist) in the signer.
type acct struct {
	Wallet  string `json:"wallet"`
	Name    string `json:"name"`
	Key     int    `json:"key"`            // env.PrivKey index of the validator key
	Dist    bool   `json:"dist,omitempty"` // distributed account (share key != validator key); dirk only
	Present bool   `json:"present"`        // offered from the start
}

// vrec is a validator as the beacon node reports it.
type vrec struct {
	Known   bool   `json:"known"` // the chain knows this public key
	Index   uint64 `json:"index"`
	Elig    uint64 `json:"elig"`
	Act     uint64 `json:"act"`
	Exit    uint64 `json:"exit"`
	Wd      uint64 `json:"wd"`
	Slashed bool   `json:"slashed,omitempty"`
	EffBal  uint64 `json:"effbal"` // 0 <=> withdrawal done (balance 0 as well)
}

// chainEvent changes a validator record before operation BeforeOp.
type chainEvent struct {
	BeforeOp int    `json:"before_op"`
	Key      int    `json:"key"`  // account index
	Kind     string `json:"kind"` // slash | exit | activate | appear | withdrawn
	Delay    int    `json:"delay"`
}

// signerChange adds or removes an account in the signer before operation BeforeOp.
type signerChange struct {
	BeforeOp int  `json:"before_op"`
	Acct     int  `json:"acct"`
	Present  bool `json:"present"`
}

// walletOutcome is what one wallet answers to one account listing.
type walletOutcome struct {
	Kind string        `json:"kind,omitempty"` // "" full | "empty" | "error"
	Lat  time.Duration `json:"lat,omitempty"`
}

// valOutcome is what the beacon node answers to one validators request.
type valOutcome struct {
	Kind string        `json:"kind,omitempty"` // "" full | "empty" | "error" | "partial"
	Lat  time.Duration `json:"lat,omitempty"`
	Drop int           `json:"drop,omitempty"` // partial: selector of the record left out
}

// op is one refresh operation.  Op 0 is the construction of the account
// manager (which performs the first refresh).
type op struct {
	At      time.Duration   `json:"at"`
	Kind    string          `json:"kind"`    // refresh (account manager Refresh) | vrefresh (validators manager refresh)
	Wallets []walletOutcome `json:"wallets"` // one per universe wallet
	Val     valOutcome      `json:"val"`
}

// lookup is one client call.
type lookup struct {
	At      time.Duration `json:"at"`
	Kind    string        `json:"kind"` // validating | validatingidx | sync | syncidx | bypubkey
	Rel     bool          `json:"rel"`  // epoch is relative to the current epoch of the real chaintime
	Epoch   int           `json:"epoch"`
	IdxMask int           `json:"idxmask,omitempty"` // byindex: which registry indices are asked for (bit n-th key; top bit = an index nobody has)
	Key     int           `json:"key,omitempty"`     // bypubkey: account index (== len(Accts): a key nobody has)
}

type plan struct {
	Scenario    string         `json:"scenario"`
	StartEpoch  int            `json:"start_epoch"`
	StartOffset time.Duration  `json:"start_offset"` // how far into StartEpoch the run begins
	Concurrency int            `json:"concurrency"`
	Specs       []string       `json:"specs"`
	Wallets     []string       `json:"wallets"`
	Accts       []acct         `json:"accts"`
	Registry    []vrec         `json:"registry"` // by account (index in Accts)
	Events      []chainEvent   `json:"events,omitempty"`
	Changes     []signerChange `json:"changes,omitempty"`
	Ops         []op           `json:"ops"`
	Clients     [][]lookup     `json:"clients"`
	End         time.Duration  `json:"end"`
}

var walletPool = []string{"Wallet 1", "Wallet 2", "My Wallet 1", "Wallet 10"}
var namePool = []string{"Account 1", "Account 10", "Account 2", "My Account 1", "Account 1 old", "Validator 7", "account 1"}
var indexPool = []uint64{7, 3, 1000, 42, 5, 260, 19, 88, 2, 61}

// genSpec draws one account specifier.
func genSpec(p *simrt.Tape, pl *plan) string {
	w := pl.Wallets[p.Pick(len(pl.Wallets))]
	if p.Pct(4) {
		w = "Missing"
	}
	// prefer names that exist in the wallet
	var names []string
	for _, a := range pl.Accts {
		if a.Wallet == w {
			names = append(names, a.Name)
		}
	}
	a := namePool[p.Pick(len(namePool))]
	if len(names) > 0 && p.Pct(75) {
		a = names[p.Pick(len(names))]
	}
	switch f := p.Pick(20); {
	case f < 6:
		return w + "/" + a
	case f < 8:
		return w
	case f < 9:
		return w + "/"
	case f < 13:
		res := []string{"Account .*", "Account [0-9]", ".*1", a + ".*", "(My )?Account 1", `Account \d+`, "Account 1.", ".*ccount 1", "Account.1"}
		return w + "/" + res[p.Pick(len(res))]
	case f < 16:
		switch p.Pick(3) {
		case 0:
			return w + "/^" + a + "$"
		case 1:
			return w + "/" + a + "$"
		default:
			return w + "/^" + a
		}
	case f < 17:
		return "^" + w + "/" + a + "$"
	case f < 19:
		bad := []string{"Account [", "(" + a, a + ")", "Account [9-0]", `Account \`}
		return w + "/" + bad[p.Pick(len(bad))]
	default:
		if p.Pct(40) {
			return w + "/" + a + "|Account 2"
		}
		return w + "/" + a
	}
}

func genLifecycle(p *simrt.Tape, start uint64) vrec {
	r := vrec{Known: true, Elig: 0, Act: 0, Exit: far, Wd: far, EffBal: 32_000_000_000}
	back := func(n int) uint64 {
		d := uint64(p.Pick(n))
		if d > start {
			return 0
		}
		return start - d
	}
	switch p.Pick(11) {
	case 0, 1, 2:
		r.Act = back(3)
	case 3:
		r.Elig, r.Act = back(2), start+1+uint64(p.Pick(3))
	case 4:
		r.Elig, r.Act = far, far
	case 5:
		r.Act, r.Exit = back(4), start+uint64(p.Pick(4))
		r.Wd = r.Exit + 1 + uint64(p.Pick(3))
	case 6:
		r.Act, r.Exit, r.Slashed = back(4), start+uint64(p.Pick(4)), true
		r.Wd = r.Exit + 2 + uint64(p.Pick(2))
	case 7:
		r.Exit = back(2)
		r.Wd = start + 1 + uint64(p.Pick(3))
		r.Slashed = p.Pct(30)
	case 8:
		r.Exit, r.Wd = 1, back(2)
		if r.Wd < 2 {
			r.Wd = 2
		}
	case 9:
		r.Exit, r.Wd, r.EffBal = 1, 2, 0
	default:
		// becomes active during the run
		r.Elig, r.Act = back(1), start+uint64(p.Pick(3))
		if p.Bool() {
			r.Exit = r.Act + 1 + uint64(p.Pick(3))
			r.Wd = r.Exit + 1 + uint64(p.Pick(2))
		}
	}
	return r
}

func genPlan(scenario string) func(p *simrt.Tape) any {
	return func(p *simrt.Tape) any {
		pl := &plan{Scenario: scenario}
		pl.StartEpoch = p.Range(2, 4)
		pl.StartOffset = []time.Duration{0, time.Second, 3 * time.Second, epochDur - time.Second}[p.Pick(4)]
		pl.Concurrency = []int{1, 2, 4}[p.Pick(3)]
		nw := p.Range(1, 3)
		rest := append([]string{}, walletPool...)
		for i := 0; i < nw; i++ {
			j := p.Pick(len(rest))
			if i == 0 && p.Pct(60) {
				j = 0
			}
			pl.Wallets = append(pl.Wallets, rest[j])
			rest = append(rest[:j], rest[j+1:]...)
		}
		for _, w := range pl.Wallets {
			n := p.Range(1, 4)
			if len(pl.Accts)+n > 8 {
				n = 8 - len(pl.Accts)
			}
			first := p.Pick(len(namePool))
			if p.Pct(60) {
				first = 0
			}
			for i := 0; i < n; i++ {
				ni := (first + i) % len(namePool)
				a := acct{Wallet: w, Name: namePool[ni], Key: keyFor(w, ni), Present: p.Pct(85)}
				if scenario == "dirk" {
					a.Dist = p.Pct(25)
				}
				pl.Accts = append(pl.Accts, a)
			}
		}
		rot := p.Pick(len(indexPool))
		for k := range pl.Accts {
			r := genLifecycle(p, uint64(pl.StartEpoch))
			r.Known = p.Pct(88)
			r.Index = indexPool[(rot+k*7)%len(indexPool)]
			pl.Registry = append(pl.Registry, r)
		}
		ns := p.Range(1, 4)
		for i := 0; i < ns; i++ {
			if i > 0 && p.Pct(12) {
				pl.Specs = append(pl.Specs, pl.Specs[p.Pick(len(pl.Specs))])
				continue
			}
			pl.Specs = append(pl.Specs, genSpec(p, pl))
		}
		// operations
		nops := p.Range(2, 8)
		gaps := []time.Duration{2 * time.Second, 5 * time.Second, epochDur, epochDur + time.Second, 2 * epochDur}
		wlat := []time.Duration{0, 0, 0, 10 * time.Millisecond, time.Second}
		vlat := []time.Duration{0, 0, 0, 50 * time.Millisecond, 2 * time.Second}
		at := time.Duration(0)
		for i := 0; i <= nops; i++ {
			o := op{At: at, Kind: "refresh"}
			if i > 0 && p.Pct(30) {
				o.Kind = "vrefresh"
			}
			allDown := i > 0 && p.Pct(22)
			calm := i == 0 && p.Pct(70)
			for range pl.Wallets {
				wo := walletOutcome{Lat: wlat[p.Pick(len(wlat))]}
				switch k := p.Pick(10); {
				case calm:
				case allDown:
					wo.Kind = []string{"empty", "error"}[k%2]
				case k == 0:
					wo.Kind = "empty"
				case k == 1:
					wo.Kind = "error"
				}
				o.Wallets = append(o.Wallets, wo)
			}
			o.Val.Lat = vlat[p.Pick(len(vlat))]
			switch k := p.Pick(20); {
			case calm:
			case k < 3:
				o.Val.Kind = "empty"
			case k < 5:
				o.Val.Kind = "error"
			case k < 7:
				o.Val.Kind, o.Val.Drop = "partial", p.Pick(8)
			}
			pl.Ops = append(pl.Ops, o)
			at += gaps[p.Pick(len(gaps))]
		}
		pl.End = at
		for i, n := 0, p.Range(0, 3); i < n; i++ {
			pl.Events = append(pl.Events, chainEvent{BeforeOp: p.Range(1, nops), Key: p.Pick(len(pl.Accts)),
				Kind: []string{"slash", "exit", "activate", "appear", "withdrawn"}[p.Pick(5)], Delay: p.Range(0, 2)})
		}
		for i, n := 0, p.Range(0, 3); i < n; i++ {
			a := p.Pick(len(pl.Accts))
			pl.Changes = append(pl.Changes, signerChange{BeforeOp: p.Range(1, nops), Acct: a, Present: !pl.Accts[a].Present || p.Pct(20)})
		}
		// clients
		kinds := []string{"validating", "validating", "validatingidx", "sync", "syncidx", "bypubkey"}
		nc := p.Range(2, 3)
		for c := 0; c < nc; c++ {
			var ls []lookup
			for i, n := 0, p.Range(3, 6); i < n; i++ {
				l := lookup{Kind: kinds[p.Pick(len(kinds))]}
				o := pl.Ops[p.Pick(len(pl.Ops))]
				var wl time.Duration // when the slowest wallet answers
				for _, w := range o.Wallets {
					wl = max(wl, w.Lat)
				}
				switch p.Pick(8) {
				case 0:
					l.At = o.At
				case 1:
					l.At = o.At + 1
				case 2:
					l.At = o.At + o.Val.Lat/2 + 5*time.Millisecond
				case 3:
					l.At = o.At + wl // the account list is replaced at this instant
				case 4:
					l.At = o.At + wl + o.Val.Lat // the validators are replaced at this instant
				case 5:
					l.At = o.At + wl + o.Val.Lat + time.Second + 1
				default:
					l.At = o.At + time.Duration(p.Range(1500, 3900))*time.Millisecond
				}
				if p.Pct(55) {
					l.Rel, l.Epoch = true, []int{-1, 0, 0, 1, 2}[p.Pick(5)]
				} else {
					r := pl.Registry[p.Pick(len(pl.Registry))]
					cands := []uint64{r.Act, r.Exit, r.Exit - 1, r.Wd, r.Wd - 1, r.Act - 1, uint64(pl.StartEpoch) + uint64(p.Pick(6))}
					e := cands[p.Pick(len(cands))]
					if e > 40 {
						e = uint64(pl.StartEpoch + p.Pick(6))
					}
					l.Epoch = int(e)
				}
				l.IdxMask = p.Pick(1 << 9)
				l.Key = p.Pick(len(pl.Accts) + 1) // == len: a key nobody has
				ls = append(ls, l)
			}
			pl.Clients = append(pl.Clients, ls)
		}
		return pl
	}
}

// keyFor: the validator key of an account is a function of its wallet and name
// (the wallets on disk are created once per process).
func keyFor(wallet string, nameIdx int) int {
	for wi, w := range walletPool {
		if w == wallet {
			return wi*10 + nameIdx
		}
	}
	panic("unknown wallet")
}

// nobodyKey is a validator key no account has.
const nobodyKey = 999

func (a acct) full() string { return a.Wallet + "/" + a.Name }

func (pl *plan) String() string { return fmt.Sprintf("%+v", *pl) }
