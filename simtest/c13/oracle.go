package c13

import (
	"fmt"
	"regexp"
	"sort"
	"strings"

	"verif/sim"
	"verif/simrt"
	. "verif/simtest/env"
)

// The reference model.  It is stated over the observable history only:
//
//   - what each wallet OFFERED at each refresh (offerRec),
//   - what the beacon node ANSWERED to each validators request (valCall),
//   - what the lookups RETURNED (lookupRec),
//
// and follows the property statement and docs/accountmanager.md:
//
//	known(x)      <=> x was offered at the last account refresh that offered anything, and
//	                  "wallet/account" fully matches a configured specifier (a bare wallet
//	                  name matches every account of that wallet);
//	validating(x,e) <=> known(x) and the last non-empty validators answer has a record for
//	                  x's validator key with activation <= e < exit and not slashed;
//	sync(x,e)     <=> known(x) and record with activation <= e and withdrawal not done
//	                  (withdrawable epoch not reached, or reached with funds left);
//	the result is keyed by the index the beacon node gave for x's validator key;
//	a refresh that offers/answers nothing (empty or error) changes nothing.
//
// AtomicityClauses: also judge outcomes that no sequential order of overlapping operations produces (set by the
// C17 wrapper; reported with the "C17/non-sequential/" prefix).
var AtomicityClauses = false

// Where the statement is silent the model is three-valued ("maybe": not compared):
// trailing-slash specifiers, specifiers with an anchored wallet part, accounts of a
// wallet that answered nothing while another wallet answered, records left out of a
// partial validators answer, local wallets that disappear (the retain rule names the
// remote signer only).  A lookup that overlaps a refresh may see the state before or
// after it; this is evaluated per account (each account must be consistent with SOME
// admissible state), so torn reads of unrelated accounts are not reported.

type tri int8

const (
	no tri = iota
	maybe
	yes
)

// specMatch: does "wallet/name" fully match the specifier?
func specMatch(spec, wallet, name string) tri {
	i := strings.Index(spec, "/")
	wpart, apart, bare := spec, "", true
	if i >= 0 {
		wpart, apart, bare = spec[:i], spec[i+1:], false
	}
	res := yes
	if strings.HasPrefix(wpart, "^") || strings.HasSuffix(wpart, "$") {
		// not a documented form
		wpart = strings.TrimSuffix(strings.TrimPrefix(wpart, "^"), "$")
		res = maybe
	}
	if wpart != wallet {
		return no
	}
	if bare {
		return res
	}
	if apart == "" {
		return maybe // "wallet/": every account, or the account with the empty name?
	}
	re, err := regexp.Compile("^(?:" + apart + ")$")
	if err != nil {
		return no
	}
	if re.MatchString(name) {
		return res
	}
	return no
}

func matchSpecs(specs []string, wallet, name string) tri {
	best := no
	for _, s := range specs {
		if m := specMatch(s, wallet, name); m > best {
			best = m
		}
	}
	return best
}

type aState struct {
	start, end int
	known      []tri
	retained   []bool // known because a refresh that offered nothing left it alone
	silent     []bool // "maybe" because its wallet offered nothing while another wallet did
	emptied    []bool // "maybe" because the local wallets offered nothing (no retain rule stated for them)
}

type vEntry struct {
	rec  vrec
	sure bool
}

type vState struct {
	start, end int
	recs       map[int]vEntry
	retained   bool // carried over an empty / failed answer
}

const inf = int(^uint(0) >> 1)

func validatingAt(r vrec, e uint64) tri {
	if r.Act <= e && e < r.Exit && !r.Slashed {
		return yes
	}
	return no
}

func syncAt(r vrec, e uint64) tri {
	if r.Act > e {
		return no
	}
	if e < r.Wd {
		return yes
	}
	if r.EffBal == 0 {
		return no
	}
	return yes
}

// retainIsMust: the retain-on-nothing rule for account refreshes is stated
// for the remote signer only.
func judge(h *history, out *sim.Outcome) *simrt.Violation {
	pl := h.pl
	retainIsMust := pl.Scenario == "dirk"
	n := len(pl.Accts)
	match := make([]tri, n)
	for x, a := range pl.Accts {
		match[x] = matchSpecs(pl.Specs, a.Wallet, a.Name)
	}
	altWallet := map[string]bool{}
	for _, s := range pl.Specs {
		if i := strings.Index(s, "/"); i >= 0 && strings.Contains(s[i:], "|") {
			// classification only: the dirk manager keeps its expressions per wallet, the wallet manager in one list
			altWallet[s[:i]] = true
			if pl.Scenario == "wallet" {
				for _, w := range pl.Wallets {
					altWallet[w] = true
				}
			}
		}
		if _, err := regexp.Compile(s); err != nil {
			out.Probes["spec-invalid-regex"]++
		}
	}
	// wallets a documented-form specifier names
	named := map[string]bool{}
	for _, s := range pl.Specs {
		w := s
		if i := strings.Index(s, "/"); i >= 0 {
			w = s[:i]
		}
		named[w] = true
	}

	opByIdx := map[int]*opRec{}
	for _, o := range h.ops {
		opByIdx[o.Idx] = o
	}
	endOf := func(op int) int {
		if o := opByIdx[op]; o != nil && o.Done {
			return o.RetStep
		}
		return inf
	}

	// ---- account states ----
	A := []*aState{{start: -1, end: -1, known: make([]tri, n), retained: make([]bool, n), silent: make([]bool, n), emptied: make([]bool, n)}}
	aOfOp := map[int]*aState{}
	for _, o := range h.ops {
		if o.Kind == "vrefresh" {
			continue
		}
		offers := map[string]*offerRec{}
		total := 0
		for _, f := range h.offers {
			if f.Op != o.Idx {
				continue
			}
			if offers[f.Wallet] != nil {
				return Viol("C13/wallet-queried-twice", "op %d asked wallet %q for its accounts twice", o.Idx, f.Wallet)
			}
			offers[f.Wallet] = f
			total += len(f.Accts)
		}
		if o.Done && pl.Scenario == "dirk" {
			for _, w := range pl.Wallets {
				if named[w] && offers[w] == nil {
					return Viol("C13/wallet-not-queried", "op %d did not ask wallet %q (named by a specifier) for its accounts", o.Idx, w)
				}
			}
		}
		prev := A[len(A)-1]
		st := &aState{start: o.CallStep, end: endOf(o.Idx), known: make([]tri, n), retained: make([]bool, n), silent: make([]bool, n), emptied: make([]bool, n)}
		if total == 0 {
			if len(offers) > 0 {
				out.Probes["account-refresh-offered-nothing"]++
			}
			for x := range pl.Accts {
				switch {
				case retainIsMust:
					st.known[x] = prev.known[x]
					st.retained[x] = prev.known[x] != no
					if prev.known[x] == yes {
						out.Probes["retain-on-empty-accounts"]++
					}
				case prev.known[x] != no:
					st.known[x] = maybe
					st.emptied[x] = prev.known[x] == yes
				}
			}
		} else {
			anyYes := false
			for x, a := range pl.Accts {
				f := offers[a.Wallet]
				switch {
				case f != nil && len(f.Accts) > 0:
					for _, y := range f.Accts {
						if y == x {
							st.known[x] = match[x]
						}
					}
				case prev.known[x] != no:
					st.known[x] = maybe
					st.silent[x] = prev.known[x] == yes
					out.Probes["obs:wallet-silent-while-others-answer"]++
				}
				if st.known[x] == yes {
					anyYes = true
				}
			}
			if !anyYes {
				// nothing (certainly) usable was offered: whether the old list stays is not stated
				for x := range pl.Accts {
					if prev.known[x] != no && st.known[x] == no {
						st.known[x] = maybe
					}
				}
			}
		}
		A = append(A, st)
		aOfOp[o.Idx] = st
	}

	// ---- validator states ----
	V := []*vState{{start: -1, end: -1, recs: map[int]vEntry{}}}
	callsOfOp := map[int]int{}
	for _, c := range h.vals {
		callsOfOp[c.Op]++
		prev := V[len(V)-1]
		st := &vState{start: c.Step, end: endOf(c.Op), recs: map[int]vEntry{}}
		if (c.Outcome == "" || c.Outcome == "partial") && len(c.Returned) > 0 {
			for k, r := range c.Returned {
				st.recs[k] = vEntry{rec: r, sure: true}
			}
			for k, e := range prev.recs {
				if _, ok := st.recs[k]; !ok {
					st.recs[k] = vEntry{rec: e.rec, sure: false}
				}
			}
		} else {
			for k, e := range prev.recs {
				st.recs[k] = e
			}
			st.retained = len(prev.recs) > 0
			if st.retained {
				out.Probes["retain-on-empty-validators"]++
			}
		}
		V = append(V, st)
	}
	// ---- lookups ----
	adm := func(starts, ends []int, c, r int) (lo, hi int) {
		for k := range starts {
			if ends[k] < c {
				lo = k
			}
			if starts[k] <= r {
				hi = k
			}
		}
		if hi < lo {
			hi = lo
		}
		return
	}
	as, ae := make([]int, len(A)), make([]int, len(A))
	for i, s := range A {
		as[i], ae[i] = s.start, s.end
	}
	vs, ve := make([]int, len(V)), make([]int, len(V))
	for i, s := range V {
		vs[i], ve[i] = s.start, s.end
	}

	for _, l := range h.lookups {
		if !l.Done {
			continue
		}
		if l.Err != nil && l.L.Kind != "bypubkey" {
			return Viol("C13/lookup-error", "%s(epoch %d) returned error %v", l.L.Kind, l.Epoch, l.Err)
		}
		alo, ahi := adm(as, ae, l.CallStep, l.RetStep)
		vlo, vhi := adm(vs, ve, l.CallStep, l.RetStep)
		quiet := alo == ahi && vlo == vhi
		if quiet {
			out.Probes["lookup-quiescent"]++
		} else {
			out.Probes["lookup-overlapping-refresh"]++
		}
		where := fmt.Sprintf("client %d lookup %d %s(epoch %d) at %v steps [%d,%d] (account states %d..%d, validator states %d..%d)", l.Client, l.I, l.L.Kind, l.Epoch, l.CallT, l.CallStep, l.RetStep, alo, ahi, vlo, vhi)

		knownRange := func(x int) (allYes, allNo, retained bool) {
			allYes, allNo = true, true
			for a := alo; a <= ahi; a++ {
				if A[a].known[x] != yes {
					allYes = false
				}
				if A[a].known[x] != no {
					allNo = false
				}
				if A[a].retained[x] {
					retained = true
				}
			}
			return
		}
		unconfiguredKind := func(x int) string {
			if match[x] != no {
				return "C13/unoffered-account-used"
			}
			if altWallet[pl.Accts[x].Wallet] {
				return "C13/unconfigured-account-used-alternation"
			}
			return "C13/unconfigured-account-used"
		}
		describe := func(x int) string {
			a := pl.Accts[x]
			s := fmt.Sprintf("%q key %d match=%d known:", a.full(), a.Key, match[x])
			for i := alo; i <= ahi; i++ {
				s += fmt.Sprintf(" %d", A[i].known[x])
			}
			s += " records:"
			for i := vlo; i <= vhi; i++ {
				if e, ok := V[i].recs[x]; ok {
					s += fmt.Sprintf(" {idx %d act %d exit %d wd %d slashed %v effbal %d sure %v}", e.rec.Index, e.rec.Act, e.rec.Exit, e.rec.Wd, e.rec.Slashed, e.rec.EffBal, e.sure)
				} else {
					s += " none"
				}
			}
			return s
		}

		if l.L.Kind == "bypubkey" {
			if l.L.Key >= n {
				if l.Found {
					return Viol("C13/unknown-account-returned", "%s: AccountByPublicKey of a key nobody has returned %+v", where, l.Res)
				}
				continue
			}
			x := l.L.Key
			allYes, allNo, retained := knownRange(x)
			switch {
			case l.Found && (l.Res[0].Nil || l.Res[0].Key != x || l.Res[0].Name != pl.Accts[x].Name || l.Res[0].Wallet != pl.Accts[x].Wallet):
				return Viol("C13/wrong-account-returned", "%s: AccountByPublicKey(key %d) returned %+v", where, x, l.Res[0])
			case l.Found && allNo:
				return Viol(unconfiguredKind(x), "%s: AccountByPublicKey returned account %s", where, describe(x))
			case !l.Found && allYes && retained:
				return Viol("C13/empty-account-refresh-wiped-known", "%s: AccountByPublicKey does not find %s", where, describe(x))
			case !l.Found && allYes:
				return Viol("C13/known-account-not-found", "%s: AccountByPublicKey does not find %s", where, describe(x))
			}
			if allYes || allNo {
				out.Probes["bypubkey-decided"]++
			}
			continue
		}

		isSync := strings.HasPrefix(l.L.Kind, "sync")
		byIdx := strings.HasSuffix(l.L.Kind, "idx")
		wanted := map[uint64]bool{}
		for _, i := range l.Indices {
			wanted[i] = true
		}
		filter := validatingAt
		if isSync {
			filter = syncAt
		}
		seen := map[int]bool{}
		for _, en := range l.Res {
			if en.Nil {
				return Viol("C13/nil-account-returned", "%s: index %d maps to a nil account", where, en.Index)
			}
			if en.Key < 0 || en.Key >= n {
				return Viol("C13/unknown-account-returned", "%s: returned %+v", where, en)
			}
			if byIdx && !wanted[en.Index] {
				return Viol("C13/unrequested-index-returned", "%s: asked for %v, got index %d", where, l.Indices, en.Index)
			}
			x := en.Key
			if en.Name != pl.Accts[x].Name || en.Wallet != pl.Accts[x].Wallet {
				return Viol("C13/wrong-account-returned", "%s: key %d is %q but the returned account is %q/%q", where, x, pl.Accts[x].full(), en.Wallet, en.Name)
			}
			if seen[x] {
				return Viol("C13/wrong-validator-index", "%s: account %q returned under two indices: %+v", where, pl.Accts[x].full(), l.Res)
			}
			seen[x] = true
			// is there an admissible state that explains the entry?
			okState, okIndex, anyKnown, anyRec := false, false, false, false
			slashedActive := false
			for a := alo; a <= ahi; a++ {
				if A[a].known[x] == no {
					continue
				}
				anyKnown = true
				for v := vlo; v <= vhi; v++ {
					e, ok := V[v].recs[x]
					if !ok {
						continue
					}
					anyRec = true
					if filter(e.rec, l.Epoch) == no {
						if !isSync && e.rec.Slashed && e.rec.Act <= l.Epoch && l.Epoch < e.rec.Exit {
							slashedActive = true
						}
						continue
					}
					okState = true
					if e.rec.Index == en.Index {
						okIndex = true
					}
				}
			}
			switch {
			case !anyKnown:
				return Viol(unconfiguredKind(x), "%s: result contains %s under index %d", where, describe(x), en.Index)
			case !anyRec:
				return Viol("C13/validator-unknown-to-chain-returned", "%s: result contains %s under index %d", where, describe(x), en.Index)
			case !okState && isSync:
				return Viol("C13/ineligible-validator-in-sync-set", "%s: result contains %s", where, describe(x))
			case !okState && slashedActive:
				return Viol("C13/slashed-validator-validating", "%s: result contains %s", where, describe(x))
			case !okState:
				return Viol("C13/inactive-validator-validating", "%s: result contains %s", where, describe(x))
			case !okIndex:
				return Viol("C13/wrong-validator-index", "%s: %s returned under index %d", where, describe(x), en.Index)
			}
		}
		// who must be there?
		for x := range pl.Accts {
			if seen[x] {
				continue
			}
			must, retainedA, retainedV := true, false, false
			for a := alo; a <= ahi && must; a++ {
				if A[a].known[x] != yes {
					must = false
					break
				}
				retainedA = retainedA || A[a].retained[x]
				for v := vlo; v <= vhi; v++ {
					e, ok := V[v].recs[x]
					if !ok || !e.sure || filter(e.rec, l.Epoch) != yes || (byIdx && !wanted[e.rec.Index]) {
						must = false
						break
					}
					retainedV = retainedV || V[v].retained
				}
			}
			if !must {
				continue
			}
			wiped := len(l.Res) == 0 // a wipe leaves nothing at all
			switch {
			case retainedA && wiped:
				return Viol("C13/empty-account-refresh-wiped-known", "%s: result %v lacks %s", where, resString(l.Res), describe(x))
			case retainedV && wiped:
				return Viol("C13/empty-validator-refresh-wiped-known", "%s: result %v lacks %s", where, resString(l.Res), describe(x))
			case isSync:
				return Viol("C13/eligible-account-missing-from-sync-set", "%s: result %v lacks %s", where, resString(l.Res), describe(x))
			default:
				return Viol("C13/active-account-missing", "%s: result %v lacks %s", where, resString(l.Res), describe(x))
			}
		}
		// (C17, not part of C13's statement) the result as a whole is that of ONE state of accounts and validators
		// of the window, not a mixture of the account set before a refresh and the one after it
		if AtomicityClauses && (alo < ahi || vlo < vhi) {
			explained := false
			for a := alo; a <= ahi && !explained; a++ {
				for v := vlo; v <= vhi && !explained; v++ {
					match := true
					for x := range pl.Accts {
						exp := A[a].known[x]
						if exp == yes {
							e, ok := V[v].recs[x]
							switch {
							case !ok:
								exp = no
							case !e.sure:
								exp = maybe
							default:
								exp = filter(e.rec, l.Epoch)
								if exp == yes && byIdx && !wanted[e.rec.Index] {
									exp = no
								}
							}
						}
						if (exp == yes && !seen[x]) || (exp == no && seen[x]) {
							match = false
							break
						}
					}
					explained = match
				}
			}
			if !explained {
				return Viol("C17/non-sequential/lookup-mixes-states", "%s: result %v is the account set of none of the account states %d..%d combined with validator states %d..%d that held during the call (each entry alone is explained by some state)", where, resString(l.Res), alo, ahi, vlo, vhi)
			}
			out.Probes["lookup-across-refresh-explained-by-one-state"]++
		}
		out.Probes["lookup-checked"]++
		// probes: what did this lookup exercise?
		for x := range pl.Accts {
			if !quiet {
				break
			}
			k := A[alo].known[x]
			e, ok := V[vlo].recs[x]
			if k == no && ok && filter(e.rec, l.Epoch) == yes && h.everOffered(x) {
				out.Probes["unconfigured-active-account-excluded"]++
				out.Nontrivial = true
			}
			if k == maybe && ok && e.sure && filter(e.rec, l.Epoch) == yes && (!byIdx || wanted[e.rec.Index]) {
				kept := map[bool]string{true: "kept", false: "dropped"}[seen[x]]
				if A[alo].silent[x] {
					out.Probes["obs:accounts-of-silent-wallet-"+kept]++
				}
				if A[alo].emptied[x] {
					out.Probes["obs:local-wallets-gone-accounts-"+kept]++
				}
			}
			if k != yes || !ok {
				continue
			}
			r := e.rec
			switch {
			case l.Epoch == r.Act:
				out.Probes["epoch=activation"]++
			case l.Epoch+1 == r.Act:
				out.Probes["epoch=activation-1"]++
			case l.Epoch == r.Exit:
				out.Probes["epoch=exit"]++
			case l.Epoch+1 == r.Exit:
				out.Probes["epoch=exit-1"]++
			}
			if r.Slashed && r.Act <= l.Epoch && l.Epoch < r.Exit {
				out.Probes["slashed-before-exit"]++
			}
			if isSync && l.Epoch >= r.Exit && syncAt(r, l.Epoch) == yes {
				out.Probes["sync-keeps-exited"]++
			}
			if isSync && l.Epoch >= r.Wd {
				out.Probes["sync-withdrawable"]++
			}
			if seen[x] {
				out.Nontrivial = true
				out.Probes["known-account-in-result"]++
			}
		}
	}
	for _, c := range h.vals {
		// the refresh must ask about every account it knows
		if o := opByIdx[c.Op]; o != nil && o.Kind != "vrefresh" {
			if st := aOfOp[c.Op]; st != nil {
				for x, a := range pl.Accts {
					if st.known[x] == yes && !c.Requested[x] {
						return Viol("C13/validator-refresh-misses-known-account", "op %d: validators request lacks the key of known account %q (asked for %d keys of accounts, %d other keys)", c.Op, a.full(), len(c.Requested), c.ReqOther)
					}
				}
			}
		}
	}
	// ---- the refresh itself: the validators of every known account are asked for ----
	for _, o := range h.ops {
		if o.Kind == "vrefresh" || !o.Done || o.Err != nil {
			continue
		}
		if callsOfOp[o.Idx] > 1 {
			return Viol("C13/validators-requested-twice", "op %d asked the beacon node for validators %d times", o.Idx, callsOfOp[o.Idx])
		}
		if st := aOfOp[o.Idx]; st != nil && callsOfOp[o.Idx] == 0 {
			for x, a := range pl.Accts {
				if st.known[x] == yes {
					return Viol("C13/validators-not-refreshed", "op %d: refresh with known account %q did not ask the beacon node for validators", o.Idx, a.full())
				}
			}
		}
	}

	for x := range pl.Accts {
		if match[x] == maybe {
			out.Probes["obs:ambiguous-specifier-not-compared"]++
			break
		}
	}
	return nil
}

func (h *history) everOffered(x int) bool {
	for _, f := range h.offers {
		for _, y := range f.Accts {
			if y == x {
				return true
			}
		}
	}
	return false
}

func resString(res []resEntry) string {
	var b []string
	for _, e := range res {
		b = append(b, fmt.Sprintf("%d:%s/%s", e.Index, e.Wallet, e.Name))
	}
	sort.Strings(b)
	return "[" + strings.Join(b, " ") + "]"
}
