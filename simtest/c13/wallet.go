package c13

import (
	"context"
	"encoding/json"
	"fmt"
	"hash/fnv"
	"io"
	"os"
	"path/filepath"
	"strings"
	"sync"
	"testing"

	"github.com/attestantio/vouch/services/accountmanager/wallet"
	"github.com/attestantio/vouch/services/chaintime"
	nullmetrics "github.com/attestantio/vouch/services/metrics/null"
	"github.com/attestantio/vouch/services/validatorsmanager"
	"github.com/google/uuid"
	"github.com/rs/zerolog"
	keystorev4 "github.com/wealdtech/go-eth2-wallet-encryptor-keystorev4"
	nd "github.com/wealdtech/go-eth2-wallet-nd/v2"
	filesystem "github.com/wealdtech/go-eth2-wallet-store-filesystem"
	e2wtypes "github.com/wealdtech/go-eth2-wallet-types/v2"

	"verif/sim"
	"verif/simrt"
	. "verif/simtest/env"
)

// Scenario "wallet": the real wallet account manager over real nd wallets in
// the real filesystem store.  The wallets (every wallet of walletPool with
// every account of namePool, real BLS keys, keystore v4 with the cheapest key
// derivation) are created once into a template directory; every run copies the
// files it needs into its own directory under /tmp and removes it at the end.
// Between refreshes the harness adds / removes account files (an account
// appears or disappears), empties a wallet, or hides the wallet directory (the
// wallet cannot be opened).

const passphrase = "pass"

// templateDir depends on what the template holds.
var templateDir = func() string {
	h := fnv.New32a()
	for _, s := range append(append([]string{}, walletPool...), namePool...) {
		h.Write([]byte(s + "\x00"))
	}
	return fmt.Sprintf("/tmp/c13-wallet-template-%08x", h.Sum32())
}()

type template struct {
	Wallets map[string]string            `json:"wallets"`  // wallet name -> directory (uuid)
	Accts   map[string]map[string]string `json:"accounts"` // wallet name -> account name -> file (uuid)
}

var (
	tmplOnce sync.Once
	tmpl     *template
	tmplErr  error
)

// detRand makes the UUIDs of the template reproducible (directory listings
// are sorted by name, so they decide the order in which accounts are met).
type detRand struct{ n uint64 }

func (r *detRand) Read(p []byte) (int, error) {
	for i := range p {
		r.n = r.n*6364136223846793005 + 1442695040888963407
		p[i] = byte(r.n >> 56)
	}
	return len(p), nil
}

func loadTemplate() (*template, error) {
	b, err := os.ReadFile(filepath.Join(templateDir, "map.json"))
	if err != nil {
		return nil, err
	}
	t := &template{}
	return t, json.Unmarshal(b, t)
}

func makeTemplate() {
	InitBLS()
	if t, err := loadTemplate(); err == nil {
		tmpl = t
		return
	}
	dir, err := os.MkdirTemp("/tmp", "c13-wallet-build-")
	if err != nil {
		tmplErr = err
		return
	}
	defer os.RemoveAll(dir)
	uuid.SetRand(&detRand{n: 13})
	defer uuid.SetRand(nil)
	ctx := context.Background()
	store := filesystem.New(filesystem.WithLocation(dir))
	enc := keystorev4.New(keystorev4.WithCipher("pbkdf2"), keystorev4.WithCost(&testing.T{}, 1))
	t := &template{Wallets: map[string]string{}, Accts: map[string]map[string]string{}}
	for _, wn := range walletPool {
		w, err := nd.CreateWallet(ctx, wn, store, enc)
		if err != nil {
			tmplErr = err
			return
		}
		if err := w.(e2wtypes.WalletLocker).Unlock(ctx, nil); err != nil {
			tmplErr = err
			return
		}
		t.Wallets[wn] = w.ID().String()
		t.Accts[wn] = map[string]string{}
		for ni, an := range namePool {
			a, err := w.(e2wtypes.WalletAccountImporter).ImportAccount(ctx, an, PrivKey(keyFor(wn, ni)).Marshal(), []byte(passphrase))
			if err != nil {
				tmplErr = err
				return
			}
			t.Accts[wn][an] = a.ID().String()
		}
	}
	b, _ := json.Marshal(t)
	if err := os.WriteFile(filepath.Join(dir, "map.json"), b, 0o600); err != nil {
		tmplErr = err
		return
	}
	// publish atomically; if somebody else was faster use theirs (same content)
	if err := os.Rename(dir, templateDir); err != nil {
		if t2, err2 := loadTemplate(); err2 == nil {
			tmpl = t2
			return
		}
		tmplErr = err
		return
	}
	tmpl = t
}

func copyFile(src, dst string) error {
	in, err := os.Open(src)
	if err != nil {
		return err
	}
	defer in.Close()
	out, err := os.OpenFile(dst, os.O_CREATE|os.O_WRONLY|os.O_TRUNC, 0o600)
	if err != nil {
		return err
	}
	if _, err := io.Copy(out, in); err != nil {
		out.Close()
		return err
	}
	return out.Close()
}

type walletImpl struct {
	dir string
	// what is on disk right now
	onDisk map[string]map[string]bool // wallet -> account name -> file present
	hidden map[string]bool
}

func (wi *walletImpl) setup(h *history) error {
	tmplOnce.Do(makeTemplate)
	if tmplErr != nil {
		return tmplErr
	}
	dir, err := os.MkdirTemp("/tmp", "c13-run-")
	if err != nil {
		return err
	}
	wi.dir = dir
	wi.onDisk = map[string]map[string]bool{}
	wi.hidden = map[string]bool{}
	for _, wn := range h.pl.Wallets {
		id := tmpl.Wallets[wn]
		if err := os.Mkdir(filepath.Join(dir, id), 0o700); err != nil {
			return err
		}
		for _, f := range []string{id, "index"} {
			if err := copyFile(filepath.Join(templateDir, id, f), filepath.Join(dir, id, f)); err != nil {
				return err
			}
		}
		wi.onDisk[wn] = map[string]bool{}
	}
	return nil
}

func (wi *walletImpl) cleanup() {
	if wi.dir != "" {
		os.RemoveAll(wi.dir)
		wi.dir = ""
	}
}

// beforeOp brings the directory in line with what the plan says the wallets
// hold at operation i, and records it as what the wallets offer.
func (wi *walletImpl) beforeOp(h *history, i int) {
	pl := h.pl
	o := pl.Ops[i]
	if o.Kind == "vrefresh" {
		return
	}
	named := map[string]bool{}
	for _, s := range pl.Specs {
		w := s
		if j := strings.Index(s, "/"); j >= 0 {
			w = s[:j]
		}
		named[w] = true
	}
	for wx, wn := range pl.Wallets {
		id := tmpl.Wallets[wn]
		out := o.Wallets[wx]
		wdir, gone := filepath.Join(wi.dir, id), filepath.Join(wi.dir, id+".hidden")
		wantHidden := out.Kind == "error"
		if wantHidden != wi.hidden[wn] {
			var err error
			if wantHidden {
				err = os.Rename(wdir, gone)
			} else {
				err = os.Rename(gone, wdir)
			}
			if err != nil {
				panic(err)
			}
			wi.hidden[wn] = wantHidden
		}
		rec := &offerRec{Op: i, Wallet: wn, Step: simrt.Step(), Outcome: out.Kind}
		cur := wdir
		if wantHidden {
			cur = gone
		}
		for x, a := range pl.Accts {
			if a.Wallet != wn {
				continue
			}
			want := h.present[x] && out.Kind != "empty"
			file := filepath.Join(cur, tmpl.Accts[wn][a.Name])
			if want != wi.onDisk[wn][a.Name] {
				var err error
				if want {
					err = copyFile(filepath.Join(templateDir, id, tmpl.Accts[wn][a.Name]), file)
				} else {
					err = os.Remove(file)
				}
				if err != nil {
					panic(err)
				}
				wi.onDisk[wn][a.Name] = want
			}
			if want && !wantHidden {
				rec.Accts = append(rec.Accts, x)
			}
		}
		if named[wn] {
			simrt.Crit(func() { h.offers = append(h.offers, rec) })
		}
		switch out.Kind {
		case "error":
			simrt.Probe("fault:wallet-missing")
		case "empty":
			simrt.Probe("fault:wallet-emptied")
		}
	}
}

func (wi *walletImpl) build(ctx context.Context, h *history, vm validatorsmanager.Service, ct chaintime.Service, prov *ChainProviders) (manager, error) {
	s, err := wallet.New(ctx,
		wallet.WithLogLevel(zerolog.Disabled),
		wallet.WithMonitor(nullmetrics.New()),
		wallet.WithProcessConcurrency(int64(h.pl.Concurrency)),
		wallet.WithLocations([]string{wi.dir}),
		wallet.WithAccountPaths(h.pl.Specs),
		wallet.WithPassphrases([][]byte{[]byte("wrong"), []byte(passphrase)}),
		wallet.WithValidatorsManager(vm),
		wallet.WithSpecProvider(prov),
		wallet.WithFarFutureEpochProvider(prov),
		wallet.WithDomainProvider(prov),
		wallet.WithCurrentEpochProvider(ct),
	)
	if err != nil {
		return nil, fmt.Errorf("wallet.New: %w", err)
	}
	return s, nil
}

func init() {
	gen := genPlan("wallet")
	sim.Register(&sim.Scenario{Property: "C13", Name: "wallet",
		Gen: func(p *simrt.Tape) any {
			tmplOnce.Do(makeTemplate) // outside the bubble
			return gen(p)
		},
		Exec: func(plan any, sched *simrt.Tape) *sim.Outcome { return execPlan(&walletImpl{})(plan, sched) }, Weight: 1})
}
