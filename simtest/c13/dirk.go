package c13

import (
	"context"

	"github.com/attestantio/vouch/services/accountmanager/dirk"
	"github.com/attestantio/vouch/services/chaintime"
	nullmetrics "github.com/attestantio/vouch/services/metrics/null"
	"github.com/attestantio/vouch/services/validatorsmanager"
	"github.com/google/uuid"
	"github.com/rs/zerolog"
	e2wtypes "github.com/wealdtech/go-eth2-wallet-types/v2"

	"verif/sim"
	"verif/simrt"
	. "verif/simtest/env"
)

// simWallet is a wallet as go-eth2-wallet-dirk presents it: a name, and an
// account listing that is whatever the (simulated) Dirk server answers for
// the wallet -- every account the server holds in it, configured in vouch or
// not; an unreachable server or an error yields an empty listing (the library
// logs the error and closes the channel).
type simWallet struct {
	h    *history
	w    int // index in plan.Wallets
	name string
	log  *SignerLog
}

func (w *simWallet) ID() uuid.UUID { return uuid.UUID{0xd1, byte(w.w + 1)} }
func (w *simWallet) Type() string  { return "dirk" }
func (w *simWallet) Name() string  { return w.name }
func (w *simWallet) Version() uint { return 1 }

func (w *simWallet) Accounts(ctx context.Context) <-chan e2wtypes.Account {
	h := w.h
	var out walletOutcome
	var rec *offerRec
	simrt.Crit(func() {
		out = h.pl.Ops[h.curOp].Wallets[w.w]
		rec = &offerRec{Op: h.curOp, Wallet: w.name, Step: simrt.Step(), Outcome: out.Kind}
		h.offers = append(h.offers, rec)
	})
	ch := make(chan e2wtypes.Account, 16)
	if err := simrt.Sleep(ctx, out.Lat, "dirk/ListAccounts"); err != nil {
		simrt.Crit(func() { rec.Outcome = "error" })
		close(ch)
		return ch
	}
	switch out.Kind {
	case "error":
		simrt.Probe("fault:listaccounts-error")
	case "empty":
		simrt.Probe("fault:listaccounts-empty")
	default:
		if out.Lat > 0 {
			simrt.Probe("fault:listaccounts-latency")
		}
		simrt.Crit(func() {
			for i, a := range h.pl.Accts {
				if a.Wallet != w.name || !h.present[i] {
					continue
				}
				kind := KindMulti
				if a.Dist {
					kind = KindDistributed
				}
				acc := NewAccount(w.log, kind, a.Key, a.Name)
				StubOf(acc).SetWallet(w)
				rec.Accts = append(rec.Accts, i)
				ch <- acc
			}
		})
	}
	close(ch)
	return ch
}

type dirkImpl struct{}

func (dirkImpl) setup(*history) error   { return nil }
func (dirkImpl) beforeOp(*history, int) {}
func (dirkImpl) cleanup()               {}

func (dirkImpl) build(ctx context.Context, h *history, vm validatorsmanager.Service, ct chaintime.Service, prov *ChainProviders) (manager, error) {
	log := &SignerLog{}
	wallets := map[string]e2wtypes.Wallet{}
	for i, name := range h.pl.Wallets {
		wallets[name] = &simWallet{h: h, w: i, name: name, log: log}
	}
	return dirk.VerifNew(ctx, wallets,
		dirk.WithLogLevel(zerolog.Disabled),
		dirk.WithMonitor(nullmetrics.New()),
		dirk.WithClientMonitor(nullmetrics.New()),
		dirk.WithProcessConcurrency(int64(h.pl.Concurrency)),
		dirk.WithAccountPaths(h.pl.Specs),
		dirk.WithValidatorsManager(vm),
		dirk.WithDomainProvider(prov),
		dirk.WithFarFutureEpochProvider(prov),
		dirk.WithCurrentEpochProvider(ct),
	)
}

func init() {
	sim.Register(&sim.Scenario{Property: "C13", Name: "dirk", Gen: genPlan("dirk"), Exec: execPlan(dirkImpl{}), Weight: 1})
}
