// Package c15: sync committee members message every slot of their period, independently.
//
// Real code: synccommittee{messenger,aggregator,subscriber}/standard, controller
// sync scheduling, signer (real BLS), scheduler, submitter.
package c15

import (
	"context"
	"crypto/sha256"
	"encoding/binary"
	"fmt"
	"os"
	"sort"
	"time"

	"github.com/attestantio/go-eth2-client/spec/altair"
	"github.com/attestantio/go-eth2-client/spec/phase0"

	"verif/sim"
	"verif/simrt"
	. "verif/simtest/env"
	"verif/simtest/syssim"
)

func gen(p *simrt.Tape) any {
	pl := &syssim.Plan{
		Seed:              uint64(p.Intn(1 << 16)),
		SecondsPerSlot:    []uint64{12, 6}[p.Pick(2)],
		SlotsPerEpoch:     4,
		EpochsPerPeriod:   8,
		TotalValidators:   p.Range(6, 12),
		Committees:        2,
		TargetAggregators: 16,
		Nodes:             1,
		FastTrackSync:     p.Bool(),
		FastTrackGrace:    500 * time.Millisecond,
		AccountKind:       int([]AccountKind{KindMulti, KindMulti, KindPlain, KindDistributed}[p.Pick(4)]),
		Multinode:         p.Pct(25),
		SyncCommitteeSize: []uint64{8, 16}[p.Pick(2)],
	}
	slot := time.Duration(pl.SecondsPerSlot) * time.Second
	pl.MaxAttestationDelay = slot / 3
	pl.AggregationDelay = slot * 2 / 3
	pl.MaxSyncMessageDelay = slot / 3
	pl.SyncAggregationDelay = slot * 2 / 3
	nOurs := p.Range(2, 5)
	perm := make([]int, pl.TotalValidators)
	for i := range perm {
		perm[i] = i
	}
	for i := len(perm) - 1; i > 0; i-- {
		j := p.Intn(i + 1)
		perm[i], perm[j] = perm[j], perm[i]
	}
	pl.Ours = append([]int{}, perm[:nOurs]...)
	sort.Ints(pl.Ours)
	epoch := slot * time.Duration(pl.SlotsPerEpoch)
	period := epoch * time.Duration(pl.EpochsPerPeriod)
	// start: first period of the chain (before/at genesis, early), or shortly before / at / after a period boundary
	prepStart := false
	tickerStart := false
	switch p.Pick(8) {
	case 7:
		// in the epoch before the one in which the epoch ticker sets up the next period (5 epochs ahead of it)
		pl.StartOffset = period - 6*epoch + time.Duration(p.Intn(int(epoch/time.Millisecond)))*time.Millisecond
		tickerStart = true
	case 6:
		// inside the one epoch that is exactly the preparation lead (5 epochs) before the
		// boundary: only the start-up path can schedule the next period; run across the boundary
		pl.StartOffset = period - 5*epoch + time.Duration(p.Intn(int(epoch/time.Millisecond)))*time.Millisecond
		prepStart = true
	case 0:
		pl.StartOffset = -slot
	case 1:
		pl.StartOffset = 0
	case 2:
		pl.StartOffset = time.Duration(p.Intn(int(epoch/time.Millisecond))) * time.Millisecond
	case 3:
		pl.StartOffset = period - epoch - time.Duration(p.Intn(int(epoch/time.Millisecond)))*time.Millisecond
	case 4:
		pl.StartOffset = period - 2*slot
	default:
		pl.StartOffset = period + time.Duration(p.Intn(int(epoch/time.Millisecond)))*time.Millisecond
	}
	startSlot := uint64(0)
	if pl.StartOffset > 0 {
		startSlot = uint64(pl.StartOffset / slot)
	}
	pl.HorizonSlots = startSlot + pl.SlotsPerEpoch + uint64(p.Range(2, 6))
	if prepStart {
		pl.HorizonSlots = pl.EpochsPerPeriod*pl.SlotsPerEpoch + uint64(p.Range(1, 3))
	}
	for i := 0; i < 4; i++ {
		pl.HeadLatencyMs = append(pl.HeadLatencyMs, []int{400, 1000, 3000}[p.Pick(3)])
	}
	if p.Pct(20) {
		pl.Missed = append(pl.Missed, startSlot+1+uint64(p.Intn(4)))
	}
	// reorgs: a changed current duty dependent root in the first epoch of a period makes vouch refresh the
	// next period's sync duties; the current period's jobs must survive that
	if p.Pct(35) {
		for i, n := 0, p.Range(1, 2); i < n; i++ {
			pl.Reorgs = append(pl.Reorgs, syssim.Reorg{Slot: startSlot + 1 + uint64(p.Intn(int(pl.HorizonSlots-startSlot))), Kind: []int{0, 0, 2, 1}[p.Pick(4)]})
		}
	}
	switch p.Pick(4) {
	case 0:
		pl.HideSync, pl.HideSyncAccount = true, pl.Ours[p.Pick(len(pl.Ours))]
	case 1:
		// a batch signer (Dirk-like) can leave out one entry
		pl.SyncZero, pl.SyncZeroSig = true, pl.Ours[p.Pick(len(pl.Ours))]
		pl.AccountKind = int(KindMulti)
		// ... for good, or in one slot only (one request that fails)
		pl.SyncZeroOnce, pl.SyncZeroSlot = p.Bool(), startSlot+1+uint64(p.Intn(3))
	case 2:
		if p.Bool() {
			// ... or only the entry of the last signing step of an aggregating member
			pl.ContribZero, pl.ContribZeroSig = true, pl.Ours[p.Pick(len(pl.Ours))]
			pl.AccountKind = int(KindMulti)
			pl.SyncCommitteeSize = 8 // few subcommittee seats: several of ours aggregate in one slot
		}
	}
	// a validator that has exited (it no longer attests) but is still eligible for sync committee duty
	if p.Pct(25) || (tickerStart && p.Pct(60)) {
		pl.Exited = []int{pl.Ours[p.Pick(len(pl.Ours))]}
	}
	if p.Pct(25) {
		pl.Faults = map[string][]Outcome{"bn0/BeaconBlockRoot": {{}, {Kind: "error"}, {}, {}, {Kind: "error"}}}
	}
	return pl
}

// isSyncAggregator is the consensus specification's is_sync_committee_aggregator.
func isSyncAggregator(c *Chain, sig []byte) bool {
	modulo := c.SyncCommitteeSize / c.SyncCommitteeSubnetCount / c.TargetAggregatorsPerSyncSubcommittee
	if modulo < 1 {
		modulo = 1
	}
	h := sha256.Sum256(sig)
	return binary.LittleEndian.Uint64(h[:8])%modulo == 0
}

func exec(plan any, sched *simrt.Tape) *sim.Outcome {
	pl := plan.(*syssim.Plan)
	out := &sim.Outcome{Probes: map[string]int{}, Sample: pl}
	var rec *syssim.Record
	slot := time.Duration(pl.SecondsPerSlot) * time.Second
	horizon := 10*time.Minute + time.Duration(pl.HorizonSlots+2)*slot + time.Minute
	res := sim.Run(sched, horizon, 600000, nil, func(ctx context.Context) {
		rec = syssim.Run(ctx, pl, nil)
		simrt.Sleep(ctx, slot, "c15/drain")
	})
	out.Res = res
	if res.Violation != nil {
		out.Violation = res.Violation
		switch res.Violation.Kind {
		case "panic", "deadlock", "horizon":
			out.Violation.Kind = "C15/" + res.Violation.Kind
		}
		return out
	}
	if len(rec.BuildErrors) > 0 {
		out.Violation = Viol("harness-build", "services failed to start: %v", rec.BuildErrors)
		return out
	}
	out.Violation = oracle(rec, out)
	if out.Violation != nil && os.Getenv("VERIF_DEBUG") != "" {
		for _, f := range rec.H.Fetches {
			if f.Kind == "sync" {
				fmt.Fprintf(os.Stderr, "FETCH inc=%d %s epoch=%d t=%v..%v err=%v cur=%d sync=%v\n", f.Inc, f.Kind, f.Epoch, f.T, f.EndT, f.Err, f.CurSlotAtEnd, f.Sync)
			}
		}
		for _, s := range rec.H.Submissions {
			if s.Kind == "SyncCommitteeMessages" {
				for _, m := range s.Obj.([]*altair.SyncCommitteeMessage) {
					fmt.Fprintf(os.Stderr, "MSG inc=%d t=%v slot=%d val=%d\n", s.Inc, s.T, m.Slot, m.ValidatorIndex)
				}
			}
		}
		for _, i := range rec.Invocations {
			fmt.Fprintf(os.Stderr, "INV inc=%d %s slot=%d vals=%v t=%v step=%d..%d\n", i.Inc, i.Kind, i.Slot, i.Validators, i.T, i.Step, i.EndStep)
		}
	}
	return out
}

func oracle(rec *syssim.Record, out *sim.Outcome) *simrt.Violation {
	pl := rec.Plan
	c := rec.Model.Chain
	genesis := c.GenesisTime.Sub(SimEpoch)
	slotDur := time.Duration(pl.SecondsPerSlot) * time.Second
	slotStart := func(s uint64) time.Duration { return genesis + time.Duration(s)*slotDur }
	endOfRun := slotStart(pl.HorizonSlots)
	periodSlots := pl.EpochsPerPeriod * pl.SlotsPerEpoch

	type key struct {
		slot uint64
		v    int
	}
	msgs := map[key][]*altair.SyncCommitteeMessage{}
	msgSub := map[*altair.SyncCommitteeMessage]*syssim.Submission{}
	for _, s := range rec.H.Subs("SyncCommitteeMessages") {
		if s.Node != "bn0" {
			continue
		}
		for _, m := range s.Obj.([]*altair.SyncCommitteeMessage) {
			k := key{uint64(m.Slot), int(m.ValidatorIndex)}
			msgs[k] = append(msgs[k], m)
			msgSub[m] = s
		}
	}
	// every message: signed by that member over a head root the node actually returned in that slot
	for k, l := range msgs {
		for _, m := range l {
			s := msgSub[m]
			okRoot := false
			for _, a := range rec.H.Roots {
				if a.Root == m.BeaconBlockRoot && a.Step <= s.Step && a.T >= slotStart(k.slot) {
					okRoot = true
				}
			}
			if !okRoot {
				return Viol("C15/message-root-not-obtained-for-slot", "sync committee message slot %d validator %d carries root %#x, which no head-root request answered during that slot", k.slot, k.v, m.BeaconBlockRoot[:4])
			}
			if !rec.Model.IsOurs(k.v) {
				return Viol("C15/message-for-foreign-validator", "message for validator %d which vouch does not manage", k.v)
			}
			dom := c.DomainAt(DomainSyncCommittee, phase0.Epoch(k.slot/pl.SlotsPerEpoch))
			if !VerifySig(k.v, m.BeaconBlockRoot, dom, m.Signature) {
				return Viol("C15/message-signature-invalid", "sync committee message slot %d validator %d: signature does not verify under that validator's key over the slot's head root", k.slot, k.v)
			}
		}
	}
	for _, inc := range rec.Incs {
		// last started sync duties request per period
		last := map[uint64]*syssim.DutyFetch{}
		for _, f := range rec.H.Fetches {
			if f.Kind == "sync" && f.Inc == inc.N {
				last[f.Epoch/pl.EpochsPerPeriod] = f
			}
		}
		// a period whose window the incarnation lives through must have been prepared at all:
		// without this clause a period for which vouch never asked for duties would expect nothing
		for period := uint64(0); period*periodSlots <= pl.HorizonSlots+1; period++ {
			if _, fetched := last[period]; fetched {
				continue
			}
			first := period * periodSlots
			lo := uint64(0)
			if first > 0 {
				lo = first - 1
			}
			member := -1
			for _, v := range rec.Model.SortedOurs() {
				if _, in := rec.Model.SyncTable(period * pl.EpochsPerPeriod)[v]; in && !(pl.HideSync && pl.HideSyncAccount == v) {
					member = v
					break
				}
			}
			if member < 0 {
				continue
			}
			for s := lo; s+2 <= (period+1)*periodSlots; s++ {
				due := slotStart(s) + pl.MaxSyncMessageDelay
				if slotStart(s) < inc.Start+slotDur || due+2*time.Second > endOfRun || (inc.End >= 0 && inc.End < due+2*time.Second) {
					continue
				}
				return Viol("C15/period-never-prepared", "incarnation %d (alive from %v) never asked for the sync committee duties of period %d, of which validator %d is a member; slot %d of its window passed without a message", inc.N, inc.Start, period, member, s)
			}
		}
		// every request for a period's duties names every validator vouch manages that is a member of that period's
		// committee, whether or not it is still active (what is owed below is read off the answers: a validator
		// that was never asked about would be owed nothing)
		for _, f := range rec.H.Fetches {
			if f.Kind != "sync" || f.Inc != inc.N {
				continue
			}
			asked := map[int]bool{}
			for _, v := range f.Indices {
				asked[v] = true
			}
			for _, v := range rec.Model.SortedOurs() {
				if _, in := rec.Model.SyncTable(f.Epoch)[v]; in && !asked[v] {
					exited := ""
					for _, x := range pl.Exited {
						if x == v {
							exited = " (it has exited, but remains eligible for sync committee duty)"
						}
					}
					return Viol("C15/member-not-asked-for", "the sync committee duties request of %v for epoch %d names validators %v; validator %d, which vouch manages and which is a member of that period's committee, is not among them%s", f.T, f.Epoch, f.Indices, v, exited)
				}
			}
			if len(pl.Exited) > 0 {
				out.Probes["sync-duties-request-with-exited-validator-checked"]++
			}
		}
		var periods []uint64
		for p := range last {
			periods = append(periods, p)
		}
		sort.Slice(periods, func(i, j int) bool { return periods[i] < periods[j] })
		for _, period := range periods {
			f := last[period]
			if f.Err || f.EndStep == 0 || len(f.Sync) == 0 {
				continue
			}
			first := period * periodSlots
			lastSlot := (period+1)*periodSlots - 2
			from := f.CurSlotAtEnd + 1
			if first > 0 && first-1 > from {
				from = first - 1
			}
			var members []int
			for v := range f.Sync {
				members = append(members, v)
			}
			sort.Ints(members)
			for s := from; s <= lastSlot; s++ {
				due := slotStart(s) + pl.MaxSyncMessageDelay
				if due+2*time.Second > endOfRun || (inc.End >= 0 && inc.End < due+2*time.Second) || inc.Start > slotStart(s) {
					continue
				}
				// a head-root request that failed in this slot excuses the slot (nothing to sign over)
				rootFailed := false
				for _, cr := range rec.Script.CallsOf("bn0", "BeaconBlockRoot") {
					if cr.Outcome.Kind == "error" && cr.T >= slotStart(s) && cr.T < slotStart(s+1) {
						rootFailed = true
					}
				}
				if rootFailed {
					out.Probes["slot-excused-root-fetch-failed"]++
					continue
				}
				out.Nontrivial = true
				for _, v := range members {
					hidden := pl.HideSync && pl.HideSyncAccount == v
					zeroed := pl.SyncZero && pl.SyncZeroSig == v && (!pl.SyncZeroOnce || s == pl.SyncZeroSlot)
					got := msgs[key{s, v}]
					var mine []*altair.SyncCommitteeMessage
					for _, m := range got {
						if msgSub[m].Inc == inc.N {
							mine = append(mine, m)
						}
					}
					if hidden || zeroed {
						if len(mine) > 0 && zeroed {
							return Viol("C15/message-without-signature", "validator %d got no signature from the signer for slot %d, yet a message was submitted", v, s)
						}
						out.Probes["member-excused"]++
						continue
					}
					if len(mine) == 0 {
						why := ""
						if pl.HideSync {
							why = fmt.Sprintf(" (member %d has no account)", pl.HideSyncAccount)
						}
						if pl.SyncZero {
							why = fmt.Sprintf(" (member %d got no signature)", pl.SyncZeroSig)
						}
						kind := "C15/member-slot-without-message"
						if why != "" {
							kind = "C15/other-members-suppressed"
						}
						return Viol(kind, "sync committee member %d (period %d, duties obtained %v in incarnation %d) has no message for slot %d (window %d..%d)%s", v, period, f.EndT, inc.N, s, from, lastSlot, why)
					}
					if len(mine) > 1 {
						return Viol("C15/member-slot-message-twice", "sync committee member %d has %d messages for slot %d", v, len(mine), s)
					}
					if msgSub[mine[0]].T > due {
						return Viol("C15/message-late", "message of member %d for slot %d submitted at %v, after slot start + configured delay %v", v, s, msgSub[mine[0]].T, due)
					}
					out.Probes["member-slot-message-checked"]++
					if s+1 == first+periodSlots-1 || s == first-1 || (first == 0 && s == 0) {
						out.Probes["window-edge-checked"]++
					}
				}
				// contributions: every selected (member, subcommittee) has a signed contribution
				if v := checkContributions(rec, inc, f, s, out); v != nil {
					return v
				}
			}
			// nothing beyond the window
			for k := range msgs {
				if k.slot == lastSlot+1 && k.slot/periodSlots == period {
					if _, isMember := f.Sync[k.v]; isMember {
						// the last slot of a period belongs to the NEXT period's committee; a message there must stem from next period's duties
						if nf, ok := last[period+1]; !ok || nf.Sync[k.v] == nil {
							return Viol("C15/message-after-window", "member %d messaged in slot %d, the last slot of its period, without being in the next committee", k.v, k.slot)
						}
					}
				}
			}
		}
	}
	return nil
}

func checkContributions(rec *syssim.Record, inc *syssim.Incarnation, f *syssim.DutyFetch, s uint64, out *sim.Outcome) *simrt.Violation {
	pl := rec.Plan
	c := rec.Model.Chain
	genesis := c.GenesisTime.Sub(SimEpoch)
	slotDur := time.Duration(pl.SecondsPerSlot) * time.Second
	due := genesis + time.Duration(s)*slotDur + pl.SyncAggregationDelay
	if due+2*time.Second > genesis+time.Duration(pl.HorizonSlots)*slotDur || (inc.End >= 0 && inc.End < due+2*time.Second) {
		return nil
	}
	perSub := c.SyncCommitteeSize / c.SyncCommitteeSubnetCount
	selDomain := c.DomainAt(DomainSyncCommitteeSelectionProof, phase0.Epoch(s/pl.SlotsPerEpoch))
	var subs []*altair.SignedContributionAndProof
	for _, sub := range rec.H.Subs("SyncCommitteeContributions") {
		if sub.Inc == inc.N && sub.Node == "bn0" {
			for _, cp := range sub.Obj.([]*altair.SignedContributionAndProof) {
				if cp != nil && cp.Message != nil && cp.Message.Contribution != nil && uint64(cp.Message.Contribution.Slot) == s {
					subs = append(subs, cp)
				}
			}
		}
	}
	// a contribution request that failed in this slot excuses the slot's contributions
	for _, cr := range rec.Script.CallsOf("bn0", "SyncCommitteeContribution") {
		if cr.Outcome.Kind == "error" && cr.T >= genesis+time.Duration(s)*slotDur && cr.T < genesis+time.Duration(s+1)*slotDur {
			return nil
		}
	}
	// messages must have been produced for the slot (otherwise there is nothing to aggregate)
	msgOK := false
	for _, sub := range rec.H.Subs("SyncCommitteeMessages") {
		if sub.Inc == inc.N {
			for _, m := range sub.Obj.([]*altair.SyncCommitteeMessage) {
				if uint64(m.Slot) == s {
					msgOK = true
				}
			}
		}
	}
	if !msgOK {
		return nil
	}
	var members []int
	for v := range f.Sync {
		members = append(members, v)
	}
	sort.Ints(members)
	for _, v := range members {
		if pl.HideSync && pl.HideSyncAccount == v {
			continue
		}
		seen := map[uint64]bool{}
		for _, pos := range f.Sync[v] {
			sc := uint64(pos) / perSub
			if seen[sc] {
				continue
			}
			seen[sc] = true
			sel := &altair.SyncAggregatorSelectionData{Slot: phase0.Slot(s), SubcommitteeIndex: sc}
			root, err := sel.HashTreeRoot()
			if err != nil {
				continue
			}
			// find the selection proof the signer produced
			var proof []byte
			sd := phase0.SigningData{ObjectRoot: root, Domain: selDomain}
			sroot, _ := sd.HashTreeRoot()
			for _, r := range rec.Signer.Snapshot() {
				if r.KeyIndex != v || r.Outcome != "ok" {
					continue
				}
				if (r.Method == "Sign" && string(r.Data) == string(sroot[:])) || (r.Method != "Sign" && string(r.Data) == string(root[:]) && string(r.Domain) == string(selDomain[:])) {
					proof = r.Signature
				}
			}
			if proof == nil {
				// no selection proof was obtained.  Nothing is owed if the preparation for the slot ran before this
				// incarnation or failed; but a preparation of this incarnation that included the member and completed
				// has to have applied the selection rule to it, which takes a selection proof per subcommittee
				for _, inv := range rec.Invs("sync-prepare") {
					if inv.Inc != inc.N || inv.Slot != s || inv.EndStep == 0 {
						continue
					}
					for _, pv := range inv.Validators {
						if pv == v && len(pl.SignerFaults) == 0 && pl.SignerSlow == 0 {
							return Viol("C15/member-without-selection-proof", "the preparation for slot %d (at %v) included member %d, which sits in subcommittee %d, and completed, but the signer was never asked for that member's selection proof for that slot and subcommittee: the selection rule was not applied to it", s, inv.T, v, sc)
						}
					}
				}
				continue
			}
			want := isSyncAggregator(c, proof)
			var found *altair.SignedContributionAndProof
			for _, cp := range subs {
				if int(cp.Message.AggregatorIndex) == v && cp.Message.Contribution.SubcommitteeIndex == sc {
					found = cp
				}
			}
			if pl.ContribZero && pl.ContribZeroSig == v {
				out.Probes["member-excused-contribution-signature-withheld"]++
				continue // whatever vouch does with the entry it got no signature for is not this property's business
			}
			if found != nil && !want {
				return Viol("C15/contribution-by-unselected-member", "slot %d member %d subcommittee %d contributed although the specification's selection rule does not select it", s, v, sc)
			}
			if want && found == nil {
				if pl.SyncZero && pl.SyncZeroSig != v {
					return Viol("C15/other-members-suppressed", "slot %d member %d is the selected aggregator of subcommittee %d but no contribution was submitted (member %d got no message signature)", s, v, sc, pl.SyncZeroSig)
				}
				if pl.SyncZero && pl.SyncZeroSig == v && (!pl.SyncZeroOnce || s == pl.SyncZeroSlot) {
					continue
				}
				if pl.SyncZero && pl.SyncZeroSig == v {
					return Viol("C15/member-dropped-after-one-failed-signature", "slot %d member %d is the selected aggregator of subcommittee %d but no contribution was submitted; its message signature failed once, in slot %d, and has been given ever since", s, v, sc, pl.SyncZeroSlot)
				}
				if pl.ContribZero {
					return Viol("C15/other-members-suppressed", "slot %d member %d is the selected aggregator of subcommittee %d but no contribution was submitted (member %d got no contribution signature)", s, v, sc, pl.ContribZeroSig)
				}
				return Viol("C15/selected-contributor-without-contribution", "slot %d member %d is the selected aggregator of subcommittee %d (specification rule on its selection proof) but no contribution was submitted", s, v, sc)
			}
			if found != nil {
				if string(found.Message.SelectionProof[:]) != string(proof) {
					return Viol("C15/contribution-wrong-proof", "slot %d member %d subcommittee %d: selection proof in the contribution is not the one signed for that (slot, subcommittee)", s, v, sc)
				}
				croot, err := found.Message.HashTreeRoot()
				if err == nil {
					dom := c.DomainAt(DomainContributionAndProof, phase0.Epoch(s/pl.SlotsPerEpoch))
					if !VerifySig(v, croot, dom, found.Signature) {
						return Viol("C15/contribution-signature-invalid", "slot %d member %d subcommittee %d: contribution-and-proof signature does not verify", s, v, sc)
					}
				}
				out.Probes["contribution-checked"]++
			} else {
				out.Probes["member-not-selected"]++
			}
		}
	}
	return nil
}

func init() {
	sim.Register(&sim.Scenario{Property: "C15", Name: "system", Gen: gen, Exec: exec})
}
