// Package c14: future attester duties are all subscribed; every selected aggregator aggregates.
//
// Real code: beaconcommitteesubscriber/standard, attestationaggregator/standard,
// controller (subscribeToBeaconCommittees, AttestAndScheduleAggregate), attester,
// signer (real BLS: the selection rule hashes the slot signature), scheduler.
package c14

import (
	"context"
	"crypto/sha256"
	"encoding/binary"
	"fmt"
	"os"
	"sort"
	"time"

	apiv1 "github.com/attestantio/go-eth2-client/api/v1"
	"github.com/attestantio/go-eth2-client/spec/phase0"

	"verif/sim"
	"verif/simrt"
	. "verif/simtest/env"
	"verif/simtest/syssim"
)

func gen(p *simrt.Tape) any {
	pl := &syssim.Plan{
		Seed:                  uint64(p.Intn(1 << 16)),
		SecondsPerSlot:        12,
		SlotsPerEpoch:         4,
		EpochsPerPeriod:       8,
		TotalValidators:       p.Range(9, 24),
		Committees:            2,
		TargetAggregators:     []uint64{16, 1, 1, 2}[p.Pick(4)],
		Nodes:                 1,
		FastTrackAttestations: p.Bool(),
		FastTrackGrace:        500 * time.Millisecond,
		AccountKind:           int([]AccountKind{KindMulti, KindMulti, KindPlain, KindDistributed}[p.Pick(4)]),
		Multinode:             p.Pct(30),
	}
	slot := time.Duration(pl.SecondsPerSlot) * time.Second
	pl.MaxAttestationDelay = slot / 3
	pl.AggregationDelay = slot * 2 / 3
	pl.MaxSyncMessageDelay = slot / 3
	pl.SyncAggregationDelay = slot * 2 / 3
	nOurs := p.Range(1, 6)
	perm := make([]int, pl.TotalValidators)
	for i := range perm {
		perm[i] = i
	}
	for i := len(perm) - 1; i > 0; i-- {
		j := p.Intn(i + 1)
		perm[i], perm[j] = perm[j], perm[i]
	}
	pl.Ours = append([]int{}, perm[:nOurs]...)
	sort.Ints(pl.Ours)
	epoch := slot * time.Duration(pl.SlotsPerEpoch)
	// start mid-epoch (so that some duties of the epoch lie in the past), on a boundary, or early in an epoch
	switch p.Pick(4) {
	case 0:
		pl.StartOffset = epoch
	default:
		pl.StartOffset = epoch + time.Duration(p.Intn(int(epoch/time.Millisecond)))*time.Millisecond
	}
	// the first epoch of a chain: started before genesis, at genesis or within epoch 0
	switch p.Pick(8) {
	case 0:
		pl.StartOffset = []time.Duration{-slot, 0}[p.Pick(2)]
	case 1:
		pl.StartOffset = time.Duration(p.Intn(int(epoch/time.Millisecond))) * time.Millisecond
	}
	startSlot := uint64(0)
	if pl.StartOffset > 0 {
		startSlot = uint64(pl.StartOffset / slot)
	}
	pl.HorizonSlots = startSlot + pl.SlotsPerEpoch*2 + uint64(p.Intn(int(pl.SlotsPerEpoch)))
	for i := 0; i < 4; i++ {
		pl.HeadLatencyMs = append(pl.HeadLatencyMs, []int{400, 1000, 3000, 5000}[p.Pick(4)])
	}
	if p.Pct(50) {
		pl.Reorgs = append(pl.Reorgs, syssim.Reorg{Slot: startSlot + 1 + uint64(p.Intn(int(2*pl.SlotsPerEpoch))), Kind: p.Pick(3)})
	}
	// attesting takes time (the node answers the attestation data request late), and the subscriber's duties
	// request of the start-up is answered so late that the epoch's subscription completes while the first
	// attestation process after the start is under way
	if p.Pct(30) {
		attLat := []time.Duration{500 * time.Millisecond, 2 * time.Second}[p.Pick(2)]
		pl.Faults = map[string][]Outcome{"bn0/AttestationData!": {{Latency: attLat}}}
		if p.Pct(70) && pl.StartOffset > 0 {
			next := (pl.StartOffset/slot + 1) * slot
			at := next + pl.MaxAttestationDelay + []time.Duration{-time.Millisecond, attLat / 2, attLat / 2, attLat + time.Millisecond}[p.Pick(4)]
			pl.SubDutiesLatency = at - pl.StartOffset
		}
	}
	return pl
}

// isAggregator is the consensus specification's is_aggregator.
func isAggregator(committeeLength uint64, target uint64, sig []byte) bool {
	modulo := committeeLength / target
	if modulo < 1 {
		modulo = 1
	}
	h := sha256.Sum256(sig)
	return binary.LittleEndian.Uint64(h[:8])%modulo == 0
}

func exec(plan any, sched *simrt.Tape) *sim.Outcome {
	pl := plan.(*syssim.Plan)
	out := &sim.Outcome{Probes: map[string]int{}, Sample: pl}
	var rec *syssim.Record
	slot := time.Duration(pl.SecondsPerSlot) * time.Second
	horizon := 10*time.Minute + time.Duration(pl.HorizonSlots+2)*slot + time.Minute
	res := sim.Run(sched, horizon, 400000, nil, func(ctx context.Context) {
		rec = syssim.Run(ctx, pl, nil)
		simrt.Sleep(ctx, slot, "c14/drain")
	})
	out.Res = res
	if res.Violation != nil {
		out.Violation = res.Violation
		switch res.Violation.Kind {
		case "panic", "deadlock", "horizon":
			out.Violation.Kind = "C14/" + res.Violation.Kind
		}
		return out
	}
	if len(rec.BuildErrors) > 0 {
		out.Violation = Viol("harness-build", "services failed to start: %v", rec.BuildErrors)
		return out
	}
	out.Violation = oracle(rec, out)
	if out.Violation != nil && os.Getenv("VERIF_DEBUG") != "" {
		for _, f := range rec.H.Fetches {
			fmt.Fprintf(os.Stderr, "FETCH inc=%d %s epoch=%d t=%v..%v step=%d..%d err=%v cur=%d n=%d\n", f.Inc, f.Kind, f.Epoch, f.T, f.EndT, f.Step, f.EndStep, f.Err, f.CurSlotAtEnd, len(f.Att))
			for v := 0; v < 64; v++ {
				if f.Att[v] == nil {
					continue
				}
				fmt.Fprintf(os.Stderr, "   duty validator=%d slot=%d committee=%d\n", v, f.Att[v].Slot, f.Att[v].CommitteeIndex)
			}
		}
		for _, s := range rec.H.Submissions {
			fmt.Fprintf(os.Stderr, "SUB inc=%d %s t=%v step=%d\n", s.Inc, s.Kind, s.T, s.Step)
			if l, ok := s.Obj.([]*apiv1.BeaconCommitteeSubscription); ok {
				for _, en := range l {
					fmt.Fprintf(os.Stderr, "   entry validator=%d slot=%d committee=%d aggregator=%v\n", en.ValidatorIndex, en.Slot, en.CommitteeIndex, en.IsAggregator)
				}
			}
		}
		for _, i := range rec.Invocations {
			fmt.Fprintf(os.Stderr, "INV inc=%d %s slot=%d vals=%v t=%v step=%d..%d\n", i.Inc, i.Kind, i.Slot, i.Validators, i.T, i.Step, i.EndStep)
		}
	}
	return out
}

type pair struct {
	slot uint64
	ci   int
}

func oracle(rec *syssim.Record, out *sim.Outcome) *simrt.Violation {
	pl := rec.Plan
	c := rec.Model.Chain
	genesis := c.GenesisTime.Sub(SimEpoch)
	slotDur := time.Duration(pl.SecondsPerSlot) * time.Second
	slotStart := func(s uint64) time.Duration { return genesis + time.Duration(s)*slotDur }
	slotAt := func(t time.Duration) uint64 {
		if t < genesis {
			return 0
		}
		return uint64((t - genesis) / slotDur)
	}
	endOfRun := slotStart(pl.HorizonSlots)

	// slot signatures as the signer produced them: (validator, slot) -> signature
	selDomain := func(s uint64) phase0.Domain {
		return c.DomainAt(DomainSelectionProof, phase0.Epoch(s/pl.SlotsPerEpoch))
	}
	slotSig := map[string][]byte{}
	for _, r := range rec.Signer.Snapshot() {
		if r.Outcome != "ok" || len(r.Data) != 32 {
			continue
		}
		// a slot selection proof signs hash_tree_root(uint64 slot) = little-endian slot padded to 32 bytes
		s := binary.LittleEndian.Uint64(r.Data[:8])
		pad := true
		for _, b := range r.Data[8:] {
			if b != 0 {
				pad = false
			}
		}
		d := selDomain(s)
		if r.Method == "Sign" {
			// plain accounts receive the final signing root: recompute it for candidate slots
			continue
		}
		if pad && string(r.Domain) == string(d[:]) {
			slotSig[fmt.Sprintf("%d/%d", r.KeyIndex, s)] = r.Signature
		}
	}
	// plain accounts: match by recomputing the signing root for every (validator, slot) of interest
	plainSig := func(v int, s uint64) []byte {
		var obj [32]byte
		binary.LittleEndian.PutUint64(obj[:8], s)
		d := selDomain(s)
		sd := phase0.SigningData{ObjectRoot: obj, Domain: d}
		root, _ := sd.HashTreeRoot()
		for _, r := range rec.Signer.Snapshot() {
			if r.Method == "Sign" && r.KeyIndex == v && r.Outcome == "ok" && string(r.Data) == string(root[:]) {
				return r.Signature
			}
		}
		return nil
	}
	sigOf := func(v int, s uint64) []byte {
		if sig, ok := slotSig[fmt.Sprintf("%d/%d", v, s)]; ok {
			return sig
		}
		return plainSig(v, s)
	}
	selected := func(d *apiv1.AttesterDuty) (bool, bool) {
		sig := sigOf(int(d.ValidatorIndex), uint64(d.Slot))
		if sig == nil {
			return false, false
		}
		return isAggregator(d.CommitteeLength, pl.TargetAggregators, sig), true
	}

	subFetches := map[int][]*syssim.DutyFetch{} // inc -> completed subscriber fetches
	for _, f := range rec.H.Fetches {
		if f.Kind == "attester-sub" && !f.Err && f.EndStep != 0 {
			subFetches[f.Inc] = append(subFetches[f.Inc], f)
		}
	}
	matched := map[*syssim.DutyFetch]bool{}
	matchedT := map[*syssim.DutyFetch]time.Duration{} // when the first subscription request built from the answer reached the node
	for _, sub := range rec.H.Subs("BeaconCommitteeSubscriptions") {
		entries := sub.Obj.([]*apiv1.BeaconCommitteeSubscription)
		if len(entries) == 0 {
			continue
		}
		e := uint64(entries[0].Slot) / pl.SlotsPerEpoch
		var f *syssim.DutyFetch
		for _, cand := range subFetches[sub.Inc] {
			if cand.Epoch == e && cand.EndStep <= sub.Step {
				f = cand
			}
		}
		if f == nil {
			return Viol("C14/subscription-without-duties", "subscriptions for epoch %d submitted at %v without a preceding duties answer", e, sub.T)
		}
		if sub.Node == "bn0" {
			matched[f] = true
			if _, ok := matchedT[f]; !ok {
				matchedT[f] = sub.T
			}
		}
		out.Nontrivial = true
		have := map[pair]*apiv1.BeaconCommitteeSubscription{}
		for _, en := range entries {
			d, ok := f.Att[int(en.ValidatorIndex)]
			if !ok || d.Slot != en.Slot || d.CommitteeIndex != en.CommitteeIndex {
				return Viol("C14/subscription-wrong-assignment", "subscription (validator %d slot %d committee %d) does not match that validator's duty", en.ValidatorIndex, en.Slot, en.CommitteeIndex)
			}
			if en.CommitteesAtSlot != d.CommitteesAtSlot {
				return Viol("C14/subscription-wrong-assignment", "subscription for slot %d committee %d says %d committees at slot, duty says %d", en.Slot, en.CommitteeIndex, en.CommitteesAtSlot, d.CommitteesAtSlot)
			}
			sel, known := selected(d)
			if known && sel != en.IsAggregator {
				return Viol("C14/aggregator-flag-wrong", "validator %d slot %d committee %d (length %d, target %d): is_aggregator per specification is %v, subscription says %v", en.ValidatorIndex, en.Slot, en.CommitteeIndex, d.CommitteeLength, pl.TargetAggregators, sel, en.IsAggregator)
			}
			if known {
				out.Probes[fmt.Sprintf("aggregator-flag-%v", sel)]++
			}
			have[pair{uint64(en.Slot), int(en.CommitteeIndex)}] = en
		}
		cur := slotAt(sub.T)
		past := false
		for _, d := range f.Att {
			if uint64(d.Slot)/pl.SlotsPerEpoch != e {
				continue
			}
			if uint64(d.Slot) <= cur {
				past = true
				continue
			}
			if _, ok := have[pair{uint64(d.Slot), int(d.CommitteeIndex)}]; !ok {
				return Viol("C14/future-duty-not-subscribed", "duty of validator %d in slot %d committee %d (slot current at submission: %d) has no subscription in the request of %v", d.ValidatorIndex, d.Slot, d.CommitteeIndex, cur, sub.T)
			}
			out.Probes["future-duty-subscribed"]++
		}
		if past {
			out.Probes["subscription-with-past-duties-in-epoch"]++
		}
	}
	// duties answers that never led to a subscription request
	for _, inc := range rec.Incs {
		l := subFetches[inc.N]
		for i, f := range l {
			if matched[f] {
				continue
			}
			superseded := false
			for _, g := range l[i+1:] {
				if g.Epoch == f.Epoch {
					superseded = true
				}
			}
			if superseded || f.EndT+5*time.Second > endOfRun || (inc.End >= 0 && inc.End < f.EndT+5*time.Second) {
				continue
			}
			cur := slotAt(f.EndT)
			for _, d := range f.Att {
				// the slot boundary right after the answer is left out: the request may legitimately straddle it
				if uint64(d.Slot) > cur+1 && uint64(d.Slot)/pl.SlotsPerEpoch == f.Epoch {
					if cur%pl.SlotsPerEpoch != 0 || true {
						out.Probes["subscription-missing-with-past-duties"]++
					}
					return Viol("C14/future-duty-not-subscribed", "duties for epoch %d obtained at %v (current slot %d) include validator %d in future slot %d, but no subscription request followed", f.Epoch, f.EndT, cur, d.ValidatorIndex, d.Slot)
				}
			}
		}
	}

	// (a2) the duties the controller itself obtains for scheduling must be covered by a subscription too:
	// every future (slot, committee) of the last duties answer for an epoch appears in a request made
	// at or after that answer was asked for.
	for _, inc := range rec.Incs {
		var ctl []*syssim.DutyFetch
		for _, f := range rec.H.Fetches {
			if f.Kind == "attester" && f.Inc == inc.N {
				ctl = append(ctl, f)
			}
		}
		for i, f := range ctl {
			if f.Err || f.EndStep == 0 {
				continue
			}
			superseded := false
			for _, g := range ctl[i+1:] {
				if g.Epoch == f.Epoch {
					superseded = true
				}
			}
			if late := f.EndT + pl.SubDutiesLatency; superseded || late+5*time.Second > endOfRun || (inc.End >= 0 && inc.End < late+5*time.Second) {
				continue
			}
			// (the subscriber asks for the duties itself; when its request is answered late, "the current slot" is the one then)
			subT := f.EndT + pl.SubDutiesLatency
			if pl.SubDutiesLatency > 0 {
				// a reorg between the two answers: the subscriber was told other duties than the controller
				changed := false
				for _, r := range pl.Reorgs {
					if slotStart(r.Slot+1) >= f.T && slotStart(r.Slot) <= subT+slotDur {
						changed = true
					}
				}
				if changed {
					continue
				}
			}
			cur := slotAt(subT)
			margin := uint64(0)
			if slotStart(cur+1)-subT < 2*time.Second {
				margin = 1 // the request may legitimately straddle the slot boundary
			}
			for _, d := range f.Att {
				if uint64(d.Slot) <= cur+margin || uint64(d.Slot)/pl.SlotsPerEpoch != f.Epoch {
					continue
				}
				covered := false
				for _, sub := range rec.H.Subs("BeaconCommitteeSubscriptions") {
					if sub.Inc != inc.N || sub.T < f.T {
						continue
					}
					for _, en := range sub.Obj.([]*apiv1.BeaconCommitteeSubscription) {
						if en.Slot == d.Slot && en.CommitteeIndex == d.CommitteeIndex {
							covered = true
						}
					}
				}
				if !covered {
					return Viol("C14/future-duty-not-subscribed", "duties for epoch %d obtained by the controller at %v (current slot %d) give validator %d a duty in future slot %d committee %d, but no subscription request from then on contains that slot/committee", f.Epoch, f.EndT, cur, d.ValidatorIndex, d.Slot, d.CommitteeIndex)
				}
				out.Probes["controller-duty-covered-by-subscription"]++
			}
		}
	}

	// (b) aggregation after attesting
	atts := rec.H.Subs("Attestations")
	for _, inv := range rec.Invs("attest") {
		if inv.EndStep == 0 {
			continue
		}
		var inc *syssim.Incarnation
		for _, i := range rec.Incs {
			if i.N == inv.Inc {
				inc = i
			}
		}
		aggT := slotStart(inv.Slot) + pl.AggregationDelay
		if inc == nil || aggT+2*time.Second > endOfRun || (inc.End >= 0 && inc.End < aggT+2*time.Second) {
			continue
		}
		// committees for which attestations were submitted by this run
		committees := map[int]bool{}
		for _, s := range atts {
			if s.Inc == inv.Inc && s.Step >= inv.Step && s.Step <= inv.EndStep && s.Node == "bn0" {
				for _, a := range s.Obj.([]*phase0.Attestation) {
					if a != nil && a.Data != nil && uint64(a.Data.Slot) == inv.Slot {
						committees[int(a.Data.Index)] = true
					}
				}
			}
		}
		if len(committees) == 0 {
			continue
		}
		e := inv.Slot / pl.SlotsPerEpoch
		// "After attesting": the subscription info vouch holds when the attestation process returns stems from the
		// last subscriber duties answer for that epoch whose subscription request had reached the node at an
		// earlier instant than that (the info is kept as soon as it has been put together, before it is submitted)
		var f *syssim.DutyFetch
		for _, cand := range subFetches[inv.Inc] {
			if t, ok := matchedT[cand]; ok && cand.Epoch == e && (cand.EndStep < inv.Step || t < inv.EndT) {
				f = cand
			}
		}
		if f == nil || !matched[f] {
			continue
		}
		if f.EndStep >= inv.Step {
			out.Probes["subscription-completed-while-attesting"]++
		}
		// if a newer answer was being processed around the attestation, which info is held is not determined
		ambiguous := false
		for _, cand := range rec.H.Fetches {
			if cand.Kind == "attester-sub" && cand.Inc == inv.Inc && cand.Epoch == e && cand.Step > f.Step && cand.Step <= inv.EndStep {
				ambiguous = true
			}
		}
		if ambiguous || inv.T > aggT || inv.EndT >= aggT {
			continue
		}
		aggs := rec.Invs("aggregate")
		for ci := range committees {
			var sel []int
			for v, d := range f.Att {
				if uint64(d.Slot) == inv.Slot && int(d.CommitteeIndex) == ci {
					if s, known := selected(d); known && s {
						sel = append(sel, v)
					}
				}
			}
			sort.Ints(sel)
			if len(sel) == 0 {
				out.Probes["committee-without-selected-aggregator"]++
				continue
			}
			found := false
			for _, a := range aggs {
				if a.Inc == inv.Inc && a.Slot == inv.Slot {
					for _, v := range sel {
						if a.Validators[0] == v {
							found = true
							if a.T != aggT {
								return Viol("C14/aggregation-wrong-time", "aggregation for slot %d committee %d ran at %v, slot start + configured delay is %v", inv.Slot, ci, a.T, aggT)
							}
						}
					}
				}
			}
			if !found {
				return Viol("C14/selected-aggregator-without-job", "slot %d committee %d: validators %v are selected aggregators (specification rule on their slot signatures) and vouch attested for that committee at %v, but no aggregation ran for it", inv.Slot, ci, sel, inv.T)
			}
			out.Probes["selected-aggregator-aggregated"]++
			if len(committees) > 1 {
				out.Probes["slot-with-several-committees"]++
			}
		}
	}
	// every aggregation that ran was for a selected aggregator
	for _, a := range rec.Invs("aggregate") {
		e := a.Slot / pl.SlotsPerEpoch
		ok := false
		for _, f := range subFetches[a.Inc] {
			if f.Epoch != e || f.EndStep > a.Step {
				continue
			}
			if d, has := f.Att[a.Validators[0]]; has && uint64(d.Slot) == a.Slot {
				if s, known := selected(d); !known || s {
					ok = true
				}
			}
		}
		if !ok {
			return Viol("C14/aggregation-by-unselected-validator", "aggregation ran for slot %d validator %d, which is not a selected aggregator of a committee of that slot", a.Slot, a.Validators[0])
		}
	}
	return nil
}

func init() {
	sim.Register(&sim.Scenario{Property: "C14", Name: "system", Gen: gen, Exec: exec})
}
