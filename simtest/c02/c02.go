package c02

import (
	"context"
	"errors"
	"fmt"
	"sort"
	"strings"
	"time"

	nullmetrics "github.com/attestantio/vouch/services/metrics/null"
	"github.com/attestantio/vouch/services/scheduler"
	"github.com/attestantio/vouch/services/scheduler/advanced"
	"github.com/rs/zerolog"

	"verif/sim"
	"verif/simrt"
	. "verif/simtest/env"
)

// C02 — a scheduled job runs exactly once, whoever starts it.
//
// Real code: services/scheduler/advanced.  Stub: job functions (recording),
// callers.  Oracle: contract model evaluated over the recorded history.

type c02Job struct {
	Name     string        `json:"name"`
	Periodic bool          `json:"periodic,omitempty"`
	At       time.Duration `json:"at"`  // one-off: run time relative to start (may be <= 0)
	Dur      time.Duration `json:"dur"` // simulated run time of the job function
	Period   time.Duration `json:"period,omitempty"`
}

type c02Op struct {
	At   time.Duration `json:"at"`
	Kind string        `json:"kind"`
	Job  int           `json:"job"`
}

type c02Plan struct {
	Jobs []c02Job `json:"jobs"`
	Ops  []c02Op  `json:"ops"`
}

var c02Deltas = []time.Duration{-5 * time.Second, -1, 0, 1, 5 * time.Second}
var c02Kinds = []string{"run", "run", "runif", "cancel", "cancelif", "cancelprefix", "exists", "list", "resched", "ctxcancel", "run"}

func c02Gen(p *simrt.Tape) any {
	pl := &c02Plan{}
	nj := p.Range(1, 3)
	times := []time.Duration{10 * time.Second, 10 * time.Second, 20 * time.Second, 0, -time.Second}
	durs := []time.Duration{0, 0, 1, 3 * time.Second}
	for i := 0; i < nj; i++ {
		pl.Jobs = append(pl.Jobs, c02Job{Name: fmt.Sprintf("job%d", i), At: times[p.Pick(len(times))], Dur: durs[p.Pick(len(durs))]})
	}
	if p.Pct(40) {
		pl.Jobs = append(pl.Jobs, c02Job{Name: "jobP", Periodic: true, Period: 8 * time.Second, Dur: durs[p.Pick(len(durs))]})
	}
	nops := p.Range(0, 6)
	for i := 0; i < nops; i++ {
		j := p.Pick(len(pl.Jobs))
		job := pl.Jobs[j]
		base := job.At
		if job.Periodic {
			base = job.Period * time.Duration(p.Range(1, 3))
		}
		at := base + c02Deltas[p.Pick(len(c02Deltas))]
		if at < 0 {
			at = 0
		}
		pl.Ops = append(pl.Ops, c02Op{At: at, Kind: c02Kinds[p.Pick(len(c02Kinds))], Job: j})
	}
	// name re-use at the instant a job starts: a claim (run or cancel) and a re-schedule of the same name
	// exactly at the timer, followed by an operation on the new instance
	if p.Pct(30) {
		j := p.Pick(nj)
		t := pl.Jobs[j].At
		if t > 0 {
			first := []string{"run", "cancel", "runif"}[p.Pick(3)]
			later := []string{"cancel", "cancelif", "run", "exists"}[p.Pick(4)]
			pl.Ops = append(pl.Ops, c02Op{At: t, Kind: first, Job: j}, c02Op{At: t, Kind: "resched", Job: j},
				c02Op{At: t + []time.Duration{1, time.Second, 5 * time.Second}[p.Pick(3)], Kind: later, Job: j})
		}
	}
	// several requests to schedule one name at the same instant, once the name is free (or while it is taken)
	if p.Pct(20) {
		j := p.Pick(len(pl.Jobs))
		t := pl.Jobs[j].At + []time.Duration{-time.Second, 4 * time.Second, 4 * time.Second}[p.Pick(3)]
		if pl.Jobs[j].Periodic {
			t = 3 * time.Second
			pl.Ops = append(pl.Ops, c02Op{At: 2 * time.Second, Kind: "cancel", Job: j})
		}
		if t > 0 {
			for i, n := 0, p.Range(2, 3); i < n; i++ {
				pl.Ops = append(pl.Ops, c02Op{At: t, Kind: "resched", Job: j})
			}
			pl.Ops = append(pl.Ops, c02Op{At: t + time.Second, Kind: []string{"cancel", "exists", "list", "run"}[p.Pick(4)], Job: j})
		}
	}
	return pl
}

type c02Inv struct {
	start, end         time.Duration
	startStep, endStep int
	done               bool
}

type c02Inst struct {
	job                         int
	name                        string
	periodic                    bool
	at                          time.Duration // absolute sim time of one-off timer
	schedAt                     time.Duration
	accepted                    bool
	schedCallStep, schedRetStep int
	invs                        []*c02Inv
	cancelCtx                   context.CancelFunc
	ctxCancelledAt              time.Duration
	ctxCancelled                bool
}

type c02OpRec struct {
	op                c02Op
	callT, retT       time.Duration
	callStep, retStep int
	err               error
	inst              *c02Inst // instance that was current for the name at call time (may be nil)
	result            string
}

func c02Exec(plan any, sched *simrt.Tape) *sim.Outcome {
	pl := plan.(*c02Plan)
	out := &sim.Outcome{Probes: map[string]int{}, Sample: pl}
	var insts []*c02Inst
	current := map[string]*c02Inst{} // latest instance per name
	var ops []*c02OpRec
	var sched_ *advanced.Service
	horizon := 60 * time.Second

	res := sim.Run(sched, 10*time.Minute, 50000, nil, func(ctx context.Context) {
		var err error
		sched_, err = advanced.New(ctx, advanced.WithLogLevel(zerolog.Disabled), advanced.WithMonitor(nullmetrics.New()))
		if err != nil {
			panic(err)
		}
		var svc scheduler.Service = sched_

		schedule := func(j int) (*c02Inst, error) {
			job := pl.Jobs[j]
			inst := &c02Inst{job: j, name: job.Name, periodic: job.Periodic, schedAt: simrt.Now(), schedCallStep: simrt.Step()}
			jctx, cancel := context.WithCancel(ctx)
			inst.cancelCtx = cancel
			fn := func(_ context.Context) {
				inv := &c02Inv{start: simrt.Now(), startStep: simrt.Step()}
				simrt.Crit(func() { inst.invs = append(inst.invs, inv) })
				if job.Dur > 0 {
					simrt.Sleep(context.Background(), job.Dur, "c02/jobfn")
				} else {
					simrt.Yield("c02/jobfn")
				}
				simrt.Crit(func() { inv.end, inv.endStep, inv.done = simrt.Now(), simrt.Step(), true })
			}
			var err error
			if job.Periodic {
				err = svc.SchedulePeriodicJob(jctx, "c02", job.Name, func(_ context.Context) (time.Time, error) {
					now := simrt.Now()
					next := (now/job.Period + 1) * job.Period
					return SimEpoch.Add(next), nil
				}, fn)
			} else {
				inst.at = job.At
				if inst.schedAt > 0 { // re-scheduled instance: 10s after now
					inst.at = inst.schedAt + 10*time.Second
				}
				err = svc.ScheduleJob(jctx, "c02", job.Name, SimEpoch.Add(inst.at), fn)
			}
			inst.schedRetStep = simrt.Step()
			if err == nil {
				inst.accepted = true
				simrt.Crit(func() { insts = append(insts, inst); current[job.Name] = inst })
			} else {
				cancel()
			}
			return inst, err
		}
		for j := range pl.Jobs {
			if _, err := schedule(j); err != nil {
				panic(fmt.Sprintf("initial schedule failed: %v", err))
			}
		}
		for i := range pl.Ops {
			op := pl.Ops[i]
			rec := &c02OpRec{op: op}
			ops = append(ops, rec)
			simrt.Go(fmt.Sprintf("op%d", i), func() {
				simrt.Sleep(ctx, op.At, "c02/opwait")
				name := pl.Jobs[op.Job].Name
				simrt.Crit(func() { rec.inst = current[name] })
				rec.callT, rec.callStep = simrt.Now(), simrt.Step()
				switch op.Kind {
				case "run":
					rec.err = svc.RunJob(ctx, name)
				case "runif":
					svc.RunJobIfExists(ctx, name)
				case "cancel":
					rec.err = svc.CancelJob(ctx, name)
				case "cancelif":
					svc.CancelJobIfExists(ctx, name)
				case "cancelprefix":
					svc.CancelJobs(ctx, name[:4])
				case "exists":
					rec.result = fmt.Sprint(svc.JobExists(ctx, name))
				case "list":
					l := svc.ListJobs(ctx)
					sort.Strings(l)
					rec.result = strings.Join(l, ",")
				case "resched":
					var inst *c02Inst
					inst, rec.err = schedule(op.Job)
					if rec.err == nil {
						rec.inst = inst
					}
				case "ctxcancel":
					if rec.inst != nil {
						simrt.Crit(func() {
							if !rec.inst.ctxCancelled {
								rec.inst.ctxCancelled, rec.inst.ctxCancelledAt = true, simrt.Now()
							}
						})
						rec.inst.cancelCtx()
					}
				}
				simrt.Yield("c02/opret")
				rec.retT, rec.retStep = simrt.Now(), simrt.Step()
			})
		}
		simrt.Sleep(ctx, horizon, "c02/horizon")
	})
	out.Res = res
	if res.Violation != nil {
		out.Violation = res.Violation
		if res.Violation.Kind == "panic" || res.Violation.Kind == "deadlock" {
			out.Violation.Kind = "C02/" + res.Violation.Kind
		}
		return out
	}
	out.Violation = c02Oracle(pl, insts, ops, horizon, out)
	return out
}

func c02Oracle(pl *c02Plan, insts []*c02Inst, ops []*c02OpRec, horizon time.Duration, out *sim.Outcome) *simrt.Violation {
	for _, o := range ops {
		if o.op.Kind != "exists" && o.op.Kind != "list" {
			for _, in := range insts {
				if in.name == pl.Jobs[o.op.Job].Name && !in.periodic {
					d := o.callT - in.at
					if d >= -1 && d <= 1 {
						out.Nontrivial = true
						out.Probes["op-within-1ns-of-timer"]++
					}
				}
			}
		}
	}
	// Which instances can an operation on a name have acted upon?  The table
	// holds one job per name; an instance is in it from its ScheduleJob until it
	// starts running or is cancelled.  Without looking inside the scheduler an
	// instance is a *candidate* for op o if it was scheduled no later than o
	// returned and had not started before o was called.
	sameName := func(o *c02OpRec, in *c02Inst) bool {
		if o.op.Kind == "cancelprefix" {
			return strings.HasPrefix(in.name, pl.Jobs[o.op.Job].Name[:4])
		}
		return in.name == pl.Jobs[o.op.Job].Name
	}
	candidate := func(o *c02OpRec, in *c02Inst) bool {
		if !sameName(o, in) || in.schedCallStep > o.retStep {
			return false
		}
		if o.op.Kind == "resched" && o.inst == in && o.err == nil {
			return false
		}
		if !in.periodic && len(in.invs) > 0 && in.invs[0].startStep < o.callStep {
			return false
		}
		return true
	}
	certain := func(o *c02OpRec, in *c02Inst) bool {
		if !candidate(o, in) || in.schedRetStep > o.callStep {
			return false
		}
		for _, other := range insts {
			if other != in && other.name == in.name && candidate(o, other) {
				return false
			}
		}
		return true
	}
	for _, in := range insts {
		n := len(in.invs)
		var cancelAttempt, cancelClearlyBefore, runOK, runMaybe, runIf bool
		cancelT := time.Duration(1 << 62)
		for _, o := range ops {
			if !candidate(o, in) {
				continue
			}
			switch o.op.Kind {
			case "cancel":
				if o.err != nil && errors.Is(o.err, scheduler.ErrNoSuchJob) {
					continue
				}
				cancelAttempt = true
				cancelT = min(cancelT, o.callT)
				if o.err == nil && certain(o, in) && o.retT < in.at {
					cancelClearlyBefore = true
				}
			case "cancelif", "cancelprefix":
				cancelAttempt = true
				cancelT = min(cancelT, o.callT)
				if certain(o, in) && o.retT < in.at {
					cancelClearlyBefore = true
				}
			case "run":
				if o.err == nil {
					if certain(o, in) {
						runOK = true
					} else {
						runMaybe = true
					}
				}
			case "runif":
				runIf = true
			case "ctxcancel":
				cancelT = min(cancelT, o.callT)
			}
		}
		if in.ctxCancelled {
			cancelT = min(cancelT, in.ctxCancelledAt)
		}
		if in.periodic {
			for i := 1; i < len(in.invs); i++ {
				if !in.invs[i-1].done || in.invs[i].startStep < in.invs[i-1].endStep {
					return Viol("C02/periodic-overlap", "periodic job %s: invocation %d started (step %d) before invocation %d ended", in.name, i, in.invs[i].startStep, i-1)
				}
			}
			P := pl.Jobs[in.job].Period
			for k := time.Duration(1); k*P <= horizon-5*time.Second; k++ {
				tk := k * P
				if tk <= in.schedAt {
					continue
				}
				if tk >= cancelT {
					break
				}
				ok := false
				for _, iv := range in.invs {
					if iv.start == tk || (iv.start < tk && (!iv.done || iv.end >= tk)) {
						ok = true
					}
				}
				if !ok {
					return Viol("C02/periodic-missed-tick", "periodic job %s: no invocation at or across tick %v (invocations %s)", in.name, tk, c02Invs(in))
				}
				out.Probes["periodic-tick-checked"]++
			}
			// "a job cancelled never runs": once a cancellation that certainly met this job has returned and the
			// invocation that was under way then (if any) has ended, no further invocation starts at a later instant
			// (at the same instant the loop may still find its timer ready next to the cancellation)
			for _, o := range ops {
				if !certain(o, in) || o.callT <= in.schedAt {
					continue
				}
				if !(o.op.Kind == "cancel" && o.err == nil) && o.op.Kind != "cancelif" && o.op.Kind != "cancelprefix" {
					continue
				}
				quiet := o.retT
				open := false
				for _, iv := range in.invs {
					if iv.startStep <= o.retStep {
						if !iv.done {
							open = true
						} else if iv.end > quiet {
							quiet = iv.end
						}
					}
				}
				if open {
					continue
				}
				for _, iv := range in.invs {
					if iv.startStep > o.retStep && iv.start > quiet {
						return Viol("C02/periodic-ran-after-cancel", "periodic job %s was cancelled (%s returned at %v, the invocation then under way ended by %v) but an invocation started at %v (invocations %s)", in.name, o.op.Kind, o.retT, quiet, iv.start, c02Invs(in))
					}
				}
				out.Probes["periodic-cancel-checked"]++
			}
			for _, o := range ops {
				if o.op.Kind == "run" && o.err == nil && certain(o, in) && !in.ctxCancelled && o.callT < cancelT {
					found := false
					for _, iv := range in.invs {
						if iv.startStep >= o.callStep {
							found = true
						}
					}
					if !found {
						return Viol("C02/run-success-but-not-run", "periodic job %s: RunJob returned nil at %v but no invocation followed (invocations %s)", in.name, o.callT, c02Invs(in))
					}
					out.Probes["periodic-early-run"]++
				}
			}
			continue
		}
		// one-off
		if n > 1 {
			return Viol("C02/ran-twice", "one-off job %s (time %v) ran %d times: %s", in.name, in.at, n, c02Invs(in))
		}
		if runOK {
			out.Probes["run-now-success"]++
		}
		switch {
		case in.ctxCancelled:
			// obligations void: 0 or 1
		case runOK:
			if n != 1 {
				return Viol("C02/run-success-but-not-run", "one-off job %s (time %v): RunJob returned nil but the job ran %d times", in.name, in.at, n)
			}
		case cancelClearlyBefore && !runIf && !runMaybe:
			if n != 0 {
				return Viol("C02/cancelled-job-ran", "one-off job %s (time %v) was cancelled clearly before its time but ran: %s", in.name, in.at, c02Invs(in))
			}
			out.Probes["cancel-clearly-before"]++
		case cancelAttempt:
			// concurrent with a start: 0 or 1
		default:
			if n != 1 {
				return Viol("C02/job-dropped", "one-off job %s (time %v) was never cancelled but ran %d times by the horizon", in.name, in.at, n)
			}
		}
		if n == 1 && !in.invs[0].done {
			return Viol("C02/job-never-finished", "job %s still running at horizon", in.name)
		}
	}
	// a job that nothing has withdrawn or started yet is known to the scheduler under its name;
	// a periodic job stays known (and its name taken) however often it has run
	for _, o := range ops {
		name := pl.Jobs[o.op.Job].Name
		if o.op.Kind == "cancelprefix" || o.op.Kind == "ctxcancel" || o.op.Kind == "cancelif" || o.op.Kind == "runif" {
			continue
		}
		var only *c02Inst
		n := 0
		for _, in := range insts {
			if in.name == name && in.schedCallStep <= o.retStep && !(o.op.Kind == "resched" && o.err == nil && in == o.inst) {
				only = in
				n++
			}
		}
		if n != 1 || only.schedRetStep >= o.callStep || only.ctxCancelled {
			continue
		}
		in := only
		disturbed := false
		for _, q := range ops {
			if q == o || !sameName(q, in) || q.callStep > o.retStep {
				continue
			}
			switch q.op.Kind {
			case "cancel", "cancelif", "cancelprefix", "ctxcancel":
				disturbed = true
			case "run", "runif":
				if !in.periodic {
					disturbed = true
				}
			}
		}
		if disturbed || (!in.periodic && in.at <= o.retT+1) {
			continue
		}
		out.Probes["known-job-checked"]++
		kind := "one-off"
		if in.periodic {
			kind = "periodic"
		}
		switch o.op.Kind {
		case "exists":
			if o.result != "true" {
				return Viol("C02/live-job-unknown", "%s job %s (scheduled at %v, never cancelled) is not reported by JobExists at %v", kind, name, in.schedAt, o.callT)
			}
		case "list":
			if !strings.Contains(","+o.result+",", ","+name+",") {
				return Viol("C02/live-job-unknown", "%s job %s (scheduled at %v, never cancelled) is missing from ListJobs at %v: [%s]", kind, name, in.schedAt, o.callT, o.result)
			}
		case "cancel":
			if o.err != nil {
				return Viol("C02/live-job-unknown", "%s job %s (scheduled at %v, never cancelled before): CancelJob at %v returned %v", kind, name, in.schedAt, o.callT, o.err)
			}
		case "run":
			if errors.Is(o.err, scheduler.ErrNoSuchJob) {
				return Viol("C02/live-job-unknown", "%s job %s (scheduled at %v, never cancelled): RunJob at %v returned %v", kind, name, in.schedAt, o.callT, o.err)
			}
		case "resched":
			if o.err == nil {
				return Viol("C02/duplicate-name-accepted", "%s job %s is alive (scheduled at %v, never cancelled) yet a second job of that name was accepted at %v", kind, name, in.schedAt, o.callT)
			}
		}
	}
	// of overlapping requests to schedule one name at most one is accepted (unless the accepted job has already
	// started and so freed the name by the time the other request returned)
	for i, a := range insts {
		for _, b := range insts[i+1:] {
			if a.name != b.name || !(a.schedCallStep < b.schedRetStep && b.schedCallStep < a.schedRetStep) {
				continue
			}
			// which of the two was inserted first is not observable: either may have freed the name again by
			// starting (a job whose time has come starts at once) or by being withdrawn before the other was judged
			lo, hi := min(a.schedCallStep, b.schedCallStep), max(a.schedRetStep, b.schedRetStep)
			freed := a.ctxCancelled || b.ctxCancelled
			for _, in := range []*c02Inst{a, b} {
				if !in.periodic && len(in.invs) > 0 && in.invs[0].startStep <= hi {
					freed = true
				}
			}
			for _, o := range ops {
				switch o.op.Kind {
				case "cancel", "cancelif", "cancelprefix", "ctxcancel", "run", "runif":
					if sameName(o, a) && o.callStep <= hi && o.retStep >= lo {
						freed = true
					}
				}
			}
			if freed {
				continue
			}
			out.Probes["overlapping-schedule-requests"]++
			return Viol("C02/duplicate-name-accepted", "two overlapping requests to schedule %s (steps %d..%d and %d..%d) were both accepted", a.name, a.schedCallStep, a.schedRetStep, b.schedCallStep, b.schedRetStep)
		}
	}
	// a finished job's name can be scheduled again
	for _, o := range ops {
		if o.op.Kind != "resched" || pl.Jobs[o.op.Job].Periodic {
			continue
		}
		name := pl.Jobs[o.op.Job].Name
		free := true
		for _, in := range insts {
			if in.name != name || (o.err == nil && in == o.inst) {
				continue
			}
			if in.schedCallStep > o.retStep {
				continue
			}
			if !(len(in.invs) == 1 && in.invs[0].done && in.invs[0].endStep < o.callStep) {
				free = false
			}
		}
		if free {
			out.Probes["resched-after-finish"]++
			if o.err != nil {
				return Viol("C02/name-not-reusable", "ScheduleJob(%s) after the previous instance finished returned %v", name, o.err)
			}
		}
	}
	return nil
}

func c02Invs(in *c02Inst) string {
	var b []string
	for _, iv := range in.invs {
		b = append(b, fmt.Sprintf("[%v..%v]", iv.start, iv.end))
	}
	return strings.Join(b, " ")
}

func init() {
	sim.Register(&sim.Scenario{Property: "C02", Name: "scheduler", Gen: c02Gen, Exec: c02Exec})
}
