package syssim

import (
	"context"
	"errors"
	"fmt"
	"math/big"
	"sort"
	"strings"
	"time"

	eth2client "github.com/attestantio/go-eth2-client"
	"github.com/attestantio/go-eth2-client/api"
	apiv1 "github.com/attestantio/go-eth2-client/api/v1"
	"github.com/attestantio/go-eth2-client/spec"
	"github.com/attestantio/go-eth2-client/spec/altair"
	"github.com/attestantio/go-eth2-client/spec/bellatrix"
	"github.com/attestantio/go-eth2-client/spec/capella"
	"github.com/attestantio/go-eth2-client/spec/phase0"
	"github.com/prysmaticlabs/go-bitfield"

	"verif/simrt"
	. "verif/simtest/env"
)

// DutyFetch records one duties request and what was answered.
type DutyFetch struct {
	Kind          string // attester | proposer | sync
	Epoch         uint64
	Indices       []int
	Inc           int
	Step, EndStep int
	T, EndT       time.Duration
	Err           bool
	Att           map[int]*apiv1.AttesterDuty // answered attester duties by validator (within requested epoch unless odd)
	Prop          map[uint64]int              // slot -> validator (ours only)
	Sync          map[int][]phase0.CommitteeIndex
	CurSlotAtEnd  uint64 // oracle's own idea of the current slot when the answer was returned
	PreGenesis    bool
}

// Submission records something a node received.
type Submission struct {
	Kind string
	Inc  int
	Step int
	T    time.Duration
	Node string
	Obj  any
}

// History is what the environment observed.
type History struct {
	Fetches     []*DutyFetch
	Submissions []*Submission
	Events      []string
	Roots       []RootAnswer
	Heads       []*HeadDelivery
}

// HeadDelivery records one head event handed to a handler of the vouch process.
type HeadDelivery struct {
	Inc           int
	Node          string
	Step, EndStep int // EndStep: the handler has returned
	T, EndT       time.Duration
	Slot          uint64
	Cur, Prev     phase0.Root
	Odd           bool // no data or a slot far in the future
}

// RootAnswer records what a node answered to a head block root request.
type RootAnswer struct {
	Inc  int
	Step int
	T    time.Duration
	Root phase0.Root
}

func (h *History) addFetch(f *DutyFetch) { simrt.Crit(func() { h.Fetches = append(h.Fetches, f) }) }
func (h *History) addSub(s *Submission) {
	simrt.Crit(func() { h.Submissions = append(h.Submissions, s) })
}

// Subs returns the submissions of one kind.
func (h *History) Subs(kind string) []*Submission {
	var out []*Submission
	simrt.Crit(func() {
		for _, s := range h.Submissions {
			if s.Kind == kind {
				out = append(out, s)
			}
		}
	})
	return out
}

type handlerReg struct {
	topics  []string
	handler eth2client.EventHandlerFunc
	inc     int
}

// Node is a simulated beacon node.
type Node struct {
	*ChainProviders
	NodeName string
	M        *Model
	S        *Script
	H        *History
	regs     []handlerReg
	oddCount map[string]int
	Version  string
}

// NewNode creates a node over the model.
func NewNode(name string, m *Model, s *Script, h *History) *Node {
	return &Node{ChainProviders: &ChainProviders{C: m.Chain}, NodeName: name, M: m, S: s, H: h, oddCount: map[string]int{}, Version: "Lighthouse/v5.1.0"}
}

func (n *Node) Name() string    { return n.NodeName }
func (n *Node) Address() string { return n.NodeName }

// odd returns the odd-content kind planned for this call of method ("" if none).
func (n *Node) odd(method string) string {
	var kind string
	simrt.Crit(func() {
		i := n.oddCount[method]
		n.oddCount[method] = i + 1
		for _, o := range n.M.P.Odd {
			if o.Method == method && o.Call == i {
				kind = o.Kind
			}
		}
	})
	if kind != "" {
		simrt.Probe("fault:odd-" + method + "-" + kind)
	}
	return kind
}

func md() map[string]any { return map[string]any{} }

func (n *Node) curSlot() (uint64, bool) {
	now := time.Now()
	if now.Before(n.M.Chain.GenesisTime) {
		return 0, true
	}
	return n.M.Chain.SlotAt(now), false
}

// NodeVersion implements eth2client.NodeVersionProvider.
func (n *Node) NodeVersion(_ context.Context, _ *api.NodeVersionOpts) (*api.Response[string], error) {
	return &api.Response[string]{Data: n.Version, Metadata: md()}, nil
}

func toInts(ix []phase0.ValidatorIndex) []int {
	out := make([]int, len(ix))
	for i, v := range ix {
		out[i] = int(v)
	}
	sort.Ints(out)
	return out
}

// AttesterDuties implements eth2client.AttesterDutiesProvider.
func (n *Node) AttesterDuties(ctx context.Context, opts *api.AttesterDutiesOpts) (*api.Response[[]*apiv1.AttesterDuty], error) {
	return n.attesterDuties(ctx, opts, "attester")
}

// SubscriberView is the node as seen by the beacon committee subscriber: its
// duty requests are recorded under their own kind, because they do not lead to jobs.
type SubscriberView struct{ N *Node }

// AttesterDuties implements eth2client.AttesterDutiesProvider.
func (v SubscriberView) AttesterDuties(ctx context.Context, opts *api.AttesterDutiesOpts) (*api.Response[[]*apiv1.AttesterDuty], error) {
	return v.N.attesterDuties(ctx, opts, "attester-sub")
}

func (n *Node) attesterDuties(ctx context.Context, opts *api.AttesterDutiesOpts, kind string) (*api.Response[[]*apiv1.AttesterDuty], error) {
	f := &DutyFetch{Kind: kind, Epoch: uint64(opts.Epoch), Indices: toInts(opts.Indices), Inc: simrt.CurrentInc(), Step: simrt.Step(), T: simrt.Now(), Att: map[int]*apiv1.AttesterDuty{}}
	n.H.addFetch(f)
	var early *AttTable
	if n.M.P.AnswerAtRequest {
		early = n.M.AttesterTable(uint64(opts.Epoch))
	}
	if kind == "attester-sub" && n.M.P.SubDutiesLatency > 0 {
		// the beacon committee subscriber's own duties request is answered late
		simrt.Probe("fault:subscriber-duties-late")
		if err := simrt.Sleep(ctx, n.M.P.SubDutiesLatency, n.NodeName+"/AttesterDuties/sub-late"); err != nil {
			f.EndStep, f.EndT, f.Err = simrt.Step(), simrt.Now(), true
			return nil, err
		}
	}
	_, err := n.S.Do(ctx, n.NodeName, "AttesterDuties", nil)
	f.EndStep, f.EndT = simrt.Step(), simrt.Now()
	f.CurSlotAtEnd, f.PreGenesis = n.curSlot()
	if err != nil {
		f.Err = true
		return nil, err
	}
	tab := n.M.AttesterTable(uint64(opts.Epoch))
	if early != nil {
		tab = early // the node computed the answer when the request arrived; the latency is the way back
	}
	odd := ""
	if kind == "attester" {
		odd = n.odd("AttesterDuties")
	}
	var out []*apiv1.AttesterDuty
	for _, v := range f.Indices {
		d, ok := tab.Duties[v]
		if !ok {
			continue
		}
		cp := *d
		f.Att[v] = &cp
		out = append(out, &cp)
	}
	switch odd {
	case "other-epoch":
		// an extra duty outside the requested epoch: must be ignored
		if len(out) > 0 {
			x := *out[0]
			x.Slot += phase0.Slot(n.M.P.SlotsPerEpoch * 2)
			out = append(out, &x)
		}
	case "duplicate":
		if len(out) > 0 {
			x := *out[0]
			out = append(out, &x)
		}
	case "empty":
		out = nil
		f.Att = map[int]*apiv1.AttesterDuty{}
	case "nil-data":
		f.Att = map[int]*apiv1.AttesterDuty{}
		return &api.Response[[]*apiv1.AttesterDuty]{Data: nil, Metadata: md()}, nil
	case "out-of-range":
		// position beyond the committee, committee beyond the slot's committees
		if len(out) > 0 {
			out[0].ValidatorCommitteeIndex = out[0].CommitteeLength + 5
			out[0].CommitteeIndex = phase0.CommitteeIndex(out[0].CommitteesAtSlot + 3)
			f.Att = map[int]*apiv1.AttesterDuty{}
		}
	case "next-epoch-first", "prev-epoch-last":
		// a duty just outside the requested epoch, for one of the validators asked about: must be ignored
		if len(f.Indices) > 0 {
			v := f.Indices[len(f.Indices)-1]
			slot := (uint64(opts.Epoch) + 1) * n.M.P.SlotsPerEpoch
			if odd == "prev-epoch-last" {
				if opts.Epoch == 0 {
					break
				}
				slot = uint64(opts.Epoch)*n.M.P.SlotsPerEpoch - 1
			}
			out = append(out, &apiv1.AttesterDuty{PubKey: PubKey(v), Slot: phase0.Slot(slot), ValidatorIndex: phase0.ValidatorIndex(v), CommitteeIndex: 0, CommitteeLength: 4, CommitteesAtSlot: uint64(n.M.P.Committees), ValidatorCommitteeIndex: 1})
		}
	case "foreign-validator":
		// a duty for a validator vouch never asked about, and a nil entry
		x := &apiv1.AttesterDuty{PubKey: PubKey(9999), Slot: phase0.Slot(uint64(opts.Epoch) * n.M.P.SlotsPerEpoch), ValidatorIndex: 9999, CommitteeLength: 1, CommitteesAtSlot: 1}
		out = append(out, x)
	}
	return &api.Response[[]*apiv1.AttesterDuty]{Data: out, Metadata: md()}, nil
}

// ProposerDuties implements eth2client.ProposerDutiesProvider.
func (n *Node) ProposerDuties(ctx context.Context, opts *api.ProposerDutiesOpts) (*api.Response[[]*apiv1.ProposerDuty], error) {
	f := &DutyFetch{Kind: "proposer", Epoch: uint64(opts.Epoch), Indices: toInts(opts.Indices), Inc: simrt.CurrentInc(), Step: simrt.Step(), T: simrt.Now(), Prop: map[uint64]int{}}
	n.H.addFetch(f)
	var early map[uint64]int
	if n.M.P.AnswerAtRequest {
		early = n.M.ProposerTable(uint64(opts.Epoch))
	}
	_, err := n.S.Do(ctx, n.NodeName, "ProposerDuties", nil)
	f.EndStep, f.EndT = simrt.Step(), simrt.Now()
	f.CurSlotAtEnd, f.PreGenesis = n.curSlot()
	if err != nil {
		f.Err = true
		return nil, err
	}
	tab := n.M.ProposerTable(uint64(opts.Epoch))
	if early != nil {
		tab = early
	}
	want := map[int]bool{}
	for _, v := range f.Indices {
		want[v] = true
	}
	var out []*apiv1.ProposerDuty
	slots := make([]uint64, 0, len(tab))
	for s := range tab {
		slots = append(slots, s)
	}
	sort.Slice(slots, func(i, j int) bool { return slots[i] < slots[j] })
	for _, s := range slots {
		v := tab[s]
		if !want[v] {
			continue
		}
		f.Prop[s] = v
		out = append(out, &apiv1.ProposerDuty{PubKey: PubKey(v), Slot: phase0.Slot(s), ValidatorIndex: phase0.ValidatorIndex(v)})
	}
	oddKind := n.odd("ProposerDuties")
	switch oddKind {
	case "other-epoch":
		if len(out) > 0 {
			x := *out[0]
			x.Slot += phase0.Slot(n.M.P.SlotsPerEpoch * 3)
			out = append(out, &x)
		}
	case "empty":
		out = nil
		f.Prop = map[uint64]int{}
	case "nil-data":
		f.Prop = map[uint64]int{}
		return &api.Response[[]*apiv1.ProposerDuty]{Data: nil, Metadata: md()}, nil
	case "duplicate":
		if len(out) > 0 {
			x := *out[0]
			out = append(out, &x)
		}
	case "next-epoch-first", "prev-epoch-last":
		if len(f.Indices) > 0 {
			v := f.Indices[len(f.Indices)-1]
			slot := (uint64(opts.Epoch) + 1) * n.M.P.SlotsPerEpoch
			if oddKind == "prev-epoch-last" {
				if opts.Epoch == 0 {
					break
				}
				slot = uint64(opts.Epoch)*n.M.P.SlotsPerEpoch - 1
			}
			out = append(out, &apiv1.ProposerDuty{PubKey: PubKey(v), Slot: phase0.Slot(slot), ValidatorIndex: phase0.ValidatorIndex(v)})
		}
	case "foreign-validator":
		out = append(out, &apiv1.ProposerDuty{PubKey: PubKey(9999), Slot: phase0.Slot(uint64(opts.Epoch)*n.M.P.SlotsPerEpoch + 1), ValidatorIndex: 9999})
	}
	return &api.Response[[]*apiv1.ProposerDuty]{Data: out, Metadata: md()}, nil
}

// SyncCommitteeDuties implements eth2client.SyncCommitteeDutiesProvider.
func (n *Node) SyncCommitteeDuties(ctx context.Context, opts *api.SyncCommitteeDutiesOpts) (*api.Response[[]*apiv1.SyncCommitteeDuty], error) {
	f := &DutyFetch{Kind: "sync", Epoch: uint64(opts.Epoch), Indices: toInts(opts.Indices), Inc: simrt.CurrentInc(), Step: simrt.Step(), T: simrt.Now(), Sync: map[int][]phase0.CommitteeIndex{}}
	n.H.addFetch(f)
	_, err := n.S.Do(ctx, n.NodeName, "SyncCommitteeDuties", nil)
	f.EndStep, f.EndT = simrt.Step(), simrt.Now()
	f.CurSlotAtEnd, f.PreGenesis = n.curSlot()
	if err != nil {
		f.Err = true
		return nil, err
	}
	tab := n.M.SyncTable(uint64(opts.Epoch))
	var out []*apiv1.SyncCommitteeDuty
	for _, v := range f.Indices {
		pos, ok := tab[v]
		if !ok {
			continue
		}
		f.Sync[v] = pos
		out = append(out, &apiv1.SyncCommitteeDuty{PubKey: PubKey(v), ValidatorIndex: phase0.ValidatorIndex(v), ValidatorSyncCommitteeIndices: append([]phase0.CommitteeIndex{}, pos...)})
	}
	switch n.odd("SyncCommitteeDuties") {
	case "empty":
		out = nil
		f.Sync = map[int][]phase0.CommitteeIndex{}
	case "nil-data":
		f.Sync = map[int][]phase0.CommitteeIndex{}
		return &api.Response[[]*apiv1.SyncCommitteeDuty]{Data: nil, Metadata: md()}, nil
	case "out-of-range":
		if len(out) > 0 {
			out[0].ValidatorSyncCommitteeIndices = append(out[0].ValidatorSyncCommitteeIndices, phase0.CommitteeIndex(n.M.Chain.SyncCommitteeSize+7))
			f.Sync = map[int][]phase0.CommitteeIndex{}
		}
	}
	return &api.Response[[]*apiv1.SyncCommitteeDuty]{Data: out, Metadata: md()}, nil
}

// Events implements eth2client.EventsProvider.
func (n *Node) Events(_ context.Context, topics []string, handler eth2client.EventHandlerFunc) error {
	inc := simrt.CurrentInc()
	simrt.Crit(func() {
		n.regs = append(n.regs, handlerReg{topics: append([]string{}, topics...), handler: handler, inc: inc})
	})
	return nil
}

// Emit delivers an event to every live handler registered for its topic (called by the node's stream task).
func (n *Node) Emit(topic string, data any, liveInc int) {
	var regs []handlerReg
	simrt.Crit(func() { regs = append(regs, n.regs...) })
	for _, r := range regs {
		if r.inc != liveInc {
			continue
		}
		for _, t := range r.topics {
			if t == topic {
				// The handler runs inside the vouch process: give it (and everything it
				// spawns) the incarnation it belongs to; delivery on one stream stays sequential.
				done := make(chan struct{})
				h := r.handler
				var hd *HeadDelivery
				if topic == "head" {
					hd = &HeadDelivery{Inc: r.inc, Node: n.NodeName, Step: simrt.Step(), T: simrt.Now(), Odd: true}
					if he, ok := data.(*apiv1.HeadEvent); ok && he != nil {
						hd.Slot, hd.Cur, hd.Prev = uint64(he.Slot), he.CurrentDutyDependentRoot, he.PreviousDutyDependentRoot
						hd.Odd = uint64(he.Slot) > 1<<39
					}
					simrt.Crit(func() { n.H.Heads = append(n.H.Heads, hd) })
				}
				simrt.GoInc("event-"+topic, r.inc, func() {
					defer close(done)
					h(&apiv1.Event{Topic: topic, Data: data})
				})
				<-done
				if hd != nil {
					simrt.Crit(func() { hd.EndStep, hd.EndT = simrt.Step(), simrt.Now() })
				}
				simrt.Yield("node/emit")
			}
		}
	}
}

// RunStream is the body of the node's event-stream task: one block + head event per slot.
func (n *Node) RunStream(ctx context.Context, first uint64, last uint64, extraDelay time.Duration, liveInc func() int, applyModel bool) {
	for s := first; s < last; s++ {
		at := n.M.Chain.SlotStart(s).Add(n.M.HeadLatency(s) + extraDelay)
		if d := time.Until(at); d > 0 {
			if simrt.Sleep(ctx, d, "node/stream") != nil {
				return
			}
		}
		if applyModel {
			n.M.ApplyReorgsAt(s)
			if n.M.IsMissed(s) {
				simrt.Probe("fault:missed-slot")
				continue
			}
			n.M.ProduceBlock(s)
		} else if n.M.IsMissed(s) {
			continue
		}
		hs, root, ok := n.M.Head()
		if !ok || hs != s {
			continue
		}
		e := s / n.M.P.SlotsPerEpoch
		inc := liveInc()
		if inc == 0 {
			continue
		}
		switch n.odd("BlockEvent") {
		case "nil-data":
			n.Emit("block", nil, inc)
		}
		switch n.odd("HeadEvent") {
		case "nil-data":
			n.Emit("head", nil, inc)
		case "far-future-slot":
			n.Emit("head", &apiv1.HeadEvent{Slot: phase0.Slot(s + 1<<40), Block: root}, inc)
		}
		n.Emit("block", &apiv1.BlockEvent{Slot: phase0.Slot(s), Block: root}, inc)
		n.Emit("head", &apiv1.HeadEvent{
			Slot: phase0.Slot(s), Block: root, State: rootOf("state", root),
			EpochTransition:           s%n.M.P.SlotsPerEpoch == 0,
			CurrentDutyDependentRoot:  n.M.DepRoot(e),
			PreviousDutyDependentRoot: n.M.DepRoot(prevEpoch(e)),
		}, inc)
	}
}

// ---- data for duties

// AttestationData implements eth2client.AttestationDataProvider.
func (n *Node) AttestationData(ctx context.Context, opts *api.AttestationDataOpts) (*api.Response[*phase0.AttestationData], error) {
	if _, err := n.S.Do(ctx, n.NodeName, "AttestationData", opts.Slot); err != nil {
		return nil, err
	}
	_, root, ok := n.M.Head()
	if !ok {
		root = rootOf("genesis-block")
	}
	e := uint64(opts.Slot) / n.M.P.SlotsPerEpoch
	src := uint64(0)
	if e > 0 {
		src = e - 1
	}
	ad := &phase0.AttestationData{
		Slot: opts.Slot, Index: opts.CommitteeIndex, BeaconBlockRoot: root,
		Source: &phase0.Checkpoint{Epoch: phase0.Epoch(src), Root: rootOf("cp", src)},
		Target: &phase0.Checkpoint{Epoch: phase0.Epoch(e), Root: rootOf("cp", e)},
	}
	switch n.odd("AttestationData") {
	case "nil-data":
		return &api.Response[*phase0.AttestationData]{Data: nil, Metadata: md()}, nil
	case "nil-source":
		ad.Source = nil
	case "nil-target":
		ad.Target = nil
	case "wrong-slot":
		ad.Slot++
	case "target-below":
		if e > 0 {
			ad.Target.Epoch--
			ad.Source.Epoch = 0
		}
	case "source-above":
		ad.Source.Epoch = ad.Target.Epoch + 1
	}
	if ad.Source != nil && ad.Target != nil {
		if r, err := ad.HashTreeRoot(); err == nil {
			cp := *ad
			simrt.Crit(func() { n.M.attData[r] = &cp })
		}
	}
	return &api.Response[*phase0.AttestationData]{Data: ad, Metadata: md()}, nil
}

// AggregateAttestation implements eth2client.AggregateAttestationProvider.
func (n *Node) AggregateAttestation(ctx context.Context, opts *api.AggregateAttestationOpts) (*api.Response[*phase0.Attestation], error) {
	if _, err := n.S.Do(ctx, n.NodeName, "AggregateAttestation", opts.Slot); err != nil {
		return nil, err
	}
	var ad *phase0.AttestationData
	simrt.Crit(func() { ad = n.M.attData[opts.AttestationDataRoot] })
	switch n.odd("AggregateAttestation") {
	case "nil-data":
		return &api.Response[*phase0.Attestation]{Data: nil, Metadata: md()}, nil
	case "nil-att-data":
		return &api.Response[*phase0.Attestation]{Data: &phase0.Attestation{AggregationBits: bitfield.NewBitlist(4)}, Metadata: md()}, nil
	case "empty-bits":
		if ad != nil {
			cp := *ad
			return &api.Response[*phase0.Attestation]{Data: &phase0.Attestation{AggregationBits: bitfield.NewBitlist(0), Data: &cp}, Metadata: md()}, nil
		}
	}
	if ad == nil {
		return nil, errors.New("GET failed with status 404: attestation data root unknown")
	}
	bits := bitfield.NewBitlist(8)
	bits.SetBitAt(0, true)
	bits.SetBitAt(1, true)
	cp := *ad
	return &api.Response[*phase0.Attestation]{Data: &phase0.Attestation{AggregationBits: bits, Data: &cp, Signature: phase0.BLSSignature{0xc0}}, Metadata: md()}, nil
}

// BeaconBlockRoot implements eth2client.BeaconBlockRootProvider.
func (n *Node) BeaconBlockRoot(ctx context.Context, opts *api.BeaconBlockRootOpts) (*api.Response[*phase0.Root], error) {
	if _, err := n.S.Do(ctx, n.NodeName, "BeaconBlockRoot", opts.Block); err != nil {
		return nil, err
	}
	if cur, _ := n.curSlot(); true {
		for _, s := range n.M.P.RootFailSlots {
			if s == cur {
				simrt.Probe("fault:BeaconBlockRoot-error")
				return nil, errors.New("GET failed with status 503: syncing")
			}
		}
	}
	_, root, ok := n.M.Head()
	if !ok {
		root = rootOf("genesis-block")
	}
	switch n.odd("BeaconBlockRoot") {
	case "nil-data":
		return &api.Response[*phase0.Root]{Data: nil, Metadata: md()}, nil
	}
	r := root
	simrt.Crit(func() {
		n.H.Roots = append(n.H.Roots, RootAnswer{Inc: simrt.CurrentInc(), Step: simrt.Step(), T: simrt.Now(), Root: root})
	})
	return &api.Response[*phase0.Root]{Data: &r, Metadata: md()}, nil
}

func (n *Node) resolveBlock(id string) (uint64, phase0.Root, bool) {
	if id == "head" {
		return n.M.Head()
	}
	var root phase0.Root
	s := strings.TrimPrefix(id, "0x")
	if len(s) == 64 {
		for i := 0; i < 32; i++ {
			var b byte
			fmt.Sscanf(s[2*i:2*i+2], "%02x", &b)
			root[i] = b
		}
		slot, ok := n.M.SlotOfRoot(root)
		return slot, root, ok
	}
	return 0, root, false
}

// BeaconBlockHeader implements eth2client.BeaconBlockHeadersProvider.
func (n *Node) BeaconBlockHeader(ctx context.Context, opts *api.BeaconBlockHeaderOpts) (*api.Response[*apiv1.BeaconBlockHeader], error) {
	if _, err := n.S.Do(ctx, n.NodeName, "BeaconBlockHeader", opts.Block); err != nil {
		return nil, err
	}
	slot, root, ok := n.resolveBlock(opts.Block)
	switch n.odd("BeaconBlockHeader") {
	case "nil-data":
		return &api.Response[*apiv1.BeaconBlockHeader]{Data: nil, Metadata: md()}, nil
	case "nil-header":
		return &api.Response[*apiv1.BeaconBlockHeader]{Data: &apiv1.BeaconBlockHeader{Root: root}, Metadata: md()}, nil
	}
	if !ok {
		return nil, errors.New("GET failed with status 404: block not found")
	}
	return &api.Response[*apiv1.BeaconBlockHeader]{Data: &apiv1.BeaconBlockHeader{Root: root, Canonical: true,
		Header: &phase0.SignedBeaconBlockHeader{Message: &phase0.BeaconBlockHeader{Slot: phase0.Slot(slot), ParentRoot: rootOf("parent", root), StateRoot: rootOf("state", root), BodyRoot: rootOf("body", root)}}}, Metadata: md()}, nil
}

func (n *Node) capellaBlock(slot uint64, proposer int, randao phase0.BLSSignature, graffiti [32]byte) *capella.BeaconBlock {
	_, parent, _ := n.M.Head()
	return &capella.BeaconBlock{
		Slot: phase0.Slot(slot), ProposerIndex: phase0.ValidatorIndex(proposer), ParentRoot: parent, StateRoot: rootOf("poststate", slot, parent),
		Body: &capella.BeaconBlockBody{
			RANDAOReveal:     randao,
			ETH1Data:         &phase0.ETH1Data{DepositRoot: rootOf("dep"), BlockHash: make([]byte, 32)},
			Graffiti:         graffiti,
			SyncAggregate:    &altair.SyncAggregate{SyncCommitteeBits: bitfield.NewBitvector512(), SyncCommitteeSignature: phase0.BLSSignature{0xc0}},
			ExecutionPayload: &capella.ExecutionPayload{FeeRecipient: bellatrix.ExecutionAddress{1, 2, 3}, ExtraData: []byte{}, BaseFeePerGas: [32]byte{1}, Transactions: []bellatrix.Transaction{}, Withdrawals: []*capella.Withdrawal{}},
		},
	}
}

// Proposal implements eth2client.ProposalProvider.
func (n *Node) Proposal(ctx context.Context, opts *api.ProposalOpts) (*api.Response[*api.VersionedProposal], error) {
	if _, err := n.S.Do(ctx, n.NodeName, "Proposal", opts.Slot); err != nil {
		return nil, err
	}
	e := uint64(opts.Slot) / n.M.P.SlotsPerEpoch
	prop := n.M.ProposerTable(e)[uint64(opts.Slot)]
	blk := n.capellaBlock(uint64(opts.Slot), prop, opts.RandaoReveal, opts.Graffiti)
	vp := &api.VersionedProposal{Version: spec.DataVersionCapella, Capella: blk, ConsensusValue: big.NewInt(1), ExecutionValue: big.NewInt(1)}
	switch n.odd("Proposal") {
	case "nil-data":
		return &api.Response[*api.VersionedProposal]{Data: nil, Metadata: md()}, nil
	case "wrong-slot":
		blk.Slot++
	case "nil-block":
		vp.Capella = nil
	case "nil-values":
		vp.ConsensusValue, vp.ExecutionValue = nil, nil
	case "blinded-no-auction":
		vp.Blinded = true
	case "nil-body":
		blk.Body = nil
	}
	return &api.Response[*api.VersionedProposal]{Data: vp, Metadata: md()}, nil
}

// SignedBeaconBlock implements eth2client.SignedBeaconBlockProvider.
func (n *Node) SignedBeaconBlock(ctx context.Context, opts *api.SignedBeaconBlockOpts) (*api.Response[*spec.VersionedSignedBeaconBlock], error) {
	if _, err := n.S.Do(ctx, n.NodeName, "SignedBeaconBlock", opts.Block); err != nil {
		return nil, err
	}
	slot, _, ok := n.resolveBlock(opts.Block)
	switch n.odd("SignedBeaconBlock") {
	case "nil-data":
		return &api.Response[*spec.VersionedSignedBeaconBlock]{Data: nil, Metadata: md()}, nil
	case "nil-block":
		return &api.Response[*spec.VersionedSignedBeaconBlock]{Data: &spec.VersionedSignedBeaconBlock{Version: spec.DataVersionCapella}, Metadata: md()}, nil
	}
	if !ok {
		return nil, errors.New("GET failed with status 404: block not found")
	}
	e := slot / n.M.P.SlotsPerEpoch
	blk := n.capellaBlock(slot, n.M.ProposerTable(e)[slot], phase0.BLSSignature{}, [32]byte{})
	return &api.Response[*spec.VersionedSignedBeaconBlock]{Data: &spec.VersionedSignedBeaconBlock{Version: spec.DataVersionCapella, Capella: &capella.SignedBeaconBlock{Message: blk}}, Metadata: md()}, nil
}

// SyncCommitteeContribution implements eth2client.SyncCommitteeContributionProvider.
func (n *Node) SyncCommitteeContribution(ctx context.Context, opts *api.SyncCommitteeContributionOpts) (*api.Response[*altair.SyncCommitteeContribution], error) {
	if _, err := n.S.Do(ctx, n.NodeName, "SyncCommitteeContribution", opts.Slot); err != nil {
		return nil, err
	}
	switch n.odd("SyncCommitteeContribution") {
	case "nil-data":
		return &api.Response[*altair.SyncCommitteeContribution]{Data: nil, Metadata: md()}, nil
	}
	bits := bitfield.NewBitvector128()
	bits.SetBitAt(0, true)
	return &api.Response[*altair.SyncCommitteeContribution]{Data: &altair.SyncCommitteeContribution{Slot: opts.Slot, BeaconBlockRoot: opts.BeaconBlockRoot, SubcommitteeIndex: opts.SubcommitteeIndex, AggregationBits: bits, Signature: phase0.BLSSignature{0xc0}}, Metadata: md()}, nil
}

// ---- submissions

func (n *Node) submit(ctx context.Context, kind string, obj any) error {
	if !simrt.IncAlive() {
		return context.Canceled
	}
	if _, err := n.S.Do(ctx, n.NodeName, "Submit"+kind, nil); err != nil {
		return err
	}
	n.H.addSub(&Submission{Kind: kind, Inc: simrt.CurrentInc(), Step: simrt.Step(), T: simrt.Now(), Node: n.NodeName, Obj: obj})
	return nil
}

func (n *Node) SubmitAttestations(ctx context.Context, a []*phase0.Attestation) error {
	return n.submit(ctx, "Attestations", a)
}
func (n *Node) SubmitAggregateAttestations(ctx context.Context, a []*phase0.SignedAggregateAndProof) error {
	return n.submit(ctx, "AggregateAttestations", a)
}
func (n *Node) SubmitProposal(ctx context.Context, opts *api.SubmitProposalOpts) error {
	return n.submit(ctx, "Proposal", opts.Proposal)
}
func (n *Node) SubmitBeaconCommitteeSubscriptions(ctx context.Context, s []*apiv1.BeaconCommitteeSubscription) error {
	return n.submit(ctx, "BeaconCommitteeSubscriptions", s)
}
func (n *Node) SubmitSyncCommitteeMessages(ctx context.Context, m []*altair.SyncCommitteeMessage) error {
	return n.submit(ctx, "SyncCommitteeMessages", m)
}
func (n *Node) SubmitSyncCommitteeContributions(ctx context.Context, c []*altair.SignedContributionAndProof) error {
	return n.submit(ctx, "SyncCommitteeContributions", c)
}
func (n *Node) SubmitSyncCommitteeSubscriptions(ctx context.Context, s []*apiv1.SyncCommitteeSubscription) error {
	return n.submit(ctx, "SyncCommitteeSubscriptions", s)
}
func (n *Node) SubmitProposalPreparations(ctx context.Context, p []*apiv1.ProposalPreparation) error {
	return n.submit(ctx, "ProposalPreparations", p)
}
