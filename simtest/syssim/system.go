package syssim

import (
	"context"
	"fmt"
	"sort"
	"time"

	eth2client "github.com/attestantio/go-eth2-client"
	"github.com/attestantio/go-eth2-client/spec/altair"
	"github.com/attestantio/go-eth2-client/spec/phase0"
	"github.com/attestantio/vouch/services/attestationaggregator"
	standardattestationaggregator "github.com/attestantio/vouch/services/attestationaggregator/standard"
	"github.com/attestantio/vouch/services/attester"
	standardattester "github.com/attestantio/vouch/services/attester/standard"
	"github.com/attestantio/vouch/services/beaconblockproposer"
	standardbeaconblockproposer "github.com/attestantio/vouch/services/beaconblockproposer/standard"
	"github.com/attestantio/vouch/services/beaconcommitteesubscriber"
	standardbeaconcommitteesubscriber "github.com/attestantio/vouch/services/beaconcommitteesubscriber/standard"
	standardcache "github.com/attestantio/vouch/services/cache/standard"
	"github.com/attestantio/vouch/services/chaintime"
	standardcontroller "github.com/attestantio/vouch/services/controller/standard"
	staticgraffiti "github.com/attestantio/vouch/services/graffitiprovider/static"
	nullmetrics "github.com/attestantio/vouch/services/metrics/null"
	"github.com/attestantio/vouch/services/scheduler"
	advancedscheduler "github.com/attestantio/vouch/services/scheduler/advanced"
	standardsigner "github.com/attestantio/vouch/services/signer/standard"
	"github.com/attestantio/vouch/services/submitter"
	immediatesubmitter "github.com/attestantio/vouch/services/submitter/immediate"
	multinodesubmitter "github.com/attestantio/vouch/services/submitter/multinode"
	"github.com/attestantio/vouch/services/synccommitteeaggregator"
	standardsynccommitteeaggregator "github.com/attestantio/vouch/services/synccommitteeaggregator/standard"
	"github.com/attestantio/vouch/services/synccommitteemessenger"
	standardsynccommitteemessenger "github.com/attestantio/vouch/services/synccommitteemessenger/standard"
	standardsynccommitteesubscriber "github.com/attestantio/vouch/services/synccommitteesubscriber/standard"
	bestattestationdata "github.com/attestantio/vouch/strategies/attestationdata/best"
	firstattestationdata "github.com/attestantio/vouch/strategies/attestationdata/first"
	"github.com/rs/zerolog"
	e2wtypes "github.com/wealdtech/go-eth2-wallet-types/v2"

	"verif/simrt"
	. "verif/simtest/env"
)

// Invocation records a call of a duty service (focused variant) or a job function.
type Invocation struct {
	Kind       string // attest | propose | prepare-proposal | sync-prepare | sync-message | aggregate | sync-aggregate
	Slot       uint64
	Validators []int
	Inc        int
	Step       int
	T          time.Duration
	EndStep    int
	EndT       time.Duration // attest: when the attestation process returned
	Committees map[int]int // validator -> committee index (attest)
}

// JobEvent records a scheduler call made by vouch through the recording decorator.
type JobEvent struct {
	Op    string // schedule | cancel | run | start | end
	Name  string
	Class string
	At    time.Time
	Step  int
	T     time.Duration
	Inc   int
	Err   bool
}

// Record is everything observed in one run.
type Record struct {
	Plan        *Plan
	Model       *Model
	H           *History
	Signer      *SignerLog
	Invocations []*Invocation
	Jobs        []*JobEvent
	Incs        []*Incarnation
	BuildErrors []string
	Script      *Script
}

// Incarnation is one life of the vouch process.
type Incarnation struct {
	N          int
	Start, End time.Duration // simulated (End = -1 while alive)
	StartStep  int
	Sys        *System
}

func (r *Record) addInv(i *Invocation) {
	simrt.Crit(func() { r.Invocations = append(r.Invocations, i) })
}
func (r *Record) addJob(j *JobEvent) { simrt.Crit(func() { r.Jobs = append(r.Jobs, j) }) }

// Invs returns the invocations of one kind.
func (r *Record) Invs(kind string) []*Invocation {
	var out []*Invocation
	simrt.Crit(func() {
		for _, i := range r.Invocations {
			if i.Kind == kind {
				out = append(out, i)
			}
		}
	})
	return out
}

// ---- accounts

type accountsProvider struct {
	m    *Model
	accs map[int]e2wtypes.Account
}

func (a *accountsProvider) pick(indices []phase0.ValidatorIndex) map[phase0.ValidatorIndex]e2wtypes.Account {
	out := map[phase0.ValidatorIndex]e2wtypes.Account{}
	if indices == nil {
		for v, acc := range a.accs {
			out[phase0.ValidatorIndex(v)] = acc
		}
		return out
	}
	for _, v := range indices {
		if acc, ok := a.accs[int(v)]; ok {
			out[v] = acc
		}
	}
	return out
}
// active drops the validators that have exited.
func (a *accountsProvider) active(in map[phase0.ValidatorIndex]e2wtypes.Account) map[phase0.ValidatorIndex]e2wtypes.Account {
	for _, v := range a.m.P.Exited {
		delete(in, phase0.ValidatorIndex(v))
	}
	return in
}
func (a *accountsProvider) ValidatingAccountsForEpoch(_ context.Context, _ phase0.Epoch) (map[phase0.ValidatorIndex]e2wtypes.Account, error) {
	simrt.Yield("accounts/forEpoch")
	return a.active(a.pick(nil)), nil
}
func (a *accountsProvider) ValidatingAccountsForEpochByIndex(_ context.Context, _ phase0.Epoch, indices []phase0.ValidatorIndex) (map[phase0.ValidatorIndex]e2wtypes.Account, error) {
	simrt.Yield("accounts/forEpochByIndex")
	if indices == nil {
		indices = []phase0.ValidatorIndex{}
	}
	return a.active(a.pick(indices)), nil
}
func (a *accountsProvider) SyncCommitteeAccountsForEpoch(_ context.Context, _ phase0.Epoch) (map[phase0.ValidatorIndex]e2wtypes.Account, error) {
	simrt.Yield("accounts/syncForEpoch")
	return a.pick(nil), nil
}
func (a *accountsProvider) SyncCommitteeAccountsForEpochByIndex(_ context.Context, _ phase0.Epoch, indices []phase0.ValidatorIndex) (map[phase0.ValidatorIndex]e2wtypes.Account, error) {
	simrt.Yield("accounts/syncForEpochByIndex")
	if indices == nil {
		indices = []phase0.ValidatorIndex{}
	}
	out := a.pick(indices)
	if a.m.P.HideSync {
		if _, ok := out[phase0.ValidatorIndex(a.m.P.HideSyncAccount)]; ok {
			delete(out, phase0.ValidatorIndex(a.m.P.HideSyncAccount))
			simrt.Probe("fault:sync-member-without-account")
		}
	}
	return out, nil
}
func (a *accountsProvider) Refresh(_ context.Context) { simrt.Yield("accounts/refresh") }

// ---- recording scheduler decorator (the scheduler.Service interface is the seam)

type recScheduler struct {
	inner scheduler.Service
	r     *Record
	// stallPct: fault kind "stalled goroutine" - after a ScheduleJob call returns, the calling
	// goroutine is held for a while (a goroutine that is runnable but does not get the CPU cannot
	// otherwise exist here: simulated time only advances when every task is blocked)
	stallPct int
	slot     time.Duration
}

func (s *recScheduler) ev(op, class, name string, at time.Time, err error) {
	s.r.addJob(&JobEvent{Op: op, Name: name, Class: class, At: at, Step: simrt.Step(), T: simrt.Now(), Inc: simrt.CurrentInc(), Err: err != nil})
}
func (s *recScheduler) ScheduleJob(ctx context.Context, class, name string, at time.Time, job scheduler.JobFunc) error {
	wrapped := func(ctx context.Context) {
		s.ev("start", class, name, at, nil)
		job(ctx)
		s.ev("end", class, name, at, nil)
	}
	// recorded before the call: a job that is already due may start before ScheduleJob returns
	ev := &JobEvent{Op: "schedule", Name: name, Class: class, At: at, Step: simrt.Step(), T: simrt.Now(), Inc: simrt.CurrentInc()}
	s.r.addJob(ev)
	err := s.inner.ScheduleJob(ctx, class, name, at, wrapped)
	if err != nil {
		simrt.Crit(func() { ev.Err = true })
	}
	if s.stallPct > 0 && simrt.Draw(100) < s.stallPct {
		simrt.Probe("fault:goroutine-stalled-after-schedule")
		_ = simrt.Sleep(ctx, []time.Duration{time.Millisecond, s.slot / 3, s.slot, 2 * s.slot}[simrt.Draw(4)], "syssim/stall")
	}
	return err
}
func (s *recScheduler) SchedulePeriodicJob(ctx context.Context, class, name string, rt scheduler.RuntimeFunc, job scheduler.JobFunc) error {
	return s.inner.SchedulePeriodicJob(ctx, class, name, rt, job)
}
func (s *recScheduler) CancelJob(ctx context.Context, name string) error {
	err := s.inner.CancelJob(ctx, name)
	s.ev("cancel", "", name, time.Time{}, err)
	return err
}
func (s *recScheduler) CancelJobIfExists(ctx context.Context, name string) {
	s.inner.CancelJobIfExists(ctx, name)
	s.ev("cancel", "", name, time.Time{}, nil)
}
func (s *recScheduler) CancelJobs(ctx context.Context, prefix string) {
	s.inner.CancelJobs(ctx, prefix)
}
func (s *recScheduler) RunJob(ctx context.Context, name string) error {
	err := s.inner.RunJob(ctx, name)
	s.ev("run", "", name, time.Time{}, err)
	return err
}
func (s *recScheduler) JobExists(ctx context.Context, name string) bool {
	return s.inner.JobExists(ctx, name)
}
func (s *recScheduler) RunJobIfExists(ctx context.Context, name string) {
	s.inner.RunJobIfExists(ctx, name)
	s.ev("run", "", name, time.Time{}, nil)
}
func (s *recScheduler) ListJobs(ctx context.Context) []string { return s.inner.ListJobs(ctx) }

// ---- recorders for the focused variant

type recAttester struct {
	r     *Record
	inner attester.Service
}

func (a *recAttester) Attest(ctx context.Context, duty *attester.Duty) ([]*phase0.Attestation, error) {
	inv := &Invocation{Kind: "attest", Slot: uint64(duty.Slot()), Inc: simrt.CurrentInc(), Step: simrt.Step(), T: simrt.Now(), Committees: map[int]int{}}
	for i, v := range duty.ValidatorIndices() {
		inv.Validators = append(inv.Validators, int(v))
		inv.Committees[int(v)] = int(duty.CommitteeIndices()[i])
	}
	sort.Ints(inv.Validators)
	a.r.addInv(inv)
	if a.inner != nil {
		res, err := a.inner.Attest(ctx, duty)
		inv.EndStep, inv.EndT = simrt.Step(), simrt.Now()
		return res, err
	}
	d := 300 * time.Millisecond
	if a.r.Plan.AttestTakes > 0 {
		d = a.r.Plan.AttestTakes // slow node, slow signer
	}
	simrt.Sleep(ctx, d, "rec/attest")
	inv.EndStep, inv.EndT = simrt.Step(), simrt.Now()
	return nil, nil
}

type recProposer struct {
	r     *Record
	inner beaconblockproposer.Service
}

func (p *recProposer) Prepare(ctx context.Context, duty *beaconblockproposer.Duty) error {
	p.r.addInv(&Invocation{Kind: "prepare-proposal", Slot: uint64(duty.Slot()), Validators: []int{int(duty.ValidatorIndex())}, Inc: simrt.CurrentInc(), Step: simrt.Step(), T: simrt.Now()})
	if p.inner != nil {
		return p.inner.Prepare(ctx, duty)
	}
	simrt.Yield("rec/prepare")
	return nil
}
func (p *recProposer) Propose(ctx context.Context, duty *beaconblockproposer.Duty) {
	inv := &Invocation{Kind: "propose", Slot: uint64(duty.Slot()), Validators: []int{int(duty.ValidatorIndex())}, Inc: simrt.CurrentInc(), Step: simrt.Step(), T: simrt.Now()}
	p.r.addInv(inv)
	if p.inner != nil {
		p.inner.Propose(ctx, duty)
		inv.EndStep = simrt.Step()
		return
	}
	d := 500 * time.Millisecond
	if p.r.Plan.ProposeTakes > 0 {
		d = p.r.Plan.ProposeTakes // auction, unblinding and a slow node can make a proposal take seconds
	}
	simrt.Sleep(ctx, d, "rec/propose")
	inv.EndStep = simrt.Step()
}

type recSyncMessenger struct {
	r     *Record
	inner synccommitteemessenger.Service
}

func syncVals(duty *synccommitteemessenger.Duty) []int {
	var out []int
	for _, v := range duty.ValidatorIndices() {
		out = append(out, int(v))
	}
	sort.Ints(out)
	return out
}
func (m *recSyncMessenger) Prepare(ctx context.Context, duty *synccommitteemessenger.Duty) error {
	inv := &Invocation{Kind: "sync-prepare", Slot: uint64(duty.Slot()), Validators: syncVals(duty), Inc: simrt.CurrentInc(), Step: simrt.Step(), T: simrt.Now()}
	m.r.addInv(inv)
	if m.inner != nil {
		err := m.inner.Prepare(ctx, duty)
		if err == nil {
			inv.EndStep, inv.EndT = simrt.Step(), simrt.Now()
		}
		return err
	}
	simrt.Yield("rec/syncprepare")
	return nil
}
func (m *recSyncMessenger) Message(ctx context.Context, duty *synccommitteemessenger.Duty) ([]*altair.SyncCommitteeMessage, error) {
	inv := &Invocation{Kind: "sync-message", Slot: uint64(duty.Slot()), Validators: syncVals(duty), Inc: simrt.CurrentInc(), Step: simrt.Step(), T: simrt.Now()}
	m.r.addInv(inv)
	if m.inner != nil {
		res, err := m.inner.Message(ctx, duty)
		inv.EndStep = simrt.Step()
		return res, err
	}
	simrt.Sleep(ctx, 200*time.Millisecond, "rec/syncmessage")
	inv.EndStep = simrt.Step()
	return nil, nil
}
func (m *recSyncMessenger) GetDataUsedForSlot(slot phase0.Slot) (synccommitteemessenger.SlotData, bool) {
	if m.inner != nil {
		return m.inner.GetDataUsedForSlot(slot)
	}
	return synccommitteemessenger.SlotData{}, false
}
func (m *recSyncMessenger) RemoveHistoricDataUsedForSlotVerification(slot phase0.Slot) {
	if m.inner != nil {
		m.inner.RemoveHistoricDataUsedForSlotVerification(slot)
	}
}

type recSyncAggregator struct {
	r     *Record
	inner synccommitteeaggregator.Service
}

func (a *recSyncAggregator) SetBeaconBlockRoot(slot phase0.Slot, root phase0.Root) {
	if a.inner != nil {
		a.inner.SetBeaconBlockRoot(slot, root)
	}
}
func (a *recSyncAggregator) Aggregate(ctx context.Context, duty *synccommitteeaggregator.Duty) {
	inv := &Invocation{Kind: "sync-aggregate", Slot: uint64(duty.Slot), Inc: simrt.CurrentInc(), Step: simrt.Step(), T: simrt.Now()}
	for _, v := range duty.ValidatorIndices {
		inv.Validators = append(inv.Validators, int(v))
	}
	sort.Ints(inv.Validators)
	a.r.addInv(inv)
	if a.inner != nil {
		a.inner.Aggregate(ctx, duty)
		return
	}
	simrt.Yield("rec/syncaggregate")
}

type recAggregator struct {
	r     *Record
	inner attestationaggregator.Service
}

func (a *recAggregator) Aggregate(ctx context.Context, d *attestationaggregator.Duty) {
	a.r.addInv(&Invocation{Kind: "aggregate", Slot: uint64(d.Slot), Validators: []int{int(d.ValidatorIndex)}, Inc: simrt.CurrentInc(), Step: simrt.Step(), T: simrt.Now()})
	if a.inner != nil {
		a.inner.Aggregate(ctx, d)
		return
	}
	simrt.Yield("rec/aggregate")
}
func (a *recAggregator) AggregatorsAndSignatures(ctx context.Context, accounts []e2wtypes.Account, slot phase0.Slot, sizes []uint64) ([]phase0.BLSSignature, []bool, error) {
	if a.inner != nil {
		return a.inner.AggregatorsAndSignatures(ctx, accounts, slot, sizes)
	}
	return make([]phase0.BLSSignature, len(accounts)), make([]bool, len(accounts)), nil
}

type recCommitteeSubscriber struct{ r *Record }

func (c *recCommitteeSubscriber) Subscribe(_ context.Context, epoch phase0.Epoch, _ map[phase0.ValidatorIndex]e2wtypes.Account) (map[phase0.Slot]map[phase0.CommitteeIndex]*beaconcommitteesubscriber.Subscription, error) {
	c.r.addInv(&Invocation{Kind: "committee-subscribe", Slot: uint64(epoch), Inc: simrt.CurrentInc(), Step: simrt.Step(), T: simrt.Now()})
	simrt.Yield("rec/subscribe")
	return map[phase0.Slot]map[phase0.CommitteeIndex]*beaconcommitteesubscriber.Subscription{}, nil
}

type recPreparer struct{ r *Record }

func (p *recPreparer) UpdatePreparations(_ context.Context) error {
	simrt.Yield("rec/preparations")
	return nil
}

type blockToSlot struct{}

func (blockToSlot) SetBlockRootToSlot(_ phase0.Root, _ phase0.Slot) {}

type multiEvents struct{ nodes []*Node }

func (m *multiEvents) Events(ctx context.Context, topics []string, handler eth2client.EventHandlerFunc) error {
	for _, n := range m.nodes {
		if err := n.Events(ctx, topics, handler); err != nil {
			return err
		}
	}
	return nil
}

type execHead struct{}

func (execHead) ExecutionChainHead(_ context.Context) (phase0.Hash32, uint64) {
	return phase0.Hash32{}, 0
}

// System is one incarnation's set of real services.
type System struct {
	Ctx            context.Context
	Cancel         context.CancelFunc
	ChainTime      chaintime.Service
	Scheduler      *advancedscheduler.Service
	Controller     *standardcontroller.Service
	Attester       *standardattester.Service
	Messenger      *standardsynccommitteemessenger.Service
	SyncAggregator *standardsynccommitteeaggregator.Service
	Cache          *standardcache.Service
	Accounts       *accountsProvider
}

// Build wires one incarnation.  waitedForGenesis mirrors main.go.
func Build(ctx context.Context, rec *Record, nodes []*Node, waitedForGenesis bool) (*System, error) {
	p := rec.Plan
	m := rec.Model
	mon := nullmetrics.New()
	lvl := zerolog.Disabled
	sys := &System{}
	sys.Ctx, sys.Cancel = context.WithCancel(ctx)
	ctx = sys.Ctx
	n0 := nodes[0]
	sys.ChainTime = NewChainTime(ctx, m.Chain)
	var err error
	sys.Scheduler, err = advancedscheduler.New(ctx, advancedscheduler.WithLogLevel(lvl), advancedscheduler.WithMonitor(mon))
	if err != nil {
		return nil, err
	}
	sched := &recScheduler{inner: sys.Scheduler, r: rec, stallPct: p.StallAfterSchedulePct, slot: time.Duration(p.SecondsPerSlot) * time.Second}
	accs := &accountsProvider{m: m, accs: map[int]e2wtypes.Account{}}
	for _, v := range p.Ours {
		accs.accs[v] = NewAccount(rec.Signer, AccountKind(p.AccountKind), v, fmt.Sprintf("Wallet/Account %d", v))
	}
	sys.Accounts = accs

	var attSvc attester.Service
	var propSvc beaconblockproposer.Service
	var aggSvc attestationaggregator.Service
	var subSvc beaconcommitteesubscriber.Service
	var msgSvc synccommitteemessenger.Service
	var syncAggSvc synccommitteeaggregator.Service
	var setter interface {
		SetBlockRootToSlot(phase0.Root, phase0.Slot)
	} = blockToSlot{}
	syncSubSvc, err := standardsynccommitteesubscriber.New(ctx, standardsynccommitteesubscriber.WithLogLevel(lvl), standardsynccommitteesubscriber.WithMonitor(mon), standardsynccommitteesubscriber.WithSyncCommitteeSubmitter(n0))
	if err != nil {
		return nil, err
	}
	events := &multiEvents{nodes: nodes}
	if p.Focused {
		attSvc, propSvc, aggSvc, subSvc = &recAttester{r: rec}, &recProposer{r: rec}, &recAggregator{r: rec}, &recCommitteeSubscriber{rec}
		msgSvc, syncAggSvc = &recSyncMessenger{r: rec}, &recSyncAggregator{r: rec}
	} else {
		signerSvc, err := standardsigner.New(ctx, standardsigner.WithLogLevel(lvl), standardsigner.WithMonitor(mon), standardsigner.WithClientMonitor(mon), standardsigner.WithSpecProvider(n0), standardsigner.WithDomainProvider(n0))
		if err != nil {
			return nil, err
		}
		var sub submitter.Service
		if p.Multinode {
			asMap := func() map[string]*Node {
				out := map[string]*Node{}
				for _, n := range nodes {
					out[n.NodeName] = n
				}
				return out
			}
			mk := asMap()
			att := map[string]eth2client.AttestationsSubmitter{}
			prop := map[string]eth2client.ProposalSubmitter{}
			agg := map[string]eth2client.AggregateAttestationsSubmitter{}
			bcs := map[string]eth2client.BeaconCommitteeSubscriptionsSubmitter{}
			scm := map[string]eth2client.SyncCommitteeMessagesSubmitter{}
			scc := map[string]eth2client.SyncCommitteeContributionsSubmitter{}
			scs := map[string]eth2client.SyncCommitteeSubscriptionsSubmitter{}
			pps := map[string]eth2client.ProposalPreparationsSubmitter{}
			for k, n := range mk {
				att[k], prop[k], agg[k], bcs[k], scm[k], scc[k], scs[k], pps[k] = n, n, n, n, n, n, n, n
			}
			sub, err = multinodesubmitter.New(ctx, multinodesubmitter.WithLogLevel(lvl), multinodesubmitter.WithClientMonitor(mon), multinodesubmitter.WithProcessConcurrency(4), multinodesubmitter.WithTimeout(2*time.Second),
				multinodesubmitter.WithAttestationsSubmitters(att), multinodesubmitter.WithProposalSubmitters(prop), multinodesubmitter.WithAggregateAttestationsSubmitters(agg),
				multinodesubmitter.WithBeaconCommitteeSubscriptionsSubmitters(bcs), multinodesubmitter.WithSyncCommitteeMessagesSubmitters(scm), multinodesubmitter.WithSyncCommitteeContributionsSubmitters(scc),
				multinodesubmitter.WithSyncCommitteeSubscriptionsSubmitters(scs), multinodesubmitter.WithProposalPreparationsSubmitters(pps))
		} else {
			sub, err = immediatesubmitter.New(ctx, immediatesubmitter.WithLogLevel(lvl), immediatesubmitter.WithClientMonitor(mon), immediatesubmitter.WithAttestationsSubmitter(n0), immediatesubmitter.WithProposalSubmitter(n0),
				immediatesubmitter.WithAggregateAttestationsSubmitter(n0), immediatesubmitter.WithBeaconCommitteeSubscriptionsSubmitter(n0), immediatesubmitter.WithSyncCommitteeMessagesSubmitter(n0),
				immediatesubmitter.WithSyncCommitteeContributionsSubmitter(n0), immediatesubmitter.WithSyncCommitteeSubscriptionsSubmitter(n0), immediatesubmitter.WithProposalPreparationsSubmitter(n0))
		}
		if err != nil {
			return nil, err
		}
		sys.Cache, err = standardcache.New(ctx, standardcache.WithLogLevel(lvl), standardcache.WithMonitor(mon), standardcache.WithSignedBeaconBlockProvider(n0), standardcache.WithBeaconBlockHeadersProvider(n0),
			standardcache.WithEventsProvider(events), standardcache.WithScheduler(sys.Scheduler), standardcache.WithChainTime(sys.ChainTime))
		if err != nil {
			return nil, err
		}
		setter = sys.Cache
		var dataProvider eth2client.AttestationDataProvider = n0
		switch p.DataStrategy {
		case "first":
			provs := map[string]eth2client.AttestationDataProvider{}
			for _, n := range nodes {
				provs[n.NodeName] = n
			}
			dataProvider, err = firstattestationdata.New(ctx, firstattestationdata.WithLogLevel(lvl), firstattestationdata.WithClientMonitor(mon), firstattestationdata.WithTimeout(2*time.Second), firstattestationdata.WithAttestationDataProviders(provs))
			if err != nil {
				return nil, err
			}
		case "best":
			provs := map[string]eth2client.AttestationDataProvider{}
			for _, n := range nodes {
				provs[n.NodeName] = n
			}
			dataProvider, err = bestattestationdata.New(ctx, bestattestationdata.WithLogLevel(lvl), bestattestationdata.WithClientMonitor(mon), bestattestationdata.WithTimeout(2*time.Second), bestattestationdata.WithProcessConcurrency(4),
				bestattestationdata.WithAttestationDataProviders(provs), bestattestationdata.WithChainTime(sys.ChainTime), bestattestationdata.WithBlockRootToSlotCache(sys.Cache))
			if err != nil {
				return nil, err
			}
		}
		sys.Attester, err = standardattester.New(ctx, standardattester.WithLogLevel(lvl), standardattester.WithProcessConcurrency(4), standardattester.WithChainTime(sys.ChainTime), standardattester.WithSpecProvider(n0),
			standardattester.WithAttestationDataProvider(dataProvider), standardattester.WithAttestationsSubmitter(sub.(submitter.AttestationsSubmitter)), standardattester.WithMonitor(mon),
			standardattester.WithValidatingAccountsProvider(accs), standardattester.WithBeaconAttestationsSigner(signerSvc))
		if err != nil {
			return nil, err
		}
		attSvc = &recAttester{r: rec, inner: sys.Attester}
		agg, err := standardattestationaggregator.New(ctx, standardattestationaggregator.WithLogLevel(lvl), standardattestationaggregator.WithSpecProvider(n0), standardattestationaggregator.WithMonitor(mon),
			standardattestationaggregator.WithValidatingAccountsProvider(accs), standardattestationaggregator.WithAggregateAttestationProvider(n0),
			standardattestationaggregator.WithAggregateAttestationsSubmitter(sub.(submitter.AggregateAttestationsSubmitter)), standardattestationaggregator.WithSlotSelectionSigner(signerSvc),
			standardattestationaggregator.WithAggregateAndProofSigner(signerSvc), standardattestationaggregator.WithChainTime(sys.ChainTime))
		if err != nil {
			return nil, err
		}
		aggSvc = &recAggregator{r: rec, inner: agg}
		subSvc, err = standardbeaconcommitteesubscriber.New(ctx, standardbeaconcommitteesubscriber.WithLogLevel(lvl), standardbeaconcommitteesubscriber.WithProcessConcurrency(4), standardbeaconcommitteesubscriber.WithMonitor(mon),
			standardbeaconcommitteesubscriber.WithChainTimeService(sys.ChainTime), standardbeaconcommitteesubscriber.WithAttesterDutiesProvider(SubscriberView{n0}), standardbeaconcommitteesubscriber.WithAttestationAggregator(agg),
			standardbeaconcommitteesubscriber.WithBeaconCommitteeSubmitter(sub.(submitter.BeaconCommitteeSubscriptionsSubmitter)))
		if err != nil {
			return nil, err
		}
		sys.SyncAggregator, err = standardsynccommitteeaggregator.New(ctx, standardsynccommitteeaggregator.WithLogLevel(lvl), standardsynccommitteeaggregator.WithMonitor(mon), standardsynccommitteeaggregator.WithSpecProvider(n0),
			standardsynccommitteeaggregator.WithBeaconBlockRootProvider(n0), standardsynccommitteeaggregator.WithContributionAndProofSigner(signerSvc), standardsynccommitteeaggregator.WithValidatingAccountsProvider(accs),
			standardsynccommitteeaggregator.WithSyncCommitteeContributionProvider(n0), standardsynccommitteeaggregator.WithSyncCommitteeContributionsSubmitter(sub.(submitter.SyncCommitteeContributionsSubmitter)),
			standardsynccommitteeaggregator.WithChainTime(sys.ChainTime))
		if err != nil {
			return nil, err
		}
		syncAggSvc = &recSyncAggregator{r: rec, inner: sys.SyncAggregator}
		sys.Messenger, err = standardsynccommitteemessenger.New(ctx, standardsynccommitteemessenger.WithLogLevel(lvl), standardsynccommitteemessenger.WithProcessConcurrency(4), standardsynccommitteemessenger.WithMonitor(mon),
			standardsynccommitteemessenger.WithChainTimeService(sys.ChainTime), standardsynccommitteemessenger.WithSyncCommitteeAggregator(sys.SyncAggregator), standardsynccommitteemessenger.WithSpecProvider(n0),
			standardsynccommitteemessenger.WithBeaconBlockRootProvider(n0), standardsynccommitteemessenger.WithSyncCommitteeMessagesSubmitter(sub.(submitter.SyncCommitteeMessagesSubmitter)),
			standardsynccommitteemessenger.WithValidatingAccountsProvider(accs), standardsynccommitteemessenger.WithSyncCommitteeRootSigner(signerSvc), standardsynccommitteemessenger.WithSyncCommitteeSelectionSigner(signerSvc),
			standardsynccommitteemessenger.WithSyncCommitteeSubscriptionsSubmitter(sub.(submitter.SyncCommitteeSubscriptionsSubmitter)))
		if err != nil {
			return nil, err
		}
		msgSvc = &recSyncMessenger{r: rec, inner: sys.Messenger}
		graffiti, err := staticgraffiti.New(ctx, staticgraffiti.WithLogLevel(lvl), staticgraffiti.WithGraffiti([]byte("verif")))
		if err != nil {
			return nil, err
		}
		realProp, err := standardbeaconblockproposer.New(ctx, standardbeaconblockproposer.WithLogLevel(lvl), standardbeaconblockproposer.WithChainTime(sys.ChainTime), standardbeaconblockproposer.WithProposalDataProvider(n0),
			standardbeaconblockproposer.WithMonitor(mon), standardbeaconblockproposer.WithValidatingAccountsProvider(accs), standardbeaconblockproposer.WithExecutionChainHeadProvider(execHead{}),
			standardbeaconblockproposer.WithGraffitiProvider(graffiti), standardbeaconblockproposer.WithProposalSubmitter(sub.(submitter.ProposalSubmitter)), standardbeaconblockproposer.WithRANDAORevealSigner(signerSvc),
			standardbeaconblockproposer.WithBeaconBlockSigner(signerSvc), standardbeaconblockproposer.WithBlobSidecarSigner(signerSvc))
		if err != nil {
			return nil, err
		}
		propSvc = &recProposer{r: rec, inner: realProp}
	}
	sys.Controller, err = standardcontroller.New(ctx,
		standardcontroller.WithLogLevel(lvl), standardcontroller.WithMonitor(mon), standardcontroller.WithSpecProvider(n0), standardcontroller.WithChainTimeService(sys.ChainTime),
		standardcontroller.WithWaitedForGenesis(waitedForGenesis), standardcontroller.WithProposerDutiesProvider(n0), standardcontroller.WithAttesterDutiesProvider(n0),
		standardcontroller.WithSyncCommitteeDutiesProvider(n0), standardcontroller.WithEventsProvider(events), standardcontroller.WithScheduler(sched),
		standardcontroller.WithValidatingAccountsProvider(accs), standardcontroller.WithAttester(attSvc), standardcontroller.WithSyncCommitteeMessenger(msgSvc),
		standardcontroller.WithSyncCommitteeAggregator(syncAggSvc), standardcontroller.WithBeaconBlockProposer(propSvc), standardcontroller.WithBeaconBlockHeadersProvider(n0),
		standardcontroller.WithSignedBeaconBlockProvider(n0), standardcontroller.WithProposalsPreparer(&recPreparer{rec}), standardcontroller.WithAttestationAggregator(aggSvc),
		standardcontroller.WithBeaconCommitteeSubscriber(subSvc), standardcontroller.WithSyncCommitteeSubscriber(syncSubSvc), standardcontroller.WithAccountsRefresher(accs),
		standardcontroller.WithBlockToSlotSetter(setter), standardcontroller.WithMaxProposalDelay(0), standardcontroller.WithMaxAttestationDelay(p.MaxAttestationDelay),
		standardcontroller.WithAttestationAggregationDelay(p.AggregationDelay), standardcontroller.WithMaxSyncCommitteeMessageDelay(p.MaxSyncMessageDelay),
		standardcontroller.WithSyncCommitteeAggregationDelay(p.SyncAggregationDelay), standardcontroller.WithVerifySyncCommitteeInclusion(false),
		standardcontroller.WithFastTrackAttestations(p.FastTrackAttestations), standardcontroller.WithFastTrackSyncCommittees(p.FastTrackSync), standardcontroller.WithFastTrackGrace(p.FastTrackGrace),
	)
	if err != nil {
		return nil, err
	}
	return sys, nil
}

// Hooks lets a scenario observe the run while it proceeds.
type Hooks struct {
	// Tick is called by the main task at the start of every slot (after that slot's jobs had a chance to be due).
	Tick func(rec *Record, slot uint64, live *Incarnation)
	// Mid is called late in every slot (attestation, aggregation and sync jobs of the slot are over in quiet times).
	Mid func(rec *Record, slot uint64, live *Incarnation)
}

// Run executes the plan; it must be called from the main task inside sim.Run.
func Run(ctx context.Context, p *Plan, hooks *Hooks) *Record {
	m := NewModel(p)
	rec := &Record{Plan: p, Model: m, H: &History{}, Signer: &SignerLog{}, Script: &Script{Outcomes: p.Faults}}
	if p.SyncZero {
		syncDomainType := DomainSyncCommittee
		rec.Signer.Fault = func(r *SignReq) (string, time.Duration) {
			if r.KeyIndex == p.SyncZeroSig && r.Method == "SignGenericMulti" && len(r.Domain) == 32 && string(r.Domain[:4]) == string(syncDomainType[:]) {
				if p.SyncZeroOnce {
					g := m.Chain.GenesisTime.Sub(SimEpoch)
					if now := simrt.Now(); now < g || uint64((now-g)/(time.Duration(p.SecondsPerSlot)*time.Second)) != p.SyncZeroSlot {
						return "", 0
					}
				}
				simrt.Probe("fault:sync-message-signature-withheld")
				return "zero", 0
			}
			return "", 0
		}
	} else if p.ContribZero {
		dt := DomainContributionAndProof
		rec.Signer.Fault = func(r *SignReq) (string, time.Duration) {
			if r.KeyIndex == p.ContribZeroSig && r.Method == "SignGenericMulti" && len(r.Domain) == 32 && string(r.Domain[:4]) == string(dt[:]) {
				return "zero", 0
			}
			return "", 0
		}
	} else if len(p.SignerFaults) > 0 {
		rec.Signer.Fault = func(r *SignReq) (string, time.Duration) {
			n := 0
			simrt.Crit(func() { n = len(rec.Signer.Reqs) })
			for _, f := range p.SignerFaults {
				if f.Req == n {
					return f.Outcome, 0
				}
			}
			return "", 0
		}
	}
	if p.SignerSlow > 0 {
		inner := rec.Signer.Fault
		rec.Signer.Fault = func(r *SignReq) (string, time.Duration) {
			o := ""
			if inner != nil {
				o, _ = inner(r)
			}
			simrt.Probe("fault:signer-slow")
			return o, p.SignerSlow
		}
	}
	var nodes []*Node
	for i := 0; i < p.Nodes; i++ {
		nodes = append(nodes, NewNode(fmt.Sprintf("bn%d", i), m, rec.Script, rec.H))
	}
	genesis := m.Chain.GenesisTime.Sub(SimEpoch)
	var live *Incarnation
	liveInc := func() int {
		n := 0
		simrt.Crit(func() {
			if live != nil && live.Sys != nil {
				n = live.N
			}
		})
		return n
	}
	// event streams
	for i, n := range nodes {
		n := n
		i := i
		simrt.GoDaemon("stream-"+n.NodeName, func() {
			n.RunStream(ctx, 0, p.HorizonSlots, time.Duration(i)*150*time.Millisecond, liveInc, i == 0)
		})
	}
	// incarnations
	starts := []time.Duration{genesis + p.StartOffset}
	ends := []time.Duration{-1}
	for _, r := range p.Restarts {
		at := genesis + r.At
		if at <= starts[len(starts)-1]+time.Second {
			continue
		}
		ends[len(ends)-1] = at
		starts = append(starts, at+r.Down)
		ends = append(ends, -1)
	}
	simrt.GoDaemon("lifecycle", func() {
		for k := range starts {
			if d := starts[k] - simrt.Now(); d > 0 {
				if simrt.Sleep(ctx, d, "life/wait-start") != nil {
					return
				}
			}
			inc := &Incarnation{N: k + 1, Start: simrt.Now(), End: -1, StartStep: simrt.Step()}
			simrt.Crit(func() { rec.Incs = append(rec.Incs, inc) })
			ictx, icancel := context.WithCancel(ctx)
			simrt.GoInc("vouch", inc.N, func() {
				waited := false
				if d := time.Until(m.Chain.GenesisTime); d > 0 {
					// main.go waits for genesis before starting services
					if simrt.Sleep(ictx, d, "vouch/wait-genesis") != nil {
						return
					}
					waited = true
				}
				sys, err := Build(ictx, rec, nodes, waited)
				if err != nil {
					simrt.Crit(func() { rec.BuildErrors = append(rec.BuildErrors, err.Error()) })
					return
				}
				simrt.Crit(func() { inc.Sys = sys; live = inc })
			})
			if ends[k] < 0 {
				return
			}
			if d := ends[k] - simrt.Now(); d > 0 {
				if simrt.Sleep(ctx, d, "life/wait-crash") != nil {
					return
				}
			}
			// crash: nothing of this incarnation runs any more
			simrt.KillInc(inc.N)
			simrt.Crit(func() { inc.End = simrt.Now(); live = nil })
			icancel()
			simrt.Probe("fault:crash-restart")
		}
	})
	// main: tick per slot until the horizon
	for s := uint64(0); s <= p.HorizonSlots; s++ {
		at := m.Chain.SlotStart(s)
		if d := time.Until(at); d > 0 {
			if simrt.Sleep(ctx, d, "main/slot") != nil {
				break
			}
		}
		if hooks != nil && hooks.Tick != nil {
			var l *Incarnation
			simrt.Crit(func() { l = live })
			hooks.Tick(rec, s, l)
		}
		if hooks != nil && hooks.Mid != nil && s < p.HorizonSlots {
			// late in the slot and off every lattice of delays and timeouts used by the configuration
			if simrt.Sleep(ctx, time.Duration(p.SecondsPerSlot)*time.Second*15/16+7*time.Millisecond, "main/mid") != nil {
				break
			}
			var l *Incarnation
			simrt.Crit(func() { l = live })
			hooks.Mid(rec, s, l)
		}
	}
	return rec
}
