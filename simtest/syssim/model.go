// Package syssim is the whole-system scenario: the real controller, scheduler,
// chaintime, duty services, signer, submitter and cache of vouch wired like
// main.go does (this wiring is harness code), against a simulated chain with
// beacon nodes, reorgs, missed slots, restarts and call faults.
package syssim

import (
	"crypto/sha256"
	"encoding/binary"
	"fmt"
	"sort"
	"time"

	apiv1 "github.com/attestantio/go-eth2-client/api/v1"
	"github.com/attestantio/go-eth2-client/spec/phase0"

	"verif/simrt"
	. "verif/simtest/env"
)

// Plan is everything that is decided before a run starts.
type Plan struct {
	Seed                  uint64               `json:"seed"`
	SecondsPerSlot        uint64               `json:"seconds_per_slot"`
	SlotsPerEpoch         uint64               `json:"slots_per_epoch"`
	EpochsPerPeriod       uint64               `json:"epochs_per_period"`
	AltairEpoch           uint64               `json:"altair_epoch"`
	TotalValidators       int                  `json:"total_validators"`
	Ours                  []int                `json:"ours"` // validator indices managed by vouch
	Committees            int                  `json:"committees_per_slot"`
	TargetAggregators     uint64               `json:"target_aggregators"`
	StartOffset           time.Duration        `json:"start_offset"`  // vouch starts at genesis+StartOffset (may be negative: waits for genesis)
	HorizonSlots          uint64               `json:"horizon_slots"` // run ends at the start of this slot (counted from slot 0)
	Reorgs                []Reorg              `json:"reorgs,omitempty"`
	Missed                []uint64             `json:"missed_slots,omitempty"`
	HeadLatencyMs         []int                `json:"head_latency_ms"` // per slot (cyclic)
	Restarts              []Restart            `json:"restarts,omitempty"`
	Nodes                 int                  `json:"nodes"` // event sources (1-2); node 0 answers all calls
	Faults                map[string][]Outcome `json:"faults,omitempty"`
	MaxAttestationDelay   time.Duration        `json:"max_attestation_delay"`
	AggregationDelay      time.Duration        `json:"aggregation_delay"`
	MaxSyncMessageDelay   time.Duration        `json:"max_sync_message_delay"`
	SyncAggregationDelay  time.Duration        `json:"sync_aggregation_delay"`
	FastTrackAttestations bool                 `json:"fast_track_attestations"`
	FastTrackSync         bool                 `json:"fast_track_sync"`
	FastTrackGrace        time.Duration        `json:"fast_track_grace"`
	Focused               bool                 `json:"focused"` // duty services replaced by recorders
	Multinode             bool                 `json:"multinode"`
	Odd                   []OddContent         `json:"odd,omitempty"` // odd-content faults (C16)
	SignerFaults          []SignerFaultSpec    `json:"signer_faults,omitempty"`
	// SubDutiesLatency delays the answer to every duties request of the beacon committee subscriber
	SubDutiesLatency time.Duration `json:"sub_duties_latency,omitempty"`
	// SignerSlow: every signing request takes this long (a slow remote signer); applies with any other signer fault.
	SignerSlow time.Duration `json:"signer_slow,omitempty"`
	AccountKind           int                  `json:"account_kind"`
	// HideSync: the account provider has no account for HideSyncAccount when asked by index for
	// sync committee work (an exited validator still in the committee).
	HideSync        bool `json:"hide_sync,omitempty"`
	HideSyncAccount int  `json:"hide_sync_account,omitempty"`
	// SyncZero: the signer returns no signature for SyncZeroSig's sync committee messages.
	SyncZero          bool   `json:"sync_zero,omitempty"`
	SyncZeroSig       int    `json:"sync_zero_sig,omitempty"`
	// SyncZeroOnce: ... only for the messages signed during slot SyncZeroSlot (one failing request, not a dead account)
	SyncZeroOnce bool   `json:"sync_zero_once,omitempty"`
	SyncZeroSlot uint64 `json:"sync_zero_slot,omitempty"`
	// Exited: validators of ours that have exited (no longer active: not among the validating accounts) but are
	// still eligible for sync committee duty (among the sync committee accounts)
	Exited []int `json:"exited,omitempty"`
	// ContribZero: the signer returns no signature for ContribZeroSig's contribution-and-proof objects
	// (the third signing step of an aggregating member, after message and selection proof succeeded).
	ContribZero    bool `json:"contrib_zero,omitempty"`
	ContribZeroSig int  `json:"contrib_zero_sig,omitempty"`
	SyncCommitteeSize uint64 `json:"sync_committee_size,omitempty"`
	// Steady: duty tables repeat with the sync committee period, so that equal period phases see equal duties (C20).
	Steady bool `json:"steady,omitempty"`
	// CoincideReorg: the head event that carries a reorg affecting the current epoch's attester duties arrives
	// exactly when that slot's attestation job is due (slot start + attestation delay).
	CoincideReorg bool `json:"coincide_reorg,omitempty"`
	// RootFailSlots: every node fails the head-root requests made during these slots.
	RootFailSlots []uint64 `json:"root_fail_slots,omitempty"`
	// OddSpec: a zero or absurd value in the chain specification the node serves (C16 only).
	OddSpec string `json:"odd_spec,omitempty"`
	// AttestTakes: how long the recording attester (focused variant) stays inside Attest (default 300ms).
	AttestTakes time.Duration `json:"attest_takes,omitempty"`
	// ProposeTakes: how long the recording proposer (focused variant) stays inside Propose (default 500ms).
	ProposeTakes time.Duration `json:"propose_takes,omitempty"`
	// AnswerAtRequest: a node computes the answer to a duties request when the request arrives and the
	// latency is the way back (default: the answer reflects the chain at the moment it is returned).
	AnswerAtRequest bool `json:"answer_at_request,omitempty"`
	// StallAfterSchedulePct: chance (per ScheduleJob call, decided on the schedule tape) that the
	// calling goroutine is held for 1 ms .. 2 slots after the call returns.  Only scenarios whose
	// oracle does not depend on set-up latency enable it.
	StallAfterSchedulePct int `json:"stall_after_schedule_pct,omitempty"`
	// DataStrategy: "" (node 0 directly), "first" or "best": attestation data through the real strategy over all nodes.
	DataStrategy string `json:"data_strategy,omitempty"`
}

// Reorg changes a duty-dependent root from the head event of Slot on.
type Reorg struct {
	Slot uint64 `json:"slot"`
	Kind int    `json:"kind"` // 0: current dependent root, 1: previous dependent root, 2: both
}

// Restart crashes vouch at At (relative to genesis) and starts a new incarnation after Down.
type Restart struct {
	At   time.Duration `json:"at"`
	Down time.Duration `json:"down"`
}

// OddContent makes a node method return unexpected but well-formed content once.
type OddContent struct {
	Method string `json:"method"`
	Call   int    `json:"call"` // which call of that method (0-based)
	Kind   string `json:"kind"`
}

// SignerFaultSpec makes the remote signer misbehave for one request.
type SignerFaultSpec struct {
	Req     int    `json:"req"` // index in the signer log
	Outcome string `json:"outcome"`
}

// Model is the shared chain state seen by all nodes.
type Model struct {
	P        *Plan
	Chain    *Chain
	ver      map[uint64]int // version of the dependent root at the start of epoch k
	fork     int            // bumps on every reorg (block roots change)
	head     uint64         // slot of the latest block
	headSet  bool
	blocks   map[uint64]phase0.Root // slot -> canonical block root
	rootSlot map[phase0.Root]uint64
	attData  map[phase0.Root]*phase0.AttestationData
}

// NewModel builds the chain model for a plan.
func NewModel(p *Plan) *Model {
	c := DefaultChain(0)
	c.SecondsPerSlot = p.SecondsPerSlot
	c.SlotsPerEpoch = p.SlotsPerEpoch
	c.EpochsPerSyncCommitteePeriod = p.EpochsPerPeriod
	c.TargetAggregatorsPerCommittee = p.TargetAggregators
	c.TargetAggregatorsPerSyncSubcommittee = 2
	c.SyncCommitteeSize = 8
	if p.SyncCommitteeSize != 0 {
		c.SyncCommitteeSize = p.SyncCommitteeSize
	}
	c.SyncCommitteeSubnetCount = 4
	switch p.OddSpec {
	case "zero-target-aggregators":
		c.TargetAggregatorsPerCommittee = 0
	case "zero-sync-target-aggregators":
		c.TargetAggregatorsPerSyncSubcommittee = 0
	case "huge-target-aggregators":
		c.TargetAggregatorsPerCommittee = 1 << 63
	}
	c.AltairForkEpoch = phase0.Epoch(p.AltairEpoch)
	c.BellatrixForkEpoch = phase0.Epoch(p.AltairEpoch)
	c.CapellaForkEpoch = phase0.Epoch(p.AltairEpoch)
	c.DenebForkEpoch = FarFuture
	// genesis such that simulated time 0 is 2 epochs+ before anything interesting if start is negative
	c.GenesisTime = SimEpoch.Add(10 * time.Minute)
	return &Model{P: p, Chain: c, ver: map[uint64]int{}, blocks: map[uint64]phase0.Root{}, rootSlot: map[phase0.Root]uint64{}, attData: map[phase0.Root]*phase0.AttestationData{}}
}

func h64(parts ...any) uint64 {
	h := sha256.New()
	for _, p := range parts {
		fmt.Fprintf(h, "%v|", p)
	}
	return binary.LittleEndian.Uint64(h.Sum(nil)[:8])
}

func rootOf(parts ...any) phase0.Root {
	h := sha256.New()
	for _, p := range parts {
		fmt.Fprintf(h, "%v|", p)
	}
	var r phase0.Root
	copy(r[:], h.Sum(nil))
	return r
}

type prng struct{ s uint64 }

func (r *prng) next() uint64 {
	r.s += 0x9e3779b97f4a7c15
	z := r.s
	z = (z ^ (z >> 30)) * 0xbf58476d1ce4e5b9
	z = (z ^ (z >> 27)) * 0x94d049bb133111eb
	return z ^ (z >> 31)
}
func (r *prng) intn(n int) int { return int(r.next() % uint64(n)) }

// verAt returns the version of the dependent root at the start of epoch k (k may be "-1" = 1<<63).
func (m *Model) verAt(k uint64) int {
	var v int
	simrt.Crit(func() { v = m.ver[k] })
	return v
}

// DepRoot is the duty-dependent root for boundary k.
func (m *Model) DepRoot(k uint64) phase0.Root { return rootOf("dep", m.P.Seed, k, m.verAt(k)) }

func prevEpoch(e uint64) uint64 {
	if e == 0 {
		return 1 << 62
	}
	return e - 1
}

// AttTable is the attester assignment of one epoch under one dependent-root version.
type AttTable struct {
	Epoch   uint64
	Version int
	Duties  map[int]*apiv1.AttesterDuty // validator index -> duty
}

// AttesterTable returns the assignment of epoch e in force now.
func (m *Model) AttesterTable(e uint64) *AttTable {
	v := m.verAt(prevEpoch(e))
	return m.attesterTable(e, v)
}

func (m *Model) dutyKey(e uint64) uint64 {
	if m.P.Steady {
		return e % m.P.EpochsPerPeriod
	}
	return e
}

func (m *Model) attesterTable(e uint64, v int) *AttTable {
	r := &prng{s: h64("att", m.P.Seed, m.dutyKey(e), v)}
	T := m.P.TotalValidators
	perm := make([]int, T)
	for i := range perm {
		perm[i] = i
	}
	for i := T - 1; i > 0; i-- {
		j := r.intn(i + 1)
		perm[i], perm[j] = perm[j], perm[i]
	}
	C := m.P.Committees
	buckets := int(m.P.SlotsPerEpoch) * C
	sizes := make([]int, buckets)
	for k := range perm {
		sizes[k%buckets]++
	}
	t := &AttTable{Epoch: e, Version: v, Duties: map[int]*apiv1.AttesterDuty{}}
	for k, val := range perm {
		b := k % buckets
		slot := e*m.P.SlotsPerEpoch + uint64(b/C)
		t.Duties[val] = &apiv1.AttesterDuty{
			PubKey:                  PubKey(val),
			Slot:                    phase0.Slot(slot),
			ValidatorIndex:          phase0.ValidatorIndex(val),
			CommitteeIndex:          phase0.CommitteeIndex(b % C),
			CommitteeLength:         uint64(sizes[b]),
			CommitteesAtSlot:        uint64(C),
			ValidatorCommitteeIndex: uint64(k / buckets),
		}
	}
	return t
}

// ProposerTable returns slot -> proposer index for epoch e in force now.
func (m *Model) ProposerTable(e uint64) map[uint64]int {
	v := m.verAt(e)
	r := &prng{s: h64("prop", m.P.Seed, m.dutyKey(e), v)}
	out := map[uint64]int{}
	for s := uint64(0); s < m.P.SlotsPerEpoch; s++ {
		// bias towards our validators so that proposals actually happen
		if r.intn(3) == 0 && len(m.P.Ours) > 0 {
			out[e*m.P.SlotsPerEpoch+s] = m.P.Ours[r.intn(len(m.P.Ours))]
		} else {
			out[e*m.P.SlotsPerEpoch+s] = r.intn(m.P.TotalValidators)
		}
	}
	return out
}

// SyncTable returns validator index -> positions in the sync committee of the period containing epoch e.
func (m *Model) SyncTable(e uint64) map[int][]phase0.CommitteeIndex {
	period := e / m.P.EpochsPerPeriod
	if m.P.Steady {
		period = 0
	}
	r := &prng{s: h64("sync", m.P.Seed, period)}
	out := map[int][]phase0.CommitteeIndex{}
	for pos := 0; pos < int(m.Chain.SyncCommitteeSize); pos++ {
		var v int
		if r.intn(2) == 0 && len(m.P.Ours) > 0 {
			v = m.P.Ours[r.intn(len(m.P.Ours))]
		} else {
			v = r.intn(m.P.TotalValidators)
		}
		out[v] = append(out[v], phase0.CommitteeIndex(pos))
	}
	return out
}

// IsOurs reports whether validator index v is managed by vouch.
func (m *Model) IsOurs(v int) bool {
	for _, o := range m.P.Ours {
		if o == v {
			return true
		}
	}
	return false
}

// ApplyReorgsAt bumps the versions for reorgs planned at slot s (called once per slot by the clock task).
func (m *Model) ApplyReorgsAt(s uint64) {
	e := s / m.P.SlotsPerEpoch
	for _, r := range m.P.Reorgs {
		if r.Slot != s {
			continue
		}
		simrt.Crit(func() {
			m.fork++
			if r.Kind == 0 || r.Kind == 2 {
				m.ver[e]++
			}
			if r.Kind == 1 || r.Kind == 2 {
				m.ver[prevEpoch(e)]++
			}
		})
		simrt.Probe("fault:reorg")
	}
}

// IsMissed reports whether slot s has no block.
func (m *Model) IsMissed(s uint64) bool {
	for _, x := range m.P.Missed {
		if x == s {
			return true
		}
	}
	return false
}

// ProduceBlock makes the block of slot s the head.
func (m *Model) ProduceBlock(s uint64) phase0.Root {
	var root phase0.Root
	simrt.Crit(func() {
		root = rootOf("block", m.P.Seed, s, m.fork)
		m.blocks[s] = root
		m.rootSlot[root] = s
		m.head, m.headSet = s, true
	})
	return root
}

// Head returns the latest block's slot and root.
func (m *Model) Head() (uint64, phase0.Root, bool) {
	var s uint64
	var r phase0.Root
	var ok bool
	simrt.Crit(func() { s, r, ok = m.head, m.blocks[m.head], m.headSet })
	return s, r, ok
}

// SlotOfRoot looks a block root up.
func (m *Model) SlotOfRoot(r phase0.Root) (uint64, bool) {
	var s uint64
	var ok bool
	simrt.Crit(func() { s, ok = m.rootSlot[r] })
	return s, ok
}

// HeadLatency of slot s.
func (m *Model) HeadLatency(s uint64) time.Duration {
	if m.P.CoincideReorg {
		for _, r := range m.P.Reorgs {
			if r.Slot == s && r.Kind >= 1 {
				return m.P.MaxAttestationDelay
			}
		}
	}
	if len(m.P.HeadLatencyMs) == 0 {
		return time.Second
	}
	return time.Duration(m.P.HeadLatencyMs[int(s)%len(m.P.HeadLatencyMs)]) * time.Millisecond
}

// SortedOurs returns our validator indices in ascending order.
func (m *Model) SortedOurs() []int {
	o := append([]int{}, m.P.Ours...)
	sort.Ints(o)
	return o
}
