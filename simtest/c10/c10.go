// Package c10 — proposer settings follow the documented precedence of the
// execution configuration.
//
// Real code: blockrelay/standard (constructed through New(): initial fetch,
// periodic jobs, version dispatch, UnmarshalJSON of v1/v2 documents,
// ProposerConfig), scheduler/advanced, chaintime, signer.  Stubs: the
// configuration source (majordomo), accounts with wallet/account names,
// relays.  Oracle: the reference resolver of relaysim/ref.go, written from
// docs/executionconfig.md and docs/execlayer.md, compared field by field with
// what ProposerConfig returns for every validator after every document of the
// history; round trip of the configuration vouch holds.
package c10

import (
	"context"
	"encoding/json"
	"fmt"
	"time"

	"github.com/attestantio/vouch/services/beaconblockproposer"

	"verif/sim"
	"verif/simrt"
	"verif/simtest/c10/relaysim"
	. "verif/simtest/env"
)

type plan struct {
	World     *relaysim.WorldSpec `json:"world"`
	Docs      []*relaysim.Doc     `json:"docs"`
	RoundTrip bool                `json:"round_trip"`
	// NilAccount: additionally look every validator up without its account (as the MEV-boost side does).
	NilAccount bool `json:"nil_account,omitempty"`
}

func gen(p *simrt.Tape) any {
	pl := &plan{World: relaysim.GenWorldSpec(p, 2, 6)}
	o := relaysim.GenOpts{NVals: len(pl.World.Vals), Unresolvable: 6, V1: 22, MaxRelays: 4, MaxProposers: 4}
	n := p.Range(1, 4)
	for i := 0; i < n; i++ {
		pl.Docs = append(pl.Docs, relaysim.GenGoodDoc(p, o))
	}
	pl.RoundTrip = p.Pct(70)
	pl.NilAccount = p.Pct(20)
	return pl
}

type lookup struct {
	doc  int
	val  *relaysim.Val
	got  *beaconblockproposer.ProposerConfig
	err  error
	held any // the configuration object vouch held at the lookup
}

func exec(plAny any, sched *simrt.Tape) *sim.Outcome {
	pl := plAny.(*plan)
	out := &sim.Outcome{Probes: map[string]int{}, Sample: pl}
	var w *relaysim.World
	var looks []lookup
	var rtViol *simrt.Violation
	accepted := map[int]bool{}

	res := sim.Run(sched, 30*time.Minute, 200000, nil, func(ctx context.Context) {
		w = relaysim.NewWorld(pl.World, nil)
		// the service starts on an empty version 2 document; every planned
		// document then arrives through a refresh
		w.Source.Set(&relaysim.Doc{Kind: "v2", V2: &relaysim.DocV2{}})
		if err := w.Start(ctx); err != nil {
			panic(err)
		}
		refresh := func() bool {
			before := 0
			simrt.Crit(func() { before = len(w.Source.Fetches) })
			for try := 0; try < 50; try++ {
				if err := w.Sched.RunJob(ctx, relaysim.JobFetch); err == nil {
					break
				}
				simrt.Sleep(ctx, 10*time.Millisecond, "c10/retry-runjob")
			}
			for i := 0; i < 1000; i++ {
				simrt.Sleep(ctx, 5*time.Millisecond, "c10/await-fetch")
				done := false
				simrt.Crit(func() {
					n := len(w.Source.Fetches)
					done = n > before && w.Source.Fetches[n-1].Delivered && w.Source.Fetches[n-1].EndT < simrt.Now()
				})
				if done {
					return true
				}
			}
			return false
		}
		lookupAll := func(doc int) []lookup {
			var ls []lookup
			held := w.Svc.VerifExecutionConfig()
			for _, v := range w.Vals {
				got, err := w.Svc.ProposerConfig(ctx, v.Acc, v.PubKey)
				ls = append(ls, lookup{doc: doc, val: v, got: got, err: err, held: held})
			}
			return ls
		}
		var prevHeld any = w.Svc.VerifExecutionConfig()
		for k, d := range pl.Docs {
			w.Source.Set(d)
			if !refresh() {
				panic("c10: refresh did not complete")
			}
			held := w.Svc.VerifExecutionConfig()
			accepted[k] = held != prevHeld
			prevHeld = held
			ls := lookupAll(k)
			looks = append(looks, ls...)
			if pl.NilAccount {
				for _, v := range w.Vals {
					_, _ = w.Svc.ProposerConfig(ctx, nil, v.PubKey) // must not crash; not compared (documentation silent)
				}
			}
			if pl.RoundTrip && accepted[k] {
				b, err := json.Marshal(held)
				if err != nil {
					rtViol = Viol("C10/roundtrip-marshal", "configuration held by vouch does not marshal: %v", err)
					return
				}
				w.Source.Set(&relaysim.Doc{Kind: "raw", Raw: string(b)})
				if !refresh() {
					panic("c10: round-trip refresh did not complete")
				}
				held2 := w.Svc.VerifExecutionConfig()
				if held2 == held {
					rtViol = Viol("C10/roundtrip-rejected", "vouch does not accept the document it marshals itself (doc %d): %s", k, string(b))
					return
				}
				prevHeld = held2
				ls2 := lookupAll(k)
				for i := range ls {
					a, b2 := relaysim.Canon(ls[i].got, ls[i].err), relaysim.Canon(ls2[i].got, ls2[i].err)
					if a != b2 {
						rtViol = Viol("C10/roundtrip-changes-meaning", "validator %s (doc %d): before %s ; after marshal/unmarshal %s ; document %s", ls[i].val.Name, k, a, b2, string(b))
						return
					}
				}
				out.Probes["roundtrip-checked"]++
			}
		}
	})
	out.Res = res
	if res.Violation != nil {
		out.Violation = res.Violation
		switch res.Violation.Kind {
		case "panic", "deadlock", "horizon":
			out.Violation.Kind = "C10/" + res.Violation.Kind
		}
		return out
	}
	out.Violation = oracle(pl, w, looks, accepted, out)
	if out.Violation == nil {
		out.Violation = rtViol
	}
	return out
}

// triaged are the violation classes already explained as genuine defects of
// the unchanged tree (see KNOWN and the report).  The oracle keeps judging
// past them and reports another class first if there is one, so that a known
// defect does not hide a new one in the same run.
var triaged = map[string]bool{
	"C10/disabled-relay-added":     true,
	"C10/legacy-relay-missing":     true,
	"C10/legacy-relay-gas-limit":   true,
	"C10/legacy-document-rejected": true,
}

func oracle(pl *plan, w *relaysim.World, looks []lookup, accepted map[int]bool, out *sim.Outcome) *simrt.Violation {
	var first, firstNew *simrt.Violation
	report := func(v *simrt.Violation) {
		if first == nil {
			first = v
		}
		if firstNew == nil && !triaged[v.Kind] {
			firstNew = v
		}
	}
	for k, d := range pl.Docs {
		if !accepted[k] {
			// every generated document is valid by the documentation
			legacy := ""
			if d.V1 != nil {
				legacy = "legacy-"
			}
			report(Viol("C10/"+legacy+"document-rejected", "document %d (valid by the documentation) was not taken into use: %s", k, string(w.Source.Body(stateOf(w, d)))))
		}
	}
	for _, l := range looks {
		d := pl.Docs[l.doc]
		if !accepted[l.doc] {
			continue
		}
		ref := relaysim.Resolve(w, d, l.val)
		if ref.Unspec {
			out.Probes["unspecified-unresolvable-entry"]++
			continue
		}
		legacy := ""
		if d.V1 != nil {
			legacy = "legacy-"
			out.Probes["lookup-legacy"]++
		} else {
			out.Probes["lookup-v2"]++
		}
		if l.err != nil {
			report(Viol("C10/"+legacy+"lookup-error", "validator %s doc %d: ProposerConfig failed: %v", l.val.Name, l.doc, l.err))
			continue
		}
		probe(d, ref, out)
		for _, df := range relaysim.Diff(ref, l.got) {
			if legacy != "" && df.Class == "relay-gas-limit" && df.GotGas != w.FallbackGas {
				// the recorded finding is "the fallback gas limit instead of default_config's": any other
				// wrong value is something else
				df.Class = "relay-gas-limit-neither-fallback-nor-default"
			}
			report(Viol("C10/"+legacy+df.Class, "validator %s (#%d) doc %d matched entry %d: %s ; vouch: %s ; document: %s",
				l.val.Name, l.val.N, l.doc, ref.Entry, df.Detail, relaysim.Canon(l.got, nil), string(w.Source.Body(stateOf(w, d)))))
		}
		out.Nontrivial = true
	}
	if firstNew != nil {
		return firstNew
	}
	return first
}

func stateOf(w *relaysim.World, d *relaysim.Doc) int {
	for i, s := range w.Source.States {
		if s == d {
			return i
		}
	}
	return 0
}

// probe counts the situations the property is about.
func probe(d *relaysim.Doc, ref *relaysim.Resolved, out *sim.Outcome) {
	if d.V2 == nil {
		return
	}
	if ref.Entry > 0 {
		out.Probes["match-not-first-entry"]++
	}
	if ref.Entry >= 0 {
		p := d.V2.Proposers[ref.Entry]
		if p.Key == nil {
			out.Probes["match-by-account"]++
		} else {
			out.Probes["match-by-pubkey"]++
		}
		if p.Reset {
			out.Probes["reset-relays"]++
		}
		top := map[int]relaysim.RelayEntry{}
		for _, r := range d.V2.Relays {
			top[r.Addr] = r
		}
		for _, r := range p.Relays {
			t, inherited := top[r.Addr]
			switch {
			case r.Disabled && inherited && !p.Reset:
				out.Probes["disabled-inherited-relay"]++
			case r.Disabled:
				out.Probes["disabled-not-inherited-relay"]++
			case !inherited || p.Reset:
				out.Probes["added-relay"]++
			default:
				out.Probes["updated-relay"]++
				if t.Gas != nil && p.Gas != nil && r.Gas != nil {
					out.Probes["gas-at-three-levels"]++
				}
			}
		}
		for _, r := range d.V2.Relays {
			if r.Fee != nil && p.Fee != nil {
				out.Probes["proposer-value-over-relay-default"]++
				break
			}
		}
	}
	_ = fmt.Sprint
}

func init() {
	sim.Register(&sim.Scenario{Property: "C10", Name: "precedence", Gen: gen, Exec: exec})
}
