package relaysim

import (
	"bytes"
	"context"
	"encoding/json"
	"errors"
	"fmt"
	"regexp"
	"sort"
	"time"

	"github.com/attestantio/go-eth2-client/spec/bellatrix"
	"github.com/attestantio/go-eth2-client/spec/phase0"
	v1 "github.com/attestantio/vouch/services/blockrelay/v1"
	v2 "github.com/attestantio/vouch/services/blockrelay/v2"
	"github.com/shopspring/decimal"
	"github.com/wealdtech/go-majordomo"

	"verif/simrt"
)

// ---------------------------------------------------------------------------
// the plan-side model of an execution configuration document.  It knows
// nothing of vouch's types; the reference resolver (ref.go) works on it.

// Vals is the presence pattern and the values of the optional fields of one level.
type Vals struct {
	Fee   *int    `json:"fee,omitempty"`      // index into the address pool
	Gas   *uint64 `json:"gas,omitempty"`      // gas limit
	Grace *int64  `json:"grace_ms,omitempty"` // milliseconds
	MinV  *string `json:"min,omitempty"`      // Ether, decimal string
	Pub   *int    `json:"pub,omitempty"`      // relay public key number (relay levels only)
}

// RelayEntry is a relay at the top level (default) or inside a proposer entry.
type RelayEntry struct {
	Addr     int  `json:"addr"`
	Disabled bool `json:"disabled,omitempty"` // proposer level only
	Vals
}

// Proposer is one entry of the ordered proposers list.
type Proposer struct {
	// Key: validator number for a public-key entry; -1 = the all-zero key
	// (an entry vouch cannot apply); nil = account entry.
	Key   *int   `json:"key,omitempty"`
	Regex string `json:"regex,omitempty"`
	Vals
	Reset  bool         `json:"reset,omitempty"`
	Relays []RelayEntry `json:"relays,omitempty"`
}

type DocV2 struct {
	Vals
	Relays    []RelayEntry `json:"relays,omitempty"`
	Proposers []Proposer   `json:"proposers,omitempty"`
}

// V1Builder is the legacy builder object.
type V1Builder struct {
	Enabled bool   `json:"enabled"`
	Grace   *int64 `json:"grace_ms,omitempty"`
	Relays  []int  `json:"relays,omitempty"`
}

// V1Entry is default_config or one proposer_config value of the legacy format.
type V1Entry struct {
	Key     int        `json:"key,omitempty"` // validator number (proposer entries)
	Fee     *int       `json:"fee,omitempty"`
	Gas     *uint64    `json:"gas,omitempty"`
	Builder *V1Builder `json:"builder,omitempty"`
}

type DocV1 struct {
	Default   *V1Entry  `json:"default,omitempty"`
	Proposers []V1Entry `json:"proposers,omitempty"`
}

// Doc is one state of the configuration source.
type Doc struct {
	// Kind: "v2" | "v1" | "error" | "notfound" | "garbled" | "truncated" | "empty" | "null" | "raw"
	Kind string `json:"kind"`
	V2   *DocV2 `json:"v2,omitempty"`
	V1   *DocV1 `json:"v1,omitempty"`
	// ViaVouch: render by json.Marshal of vouch's own v1/v2 structures,
	// otherwise by an independent writer following the documentation.
	ViaVouch bool          `json:"via_vouch,omitempty"`
	Latency  time.Duration `json:"lat,omitempty"`
	Raw      string        `json:"raw,omitempty"` // Kind "raw": served verbatim (round trip)
	// Shape (Kind "shaped"): a v1/v2 document with JSON nodes replaced by
	// null, empty containers, wrong types; whether vouch accepts it is open.
	Shape []ShapeMut `json:"shape,omitempty"`
	// Good is set for documents that are valid by the documentation.
}

// Good reports whether the documentation calls this a usable configuration.
func (d *Doc) Good() bool { return d.Kind == "v2" || d.Kind == "v1" }

// HasUnresolvable reports whether the document contains an entry that cannot be applied.
func (d *Doc) HasUnresolvable() bool {
	if d.V2 == nil {
		return false
	}
	for _, p := range d.V2.Proposers {
		if p.Key != nil && *p.Key < 0 {
			return true
		}
	}
	return false
}

// ---------------------------------------------------------------------------
// rendering

func feeHex(i int) string { a := FeeAddr(i); return fmt.Sprintf("%#x", a[:]) }

// rawVals writes the optional fields the way docs/executionconfig.md shows them.
func rawVals(m map[string]any, v Vals) {
	if v.Fee != nil {
		m["fee_recipient"] = feeHex(*v.Fee)
	}
	if v.Gas != nil {
		m["gas_limit"] = fmt.Sprintf("%d", *v.Gas)
	}
	if v.Grace != nil {
		m["grace"] = fmt.Sprintf("%d", *v.Grace)
	}
	if v.MinV != nil {
		m["min_value"] = *v.MinV
	}
	if v.Pub != nil {
		k := RelayPub(*v.Pub)
		m["public_key"] = fmt.Sprintf("%#x", k[:])
	}
}

func proposerName(w *World, p *Proposer) string {
	if p.Key == nil {
		return p.Regex
	}
	if *p.Key < 0 || *p.Key >= len(w.Vals) {
		var zero phase0.BLSPubKey
		if *p.Key >= 0 { // a validator vouch does not know
			zero = RelayPub(40 + *p.Key)
		}
		return fmt.Sprintf("%#x", zero[:])
	}
	return fmt.Sprintf("%#x", w.Vals[*p.Key].PubKey[:])
}

func renderRawV2(w *World, d *DocV2) ([]byte, error) {
	m := map[string]any{"version": 2}
	rawVals(m, d.Vals)
	if len(d.Relays) > 0 {
		rm := map[string]any{}
		for _, r := range d.Relays {
			e := map[string]any{}
			rawVals(e, r.Vals)
			rm[RelayAddr(r.Addr)] = e
		}
		m["relays"] = rm
	}
	if len(d.Proposers) > 0 {
		var ps []any
		for i := range d.Proposers {
			p := &d.Proposers[i]
			e := map[string]any{"proposer": proposerName(w, p)}
			rawVals(e, p.Vals)
			if p.Reset {
				e["reset_relays"] = true
			}
			if len(p.Relays) > 0 {
				rm := map[string]any{}
				for _, r := range p.Relays {
					re := map[string]any{}
					rawVals(re, r.Vals)
					if r.Disabled {
						re["disabled"] = true
					}
					rm[RelayAddr(r.Addr)] = re
				}
				e["relays"] = rm
			}
			ps = append(ps, e)
		}
		m["proposers"] = ps
	}
	return json.Marshal(m)
}

func pFee(i *int) *bellatrix.ExecutionAddress {
	if i == nil {
		return nil
	}
	a := FeeAddr(*i)
	return &a
}
func pGrace(g *int64) *time.Duration {
	if g == nil {
		return nil
	}
	d := time.Duration(*g) * time.Millisecond
	return &d
}

var weiPerETH = decimal.New(1, 18)

func pMin(s *string) *decimal.Decimal {
	if s == nil {
		return nil
	}
	d := decimal.RequireFromString(*s).Mul(weiPerETH)
	return &d
}
func pPub(i *int) *phase0.BLSPubKey {
	if i == nil {
		return nil
	}
	k := RelayPub(*i)
	return &k
}

func renderVouchV2(w *World, d *DocV2) ([]byte, error) {
	cfg := &v2.ExecutionConfig{Version: 2, FeeRecipient: pFee(d.Fee), GasLimit: d.Gas, Grace: pGrace(d.Grace), MinValue: pMin(d.MinV)}
	if len(d.Relays) > 0 {
		cfg.Relays = map[string]*v2.BaseRelayConfig{}
		for _, r := range d.Relays {
			cfg.Relays[RelayAddr(r.Addr)] = &v2.BaseRelayConfig{PublicKey: pPub(r.Pub), FeeRecipient: pFee(r.Fee), GasLimit: r.Gas, Grace: pGrace(r.Grace), MinValue: pMin(r.MinV)}
		}
	}
	for i := range d.Proposers {
		p := &d.Proposers[i]
		pc := &v2.ProposerConfig{FeeRecipient: pFee(p.Fee), GasLimit: p.Gas, Grace: pGrace(p.Grace), MinValue: pMin(p.MinV), ResetRelays: p.Reset}
		if p.Key == nil {
			re, err := regexp.Compile(p.Regex) // as written: vouch adds the anchors when it reads the document
			if err != nil {
				return nil, err
			}
			pc.Account = re
		} else if *p.Key >= 0 && *p.Key < len(w.Vals) {
			pc.Validator = w.Vals[*p.Key].PubKey
		} else if *p.Key >= 0 {
			pc.Validator = RelayPub(40 + *p.Key)
		}
		if len(p.Relays) > 0 {
			pc.Relays = map[string]*v2.ProposerRelayConfig{}
			for _, r := range p.Relays {
				pc.Relays[RelayAddr(r.Addr)] = &v2.ProposerRelayConfig{Disabled: r.Disabled, PublicKey: pPub(r.Pub), FeeRecipient: pFee(r.Fee), GasLimit: r.Gas, Grace: pGrace(r.Grace), MinValue: pMin(r.MinV)}
			}
		}
		cfg.Proposers = append(cfg.Proposers, pc)
	}
	return json.Marshal(cfg)
}

func rawV1Entry(e *V1Entry) map[string]any {
	m := map[string]any{}
	if e.Fee != nil {
		m["fee_recipient"] = feeHex(*e.Fee)
	}
	if e.Gas != nil {
		m["gas_limit"] = fmt.Sprintf("%d", *e.Gas)
	}
	if e.Builder != nil {
		b := map[string]any{"enabled": e.Builder.Enabled}
		if e.Builder.Grace != nil {
			b["grace"] = fmt.Sprintf("%d", *e.Builder.Grace)
		}
		if len(e.Builder.Relays) > 0 {
			var rs []string
			for _, r := range e.Builder.Relays {
				rs = append(rs, RelayAddr(r))
			}
			b["relays"] = rs
		}
		m["builder"] = b
	}
	return m
}

func renderRawV1(w *World, d *DocV1) ([]byte, error) {
	m := map[string]any{}
	if d.Default != nil {
		m["default_config"] = rawV1Entry(d.Default)
	}
	if len(d.Proposers) > 0 {
		pm := map[string]any{}
		for i := range d.Proposers {
			e := &d.Proposers[i]
			pm[fmt.Sprintf("%#x", w.Vals[e.Key].PubKey[:])] = rawV1Entry(e)
		}
		m["proposer_config"] = pm
	}
	return json.Marshal(m)
}

func vouchV1Entry(e *V1Entry) *v1.ProposerConfig {
	pc := &v1.ProposerConfig{}
	if e.Fee != nil {
		pc.FeeRecipient = FeeAddr(*e.Fee)
	}
	if e.Gas != nil {
		pc.GasLimit = *e.Gas
	}
	if e.Builder != nil {
		pc.Builder = &v1.BuilderConfig{Enabled: e.Builder.Enabled}
		if e.Builder.Grace != nil {
			pc.Builder.Grace = time.Duration(*e.Builder.Grace) * time.Millisecond
		}
		for _, r := range e.Builder.Relays {
			pc.Builder.Relays = append(pc.Builder.Relays, RelayAddr(r))
		}
	}
	return pc
}

func renderVouchV1(w *World, d *DocV1) ([]byte, error) {
	cfg := &v1.ExecutionConfig{ProposerConfigs: map[phase0.BLSPubKey]*v1.ProposerConfig{}}
	if d.Default != nil {
		cfg.DefaultConfig = vouchV1Entry(d.Default)
	}
	for i := range d.Proposers {
		e := &d.Proposers[i]
		cfg.ProposerConfigs[w.Vals[e.Key].PubKey] = vouchV1Entry(e)
	}
	return json.Marshal(cfg)
}

// Render produces what the source serves for d: body and error.
func (d *Doc) Render(w *World) ([]byte, error) {
	switch d.Kind {
	case "error":
		return nil, errors.New("simulated source failure")
	case "notfound":
		return nil, majordomo.ErrNotFound
	case "empty":
		return []byte{}, nil
	case "null":
		return []byte("null"), nil
	case "raw":
		return []byte(d.Raw), nil
	}
	var b []byte
	var err error
	switch {
	case d.V2 != nil && d.ViaVouch:
		b, err = renderVouchV2(w, d.V2)
	case d.V2 != nil:
		b, err = renderRawV2(w, d.V2)
	case d.V1 != nil && d.ViaVouch:
		b, err = renderVouchV1(w, d.V1)
	case d.V1 != nil:
		b, err = renderRawV1(w, d.V1)
	default:
		b = []byte(`{"version":2}`)
	}
	if err != nil {
		panic(fmt.Sprintf("relaysim: cannot render document: %v", err))
	}
	switch d.Kind {
	case "garbled":
		// valid prefix, then something that is not JSON
		g := append([]byte{}, b[:len(b)/2]...)
		return append(g, []byte(`}}<html>502 Bad Gateway</html>`)...), nil
	case "truncated":
		return b[:len(b)*2/3], nil
	case "shaped":
		return applyShape(b, d.Shape), nil
	}
	return b, nil
}

// ---------------------------------------------------------------------------
// the configuration source (majordomo)

// FetchRec is one Fetch seen by the source.
type FetchRec struct {
	Op            string
	Seq           int // which state of the source was served (index into States)
	Step, EndStep int // call / delivery
	T, EndT       time.Duration
	Delivered     bool // body or error handed to vouch (not cancelled)
	Cancelled     bool
}

// Source serves the current state; the harness changes it with Set.
type Source struct {
	w       *World
	States  []*Doc // every state the source ever had, in order
	SetStep []int
	SetT    []time.Duration
	bodies  [][]byte
	errs    []error
	Fetches []*FetchRec
}

var _ majordomo.Service = (*Source)(nil)

// Set makes d the current content of the source.
func (s *Source) Set(d *Doc) int {
	b, err := d.Render(s.w)
	n := 0
	simrt.Crit(func() {
		s.States = append(s.States, d)
		s.bodies = append(s.bodies, b)
		s.errs = append(s.errs, err)
		s.SetStep = append(s.SetStep, simrt.Step())
		s.SetT = append(s.SetT, simrt.Now())
		n = len(s.States) - 1
	})
	return n
}

// Body returns what state n serves.
func (s *Source) Body(n int) []byte { return s.bodies[n] }

func (s *Source) Fetch(ctx context.Context, url string) ([]byte, error) {
	if url != ConfigURL {
		return nil, majordomo.ErrNotFound
	}
	rec := &FetchRec{Op: CallerOp(), Step: simrt.Step(), T: simrt.Now(), Seq: -1}
	var d *Doc
	var body []byte
	var ferr error
	simrt.Crit(func() {
		// the content is read when the request arrives
		if n := len(s.States) - 1; n >= 0 {
			rec.Seq, d, body, ferr = n, s.States[n], s.bodies[n], s.errs[n]
		}
		s.Fetches = append(s.Fetches, rec)
	})
	if d == nil {
		simrt.Yield("source/Fetch")
		simrt.Crit(func() { rec.EndStep, rec.EndT, rec.Delivered = simrt.Step(), simrt.Now(), true })
		return nil, majordomo.ErrNotFound
	}
	if err := simrt.Sleep(ctx, d.Latency, "source/Fetch"); err != nil {
		simrt.Crit(func() { rec.EndStep, rec.EndT, rec.Cancelled = simrt.Step(), simrt.Now(), true })
		return nil, err
	}
	if d.Latency > 0 {
		simrt.Probe("fault:fetch-slow")
	}
	if !d.Good() && d.Kind != "raw" && d.Kind != "shaped" {
		simrt.Probe("fault:fetch-" + d.Kind)
	} else if d.Kind == "shaped" {
		simrt.Probe("fault:fetch-" + d.Kind)
	}
	simrt.Crit(func() { rec.EndStep, rec.EndT, rec.Delivered = simrt.Step(), simrt.Now(), true })
	if ferr != nil {
		return nil, ferr
	}
	return append([]byte{}, body...), nil
}

// InForce lists the documents that can be the configuration in force at some
// moment of the simulated interval [tc, tr], by the last-good-configuration
// rule: a usable document takes effect at the instant it is delivered (events
// of the same instant are unordered), anything else leaves the previous one in
// force.  A nil element stands for "no document yet": the fallback values.
func (s *Source) InForce(tc, tr time.Duration) []*Doc {
	type del struct {
		d    *Doc
		t    time.Duration
		step int
	}
	var ds []del
	simrt.Crit(func() {
		for _, f := range s.Fetches {
			if f.Delivered && f.Seq >= 0 && s.States[f.Seq].Good() {
				ds = append(ds, del{s.States[f.Seq], f.EndT, f.EndStep})
			}
		}
	})
	for i := 1; i < len(ds); i++ { // insertion sort by delivery order
		for j := i; j > 0 && ds[j].step < ds[j-1].step; j-- {
			ds[j], ds[j-1] = ds[j-1], ds[j]
		}
	}
	var out []*Doc
	superseded := func(i int) bool { // a later delivery strictly before tc
		for j := i + 1; j < len(ds); j++ {
			if ds[j].t < tc {
				return true
			}
		}
		return false
	}
	if !superseded(-1) {
		out = append(out, nil)
	}
	for i, d := range ds {
		if d.t <= tr && !superseded(i) {
			out = append(out, d.d)
		}
	}
	return out
}

// ---------------------------------------------------------------------------
// odd-shaped documents (C16): a usable document with some JSON nodes replaced

// ShapeMut replaces (or deletes) the Node-th node of the rendered JSON tree.
type ShapeMut struct {
	Node int `json:"node"`
	Repl int `json:"repl"`
}

// ShapeRepls are the replacement values; "" deletes the node from its parent.
var ShapeRepls = []string{`null`, `null`, `null`, `[]`, `{}`, `""`, `0`, `-1`, `"0x"`, `[null]`, `{"x":null}`, `true`, `"1"`, `18446744073709551616`, ``}

type jsonSlot struct {
	set func(v any)
	del func()
}

func jsonSlots(v any, out *[]jsonSlot) {
	switch t := v.(type) {
	case map[string]any:
		keys := make([]string, 0, len(t))
		for k := range t {
			keys = append(keys, k)
		}
		sort.Strings(keys)
		for _, k := range keys {
			k := k
			*out = append(*out, jsonSlot{set: func(v any) { t[k] = v }, del: func() { delete(t, k) }})
			jsonSlots(t[k], out)
		}
	case []any:
		for i := range t {
			i := i
			*out = append(*out, jsonSlot{set: func(v any) { t[i] = v }, del: func() { t[i] = nil }})
			jsonSlots(t[i], out)
		}
	}
}

// applyShape applies the mutations in order; a mutation that cannot apply is skipped.
func applyShape(b []byte, muts []ShapeMut) []byte {
	dec := json.NewDecoder(bytes.NewReader(b))
	dec.UseNumber()
	var tree any
	if err := dec.Decode(&tree); err != nil {
		return b
	}
	for _, m := range muts {
		var slots []jsonSlot
		jsonSlots(tree, &slots)
		if len(slots) == 0 {
			break
		}
		s := slots[m.Node%len(slots)]
		r := ShapeRepls[m.Repl%len(ShapeRepls)]
		if r == "" {
			s.del()
		} else {
			s.set(json.RawMessage(r))
			// re-decode so that later mutations see the new subtree
			nb, err := json.Marshal(tree)
			if err != nil {
				return b
			}
			dec := json.NewDecoder(bytes.NewReader(nb))
			dec.UseNumber()
			tree = nil
			if err := dec.Decode(&tree); err != nil {
				return nb
			}
		}
	}
	nb, err := json.Marshal(tree)
	if err != nil {
		return b
	}
	return nb
}
