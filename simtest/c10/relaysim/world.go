// Package relaysim is the simulated environment shared by the block relay
// scenarios (C10, C11, C12): validators with wallet/account names, a scripted
// execution-configuration source (majordomo), simulated MEV relays, beacon
// nodes receiving registrations and proposal preparations, and the
// construction of the real blockrelay/standard service without any socket.
package relaysim

import (
	"context"
	"errors"
	"fmt"
	"math/rand"
	"os"
	"os/signal"
	"runtime"
	"strings"
	"syscall"
	"time"

	"github.com/attestantio/go-block-relay/services/blockauctioneer"
	builderclient "github.com/attestantio/go-builder-client"
	builderapi "github.com/attestantio/go-builder-client/api"
	"github.com/attestantio/go-builder-client/api/deneb"
	builderapiv1 "github.com/attestantio/go-builder-client/api/v1"
	builderspec "github.com/attestantio/go-builder-client/spec"
	eth2client "github.com/attestantio/go-eth2-client"
	consensusapi "github.com/attestantio/go-eth2-client/api"
	apiv1 "github.com/attestantio/go-eth2-client/api/v1"
	consensusspec "github.com/attestantio/go-eth2-client/spec"
	"github.com/attestantio/go-eth2-client/spec/bellatrix"
	"github.com/attestantio/go-eth2-client/spec/phase0"
	"github.com/attestantio/vouch/services/beaconblockproposer"
	"github.com/attestantio/vouch/services/blockrelay"
	standardblockrelay "github.com/attestantio/vouch/services/blockrelay/standard"
	"github.com/attestantio/vouch/services/chaintime"
	nullmetrics "github.com/attestantio/vouch/services/metrics/null"
	standardpreparer "github.com/attestantio/vouch/services/proposalpreparer/standard"
	"github.com/attestantio/vouch/services/scheduler"
	advancedscheduler "github.com/attestantio/vouch/services/scheduler/advanced"
	standardsigner "github.com/attestantio/vouch/services/signer/standard"
	"github.com/attestantio/vouch/util"
	"github.com/google/uuid"
	"github.com/holiman/uint256"
	"github.com/rs/zerolog"
	e2wtypes "github.com/wealdtech/go-eth2-wallet-types/v2"

	"verif/simrt"
	"verif/simtest/env"
)

func init() {
	// The block relay's REST daemon calls signal.Notify in a goroutine of its
	// own.  The first signal.Notify of a process starts os/signal's watcher
	// goroutine; started from inside a synctest bubble it would belong to that
	// bubble and never become durably blocked.  Start it here, outside.
	c := make(chan os.Signal, 1)
	signal.Notify(c, syscall.SIGUSR2)
	signal.Stop(c)
}

// ListenAddress passes vouch's parameter check (net.SplitHostPort) but can
// never be bound: the port is out of range, so net.Listen fails while parsing
// the address, before any socket is created.  The daemon's ListenAndServe runs
// in its own goroutine and only logs the failure.
const ListenAddress = "127.0.0.1:99999"

// ConfigURL is a non-http URL, so vouch fetches it as a static source.
const ConfigURL = "file:///sim/execution-config.json"

// SeedGlobalRand makes vouch's use of the math/rand top-level functions
// (registration job time) a function of the plan.  Needs GODEBUG randseednop=0
// (set by a //go:debug line in the scenario package's worker_test.go).
func SeedGlobalRand(seed int64) {
	rand.Seed(seed) //nolint:staticcheck
}

// ---------------------------------------------------------------------------
// value pools

// FeeAddr is execution address number i (never zero).
func FeeAddr(i int) bellatrix.ExecutionAddress {
	var a bellatrix.ExecutionAddress
	for j := range a {
		a[j] = byte(0x10*(i+1) + j)
	}
	a[0] = byte(i + 1)
	return a
}

// FeeIndex is the inverse of FeeAddr (-1 if unknown).
func FeeIndex(a bellatrix.ExecutionAddress) int {
	for i := 0; i < 64; i++ {
		if FeeAddr(i) == a {
			return i
		}
	}
	return -1
}

// FallbackFee is the index of the fallback fee recipient of vouch's own configuration.
const FallbackFee = 15

var GasPool = []uint64{30000000, 36000000, 45000000, 60000000, 100000000}
var GracePool = []int64{50, 100, 250, 500, 1000} // ms
var MinValPool = []string{"0", "0.01", "0.05", "0.1", "0.25", "0.5", "1"}

// NRelays is the size of the relay universe; every address is backed by a stub.
const NRelays = 6

func RelayAddr(i int) string {
	if i == UnusableRelay {
		return "https://relay seven.example.com/" // url.Parse rejects the host: no client can be made, and no I/O is attempted
	}
	if i == RejectedRelay {
		return "https://0xnot-a-public-key@relay8.example.com/" // parses as a URL; the builder client refuses it before any I/O
	}
	return fmt.Sprintf("https://relay%d.example.com/", i)
}

// UnusableRelay is the address number of a relay that cannot be contacted at all (see RelayAddr).
const UnusableRelay = 7

// RejectedRelay is the address number of a relay whose address parses but for which the builder client cannot be created.
const RejectedRelay = 8

// RelayPub is relay public key number i (content is irrelevant to the configuration).
func RelayPub(i int) phase0.BLSPubKey {
	var k phase0.BLSPubKey
	for j := range k {
		k[j] = byte(0x80 + 7*i + j)
	}
	return k
}

// ---------------------------------------------------------------------------
// validators

// ValSpec is the plan-side description of one validator.
type ValSpec struct {
	Wallet     int   `json:"wallet"`  // "Wallet <n>"
	Account    int   `json:"account"` // "Account <n>"
	Kind       int   `json:"kind"`    // env.AccountKind
	Activation int64 `json:"act"`     // activation epoch relative to the start epoch (<=0: already active)
	Exit       int64 `json:"exit"`    // exit epoch relative to the start epoch (0 = never)
}

// Val is a validator of the simulated world.
type Val struct {
	N        int
	Spec     ValSpec
	KeyIndex int
	Index    phase0.ValidatorIndex
	PubKey   phase0.BLSPubKey
	Name     string // "<wallet>/<account>" as the documentation writes it
	Acc      e2wtypes.Account
}

type stubWallet struct {
	id   uuid.UUID
	name string
}

func (w *stubWallet) ID() uuid.UUID { return w.id }
func (w *stubWallet) Type() string  { return "sim" }
func (w *stubWallet) Name() string  { return w.name }
func (w *stubWallet) Version() uint { return 1 }
func (w *stubWallet) Accounts(_ context.Context) <-chan e2wtypes.Account {
	ch := make(chan e2wtypes.Account)
	close(ch)
	return ch
}

// World is everything around the block relay service in one run.
type World struct {
	Chain      *env.Chain
	StartEpoch uint64
	Log        *env.SignerLog
	Script     *env.Script
	Vals       []*Val
	Relays     []*Relay
	Secondary  []*Node
	PrepNodes  []*Node
	Source     *Source
	Accounts   *AccountsStub
	Bids       *BidProvider

	FallbackGas uint64

	Sched     *advancedscheduler.Service
	ChainTime chaintime.Service
	Svc       *standardblockrelay.Service
	Preparer  *standardpreparer.Service
}

// WorldSpec is the plan-side description of the world.
type WorldSpec struct {
	Vals        []ValSpec `json:"vals"`
	NSecondary  int       `json:"secondary"`
	NPrep       int       `json:"prep"`
	FallbackGas uint64    `json:"fallback_gas"`
	// Chain timing.
	SecondsPerSlot uint64 `json:"sps"`
	SlotsPerEpoch  uint64 `json:"spe"`
	// StartOffset is how far into epoch StartEpoch the run starts.
	StartOffset time.Duration `json:"start_offset"`
	RandSeed    int64         `json:"rand_seed"`
}

// StartEpochDefault keeps epoch arithmetic away from zero.
const StartEpochDefault = 100

// NewWorld builds the stubs (not the vouch services).  Must be called inside the bubble.
func NewWorld(ws *WorldSpec, script *env.Script) *World {
	util.VerifResetBuilderClients()
	SeedGlobalRand(ws.RandSeed)
	w := &World{Log: &env.SignerLog{}, Script: script, FallbackGas: ws.FallbackGas, StartEpoch: StartEpochDefault}
	if script == nil {
		w.Script = &env.Script{}
	}
	epochDur := time.Duration(ws.SecondsPerSlot*ws.SlotsPerEpoch) * time.Second
	w.Chain = env.DefaultChain(-time.Duration(w.StartEpoch)*epochDur - ws.StartOffset)
	w.Chain.SecondsPerSlot = ws.SecondsPerSlot
	w.Chain.SlotsPerEpoch = ws.SlotsPerEpoch
	wallets := map[int]*stubWallet{}
	for i, vs := range ws.Vals {
		wal := wallets[vs.Wallet]
		if wal == nil {
			var idb [16]byte
			idb[0] = 0xee
			idb[15] = byte(vs.Wallet)
			wal = &stubWallet{id: uuid.UUID(idb), name: fmt.Sprintf("Wallet %d", vs.Wallet)}
			wallets[vs.Wallet] = wal
		}
		acc := env.NewAccount(w.Log, env.AccountKind(vs.Kind), i, fmt.Sprintf("Account %d", vs.Account))
		env.StubOf(acc).SetWallet(wal)
		w.Vals = append(w.Vals, &Val{N: i, Spec: vs, KeyIndex: i, Index: phase0.ValidatorIndex(1000 + 7*i), PubKey: env.PubKey(i),
			Name: fmt.Sprintf("Wallet %d/Account %d", vs.Wallet, vs.Account), Acc: acc})
	}
	for i := 0; i < NRelays; i++ {
		r := &Relay{w: w, N: i, Addr: RelayAddr(i), Party: fmt.Sprintf("relay%d", i)}
		w.Relays = append(w.Relays, r)
		util.VerifSetBuilderClient(r.Addr, r)
	}
	for i := 0; i < ws.NSecondary; i++ {
		w.Secondary = append(w.Secondary, &Node{w: w, Party: fmt.Sprintf("sec%d", i)})
	}
	for i := 0; i < ws.NPrep; i++ {
		w.PrepNodes = append(w.PrepNodes, &Node{w: w, Party: fmt.Sprintf("prep%d", i)})
	}
	w.Source = &Source{w: w}
	w.Accounts = &AccountsStub{w: w}
	w.Bids = &BidProvider{w: w}
	return w
}

// ActiveAt tells whether v is a validating account in (absolute) epoch e.
func (w *World) ActiveAt(v *Val, e uint64) bool {
	act := int64(w.StartEpoch) + v.Spec.Activation
	if int64(e) < act {
		return false
	}
	if v.Spec.Exit != 0 && int64(e) >= int64(w.StartEpoch)+v.Spec.Exit {
		return false
	}
	return true
}

// EpochAt is the oracle-side epoch of simulated time t (since run start).
func (w *World) EpochAt(t time.Duration) uint64 {
	return w.Chain.EpochOf(w.Chain.SlotAt(env.SimEpoch.Add(t)))
}

// EpochDuration of the simulated chain.
func (w *World) EpochDuration() time.Duration {
	return time.Duration(w.Chain.SecondsPerSlot*w.Chain.SlotsPerEpoch) * time.Second
}

// ValByPub finds a validator by public key.
func (w *World) ValByPub(pk phase0.BLSPubKey) *Val {
	for _, v := range w.Vals {
		if v.PubKey == pk {
			return v
		}
	}
	return nil
}

// Start builds the real services: scheduler, chaintime, signer, block relay
// (which fetches the configuration and starts its jobs) and proposal preparer.
func (w *World) Start(ctx context.Context) error {
	var err error
	w.Sched, err = advancedscheduler.New(ctx, advancedscheduler.WithLogLevel(zerolog.Disabled), advancedscheduler.WithMonitor(nullmetrics.New()))
	if err != nil {
		return err
	}
	w.ChainTime = env.NewChainTime(ctx, w.Chain)
	cp := &env.ChainProviders{C: w.Chain}
	sgn, err := standardsigner.New(ctx, standardsigner.WithLogLevel(zerolog.Disabled), standardsigner.WithMonitor(nullmetrics.New()),
		standardsigner.WithClientMonitor(nullmetrics.New()), standardsigner.WithSpecProvider(cp), standardsigner.WithDomainProvider(&faultyDomains{cp: cp, w: w}))
	if err != nil {
		return err
	}
	var secs []eth2client.ValidatorRegistrationsSubmitter
	for _, n := range w.Secondary {
		secs = append(secs, n)
	}
	w.Svc, err = standardblockrelay.New(ctx,
		standardblockrelay.WithLogLevel(zerolog.Disabled),
		standardblockrelay.WithMonitor(nullmetrics.New()),
		standardblockrelay.WithMajordomo(w.Source),
		standardblockrelay.WithScheduler(w.Sched),
		standardblockrelay.WithListenAddress(ListenAddress),
		standardblockrelay.WithChainTime(w.ChainTime),
		standardblockrelay.WithConfigURL(ConfigURL),
		standardblockrelay.WithFallbackFeeRecipient(FeeAddr(FallbackFee)),
		standardblockrelay.WithFallbackGasLimit(w.FallbackGas),
		standardblockrelay.WithAccountsProvider(w.Accounts),
		standardblockrelay.WithValidatorsProvider(w.Accounts),
		standardblockrelay.WithValidatingAccountsProvider(w.Accounts),
		standardblockrelay.WithValidatorRegistrationSigner(sgn),
		standardblockrelay.WithSecondaryValidatorRegistrationsSubmitters(secs),
		standardblockrelay.WithReleaseVersion("sim"),
		standardblockrelay.WithBuilderBidProvider(w.Bids),
	)
	if err != nil {
		return err
	}
	if len(w.PrepNodes) > 0 {
		var subs []eth2client.ProposalPreparationsSubmitter
		for _, n := range w.PrepNodes {
			subs = append(subs, n)
		}
		w.Preparer, err = standardpreparer.New(ctx,
			standardpreparer.WithLogLevel(zerolog.Disabled),
			standardpreparer.WithMonitor(nullmetrics.New()),
			standardpreparer.WithChainTimeService(w.ChainTime),
			standardpreparer.WithValidatingAccountsProvider(w.Accounts),
			standardpreparer.WithProposalPreparationsSubmitters(subs),
			standardpreparer.WithExecutionConfigProvider(w.Svc),
		)
		if err != nil {
			return err
		}
	}
	return nil
}

// Names of the block relay's periodic jobs in the scheduler.
const (
	JobFetch    = "Fetch execution configuration"
	JobRegister = "Submit validator registrations"
)

var _ scheduler.Service = (*advancedscheduler.Service)(nil)

// ---------------------------------------------------------------------------
// who is calling: the vouch operation at the bottom of the current goroutine's stack

// CallerOp names the vouch operation on whose behalf a stub is being called.
func CallerOp() string {
	var pcs [48]uintptr
	n := runtime.Callers(2, pcs[:])
	fr := runtime.CallersFrames(pcs[:n])
	op := ""
	for {
		f, more := fr.Next()
		switch {
		case strings.HasSuffix(f.Function, "blockrelay/standard.(*Service).submitValidatorRegistrations"):
			op = "register"
		case strings.HasSuffix(f.Function, "blockrelay/standard.(*Service).fetchExecutionConfig"):
			op = "fetch"
		case strings.HasSuffix(f.Function, "proposalpreparer/standard.(*Service).UpdatePreparations"):
			op = "prepare"
		}
		if !more {
			break
		}
	}
	return op
}

// ---------------------------------------------------------------------------
// accounts / validators providers

// AccountsCall is one ValidatingAccountsForEpoch call.
type AccountsCall struct {
	Op    string
	Epoch uint64
	Step  int
	T     time.Duration
	Err   bool
}

type AccountsStub struct {
	w     *World
	Calls []AccountsCall
}

func (a *AccountsStub) ValidatingAccountsForEpoch(ctx context.Context, epoch phase0.Epoch) (map[phase0.ValidatorIndex]e2wtypes.Account, error) {
	op := CallerOp()
	idx := 0
	simrt.Crit(func() {
		a.Calls = append(a.Calls, AccountsCall{Op: op, Epoch: uint64(epoch), Step: simrt.Step(), T: simrt.Now()})
		idx = len(a.Calls) - 1
	})
	if _, err := a.w.Script.Do(ctx, "accounts", "ValidatingAccountsForEpoch/"+op, uint64(epoch)); err != nil {
		simrt.Crit(func() { a.Calls[idx].Err = true })
		return nil, err
	}
	out := map[phase0.ValidatorIndex]e2wtypes.Account{}
	for _, v := range a.w.Vals {
		if a.w.ActiveAt(v, uint64(epoch)) {
			out[v.Index] = v.Acc
		}
	}
	return out, nil
}

func (a *AccountsStub) ValidatingAccountsForEpochByIndex(ctx context.Context, epoch phase0.Epoch, indices []phase0.ValidatorIndex) (map[phase0.ValidatorIndex]e2wtypes.Account, error) {
	all, err := a.ValidatingAccountsForEpoch(ctx, epoch)
	if err != nil {
		return nil, err
	}
	out := map[phase0.ValidatorIndex]e2wtypes.Account{}
	for _, i := range indices {
		if acc, ok := all[i]; ok {
			out[i] = acc
		}
	}
	return out, nil
}

func (a *AccountsStub) SyncCommitteeAccountsForEpoch(ctx context.Context, epoch phase0.Epoch) (map[phase0.ValidatorIndex]e2wtypes.Account, error) {
	return a.ValidatingAccountsForEpoch(ctx, epoch)
}

func (a *AccountsStub) SyncCommitteeAccountsForEpochByIndex(ctx context.Context, epoch phase0.Epoch, indices []phase0.ValidatorIndex) (map[phase0.ValidatorIndex]e2wtypes.Account, error) {
	return a.ValidatingAccountsForEpochByIndex(ctx, epoch, indices)
}

var errNoAccount = errors.New("account not found")

func (a *AccountsStub) AccountByPublicKey(_ context.Context, pubkey phase0.BLSPubKey) (e2wtypes.Account, error) {
	simrt.Yield("accounts/AccountByPublicKey")
	if v := a.w.ValByPub(pubkey); v != nil {
		return v.Acc, nil
	}
	return nil, errNoAccount
}

func (a *AccountsStub) Validators(_ context.Context, opts *consensusapi.ValidatorsOpts) (*consensusapi.Response[map[phase0.ValidatorIndex]*apiv1.Validator], error) {
	simrt.Yield("accounts/Validators")
	out := map[phase0.ValidatorIndex]*apiv1.Validator{}
	for _, v := range a.w.Vals {
		want := len(opts.Indices) == 0 && len(opts.PubKeys) == 0
		for _, i := range opts.Indices {
			want = want || i == v.Index
		}
		for _, k := range opts.PubKeys {
			want = want || k == v.PubKey
		}
		if want {
			out[v.Index] = &apiv1.Validator{Index: v.Index, Balance: 32000000000, Status: apiv1.ValidatorStateActiveOngoing,
				Validator: &phase0.Validator{PublicKey: v.PubKey, EffectiveBalance: 32000000000, ExitEpoch: env.FarFuture, WithdrawableEpoch: env.FarFuture}}
		}
	}
	return &consensusapi.Response[map[phase0.ValidatorIndex]*apiv1.Validator]{Data: out, Metadata: map[string]any{}}, nil
}

// ---------------------------------------------------------------------------
// simulated relay

// RegRec is one registration as a relay or beacon node received it.
type RegRec struct {
	Fee       bellatrix.ExecutionAddress
	Gas       uint64
	Timestamp time.Time
	PubKey    phase0.BLSPubKey
	Sig       phase0.BLSSignature
}

// Root is the hash tree root of the registration message as received.
func (r *RegRec) Root() phase0.Root {
	m := &builderapiv1.ValidatorRegistration{FeeRecipient: r.Fee, GasLimit: r.Gas, Timestamp: r.Timestamp, Pubkey: r.PubKey}
	root, err := m.HashTreeRoot()
	if err != nil {
		panic(err)
	}
	return root
}

// Submission is one SubmitValidatorRegistrations call seen by a party.
type Submission struct {
	Party         string
	Op            string
	Step, EndStep int
	T, EndT       time.Duration
	OK            bool // the party accepted it
	Regs          []RegRec
	Odd           string // malformed entries
}

// BidCall is one BuilderBid request seen by a relay.
type BidCall struct {
	Step int
	T    time.Duration
	Slot phase0.Slot
	Pub  phase0.BLSPubKey
}

type Relay struct {
	w     *World
	N     int
	Addr  string
	Party string
	Subs  []*Submission
	Bids  []BidCall
}

var (
	_ builderclient.ValidatorRegistrationsSubmitter = (*Relay)(nil)
	_ builderclient.BuilderBidProvider              = (*Relay)(nil)
	_ builderclient.UnblindedProposalProvider       = (*Relay)(nil)
)

func (r *Relay) Name() string              { return r.Party }
func (r *Relay) Address() string           { return r.Addr }
func (r *Relay) Pubkey() *phase0.BLSPubKey { return nil }

func (r *Relay) SubmitValidatorRegistrations(ctx context.Context, opts *builderapi.SubmitValidatorRegistrationsOpts) error {
	sub := &Submission{Party: r.Party, Step: simrt.Step(), T: simrt.Now()}
	for _, vr := range opts.Registrations {
		if vr == nil || vr.V1 == nil || vr.V1.Message == nil {
			sub.Odd = "nil registration"
			continue
		}
		if vr.Version != builderspec.BuilderVersionV1 {
			sub.Odd = "version"
		}
		m := vr.V1.Message
		sub.Regs = append(sub.Regs, RegRec{Fee: m.FeeRecipient, Gas: m.GasLimit, Timestamp: m.Timestamp, PubKey: m.Pubkey, Sig: vr.V1.Signature})
	}
	simrt.Crit(func() { r.Subs = append(r.Subs, sub) })
	_, err := r.w.Script.Do(ctx, r.Party, "SubmitValidatorRegistrations", nil)
	simrt.Crit(func() { sub.EndStep, sub.EndT, sub.OK = simrt.Step(), simrt.Now(), err == nil })
	return err
}

func (r *Relay) BuilderBid(ctx context.Context, opts *builderapi.BuilderBidOpts) (*builderapi.Response[*builderspec.VersionedSignedBuilderBid], error) {
	simrt.Crit(func() {
		r.Bids = append(r.Bids, BidCall{Step: simrt.Step(), T: simrt.Now(), Slot: opts.Slot, Pub: opts.PubKey})
	})
	o, err := r.w.Script.Do(ctx, r.Party, "BuilderBid", nil)
	if err != nil {
		return nil, err
	}
	return &builderapi.Response[*builderspec.VersionedSignedBuilderBid]{Data: MakeBid(uint64(1000 + 100*r.N + o.Variant)), Metadata: map[string]any{}}, nil
}

func (r *Relay) UnblindProposal(ctx context.Context, _ *builderapi.UnblindProposalOpts) (*builderapi.Response[*consensusapi.VersionedSignedProposal], error) {
	if _, err := r.w.Script.Do(ctx, r.Party, "UnblindProposal", nil); err != nil {
		return nil, err
	}
	return nil, errors.New("simulated relay does not know the payload")
}

// MakeBid builds a bid of the given value (gwei-ish units; content is irrelevant here).
func MakeBid(value uint64) *builderspec.VersionedSignedBuilderBid {
	return &builderspec.VersionedSignedBuilderBid{
		Version: consensusspec.DataVersionDeneb,
		Deneb:   &deneb.SignedBuilderBid{Message: &deneb.BuilderBid{Value: uint256.NewInt(value)}},
	}
}

// ---------------------------------------------------------------------------
// builder bid strategy stand-in: asks every configured relay through the
// builder-client cache (like the real strategies do) and picks the highest bid.

// AuctionRec is one auction as the strategy saw it.
type AuctionRec struct {
	Step   int
	T      time.Duration
	Pub    phase0.BLSPubKey
	Config *beaconblockproposer.ProposerConfig
	Slot   phase0.Slot
	Parent phase0.Hash32
	// EndStep/Failed: set when the strategy returned (Failed: with an error)
	EndStep int
	Failed  bool
}

type BidProvider struct {
	w        *World
	Auctions []AuctionRec
}

func (b *BidProvider) BuilderBid(ctx context.Context, slot phase0.Slot, parentHash phase0.Hash32, pubkey phase0.BLSPubKey,
	proposerConfig *beaconblockproposer.ProposerConfig, _ map[phase0.BLSPubKey]*blockrelay.BuilderConfig,
) (*blockauctioneer.Results, error) {
	var idx int
	simrt.Crit(func() {
		idx = len(b.Auctions)
		b.Auctions = append(b.Auctions, AuctionRec{Step: simrt.Step(), T: simrt.Now(), Pub: pubkey, Config: proposerConfig, Slot: slot, Parent: parentHash})
	})
	defer func() { simrt.Crit(func() { b.Auctions[idx].EndStep = simrt.Step() }) }()
	if _, err := b.w.Script.Do(ctx, "strategy", "BuilderBid", nil); err != nil {
		simrt.Crit(func() { b.Auctions[idx].Failed = true })
		return nil, err
	}
	res := &blockauctioneer.Results{Participation: map[string]*blockauctioneer.Participation{}}
	var best *uint256.Int
	for _, rc := range proposerConfig.Relays {
		client, err := util.FetchBuilderClient(ctx, rc.Address, nullmetrics.New(), "sim")
		if err != nil {
			continue
		}
		p, ok := client.(builderclient.BuilderBidProvider)
		if !ok {
			continue
		}
		res.AllProviders = append(res.AllProviders, p)
		resp, err := p.BuilderBid(ctx, &builderapi.BuilderBidOpts{Slot: slot, ParentHash: parentHash, PubKey: pubkey})
		if err != nil || resp == nil || resp.Data == nil {
			continue
		}
		v, err := resp.Data.Value()
		if err != nil {
			continue
		}
		part := &blockauctioneer.Participation{Category: "standard", Score: v.ToBig(), Bid: resp.Data}
		res.Participation[rc.Address] = part
		if best == nil || v.Cmp(best) > 0 {
			best = v
			res.WinningParticipation = part
			res.Providers = []builderclient.BuilderBidProvider{p}
		}
	}
	return res, nil
}

// ---------------------------------------------------------------------------
// beacon nodes (secondary registration targets and proposal preparation targets)

type tagKey struct{}

// WithTag marks a context handed to vouch, so that the stubs at the far end
// can tell which harness call an incoming request belongs to (vouch passes
// its caller's context down to the clients).
func WithTag(ctx context.Context, tag any) context.Context {
	return context.WithValue(ctx, tagKey{}, tag)
}

// TagOf returns the tag of WithTag (nil if none).
func TagOf(ctx context.Context) any { return ctx.Value(tagKey{}) }

// PrepRec is one SubmitProposalPreparations call.
type PrepRec struct {
	Tag           any
	Party         string
	Step, EndStep int
	T, EndT       time.Duration
	OK            bool
	Fees          map[phase0.ValidatorIndex]bellatrix.ExecutionAddress
	Dup           bool // same validator index twice in one call
}

type Node struct {
	w     *World
	Party string
	Subs  []*Submission
	Preps []*PrepRec
}

func (n *Node) Name() string    { return n.Party }
func (n *Node) Address() string { return n.Party + ":5052" }
func (n *Node) IsActive() bool  { return true }
func (n *Node) IsSynced() bool  { return true }

func (n *Node) SubmitValidatorRegistrations(ctx context.Context, regs []*consensusapi.VersionedSignedValidatorRegistration) error {
	sub := &Submission{Party: n.Party, Step: simrt.Step(), T: simrt.Now()}
	for _, vr := range regs {
		if vr == nil || vr.V1 == nil || vr.V1.Message == nil {
			sub.Odd = "nil registration"
			continue
		}
		m := vr.V1.Message
		sub.Regs = append(sub.Regs, RegRec{Fee: m.FeeRecipient, Gas: m.GasLimit, Timestamp: m.Timestamp, PubKey: m.Pubkey, Sig: vr.V1.Signature})
	}
	simrt.Crit(func() { n.Subs = append(n.Subs, sub) })
	_, err := n.w.Script.Do(ctx, n.Party, "SubmitValidatorRegistrations", nil)
	simrt.Crit(func() { sub.EndStep, sub.EndT, sub.OK = simrt.Step(), simrt.Now(), err == nil })
	return err
}

func (n *Node) SubmitProposalPreparations(ctx context.Context, preps []*apiv1.ProposalPreparation) error {
	rec := &PrepRec{Tag: TagOf(ctx), Party: n.Party, Step: simrt.Step(), T: simrt.Now(), Fees: map[phase0.ValidatorIndex]bellatrix.ExecutionAddress{}}
	for _, p := range preps {
		if p == nil {
			continue
		}
		if _, dup := rec.Fees[p.ValidatorIndex]; dup {
			rec.Dup = true
		}
		rec.Fees[p.ValidatorIndex] = p.FeeRecipient
	}
	simrt.Crit(func() { n.Preps = append(n.Preps, rec) })
	_, err := n.w.Script.Do(ctx, n.Party, "SubmitProposalPreparations", nil)
	simrt.Crit(func() { rec.EndStep, rec.EndT, rec.OK = simrt.Step(), simrt.Now(), err == nil })
	return err
}

// faultyDomains is the node's domain provider with scripted outcomes ("chain/GenesisDomain", "chain/Domain").
type faultyDomains struct {
	cp *env.ChainProviders
	w  *World
}

func (d *faultyDomains) Domain(ctx context.Context, dt phase0.DomainType, epoch phase0.Epoch) (phase0.Domain, error) {
	if _, err := d.w.Script.Do(ctx, "chain", "Domain", nil); err != nil {
		return phase0.Domain{}, err
	}
	return d.cp.Domain(ctx, dt, epoch)
}

func (d *faultyDomains) GenesisDomain(ctx context.Context, dt phase0.DomainType) (phase0.Domain, error) {
	if _, err := d.w.Script.Do(ctx, "chain", "GenesisDomain", nil); err != nil {
		return phase0.Domain{}, err
	}
	return d.cp.GenesisDomain(ctx, dt)
}
