package relaysim

import (
	"encoding/json"
	"time"

	"verif/simrt"
)

// names the validators can have: "Wallet w/Account a"
var valNames = [][2]int{{1, 1}, {1, 2}, {1, 3}, {2, 1}, {2, 2}, {2, 3}}

// RegexPool: account specifiers with and without anchors, overlapping so that
// the order of entries matters, and some that only match if vouch does (or
// does not) add the missing anchors.
var RegexPool = []string{
	"Wallet 1/.*",
	"^Wallet 1/.*$",
	"^Wallet 2/Account [123]$",
	"Wallet 2/Account [12]",
	".*/Account 1",
	"Wallet 1/Account 2",
	"^Wallet 2/Account 3$",
	"Wallet ./Account 3",
	".*",
	// match something only while unanchored:
	"Wallet 1/Account",
	"Account 2",
	"Wallet 2",
	"^Wallet 1/Account",
	"Account [13]$",
	"allet 1/Account 1",
}

// GenWorldSpec draws validators and nodes.
func GenWorldSpec(p *simrt.Tape, minVals, maxVals int) *WorldSpec {
	ws := &WorldSpec{SecondsPerSlot: 12, SlotsPerEpoch: 8, FallbackGas: 30000000}
	if p.Pct(30) {
		ws.FallbackGas = 36000000
	}
	n := p.Range(minVals, maxVals)
	perm := []int{0, 1, 2, 3, 4, 5}
	for i := len(perm) - 1; i > 0; i-- {
		j := p.Pick(i + 1)
		perm[i], perm[j] = perm[j], perm[i]
	}
	for i := 0; i < n; i++ {
		nm := valNames[perm[i]]
		ws.Vals = append(ws.Vals, ValSpec{Wallet: nm[0], Account: nm[1], Kind: p.Pick(4)})
	}
	ws.RandSeed = int64(p.Draw(1 << 20))
	return ws
}

func genVals(p *simrt.Tape, density int, withPub bool) Vals {
	var v Vals
	if p.Pct(density) {
		f := p.Pick(10)
		v.Fee = &f
	}
	if p.Pct(density) {
		g := GasPool[p.Pick(len(GasPool))]
		v.Gas = &g
	}
	if p.Pct(density * 2 / 3) {
		g := GracePool[p.Pick(len(GracePool))]
		v.Grace = &g
	}
	if p.Pct(density) {
		m := MinValPool[p.Pick(len(MinValPool))]
		v.MinV = &m
	}
	if withPub && p.Pct(density) {
		k := p.Pick(6)
		v.Pub = &k
	}
	return v
}

func pickDistinct(p *simrt.Tape, n, from int) []int {
	perm := make([]int, from)
	for i := range perm {
		perm[i] = i
	}
	for i := from - 1; i > 0; i-- {
		j := p.Pick(i + 1)
		perm[i], perm[j] = perm[j], perm[i]
	}
	if n > from {
		n = from
	}
	return perm[:n]
}

// GenOpts steers the document generator.
type GenOpts struct {
	NVals        int
	Unresolvable int // percent of v2 documents that get an entry vouch cannot apply
	V1           int // percent of legacy documents
	MaxRelays    int
	MaxProposers int
	// AvoidKnown keeps the documents away from the C10 findings (a disabled
	// relay that is not inherited; legacy entries that rely on field-wise
	// fall-back to default_config), so that C11/C12 judge their own property.
	AvoidKnown bool
	// UnusableRelay: percent of v2 documents that list, among the top-level relays, one whose address
	// no builder client can be made for (an operator's typo: a space in the host name).
	UnusableRelay int
}

// GenDocV2 draws a version 2 document.
func GenDocV2(p *simrt.Tape, o GenOpts) *DocV2 {
	d := &DocV2{}
	density := []int{15, 40, 40, 70}[p.Pick(4)]
	d.Vals = genVals(p, density, false)
	nr := p.Range(0, o.MaxRelays)
	for _, a := range pickDistinct(p, nr, NRelays) {
		d.Relays = append(d.Relays, RelayEntry{Addr: a, Vals: genVals(p, density, true)})
	}
	if o.UnusableRelay > 0 && p.Pct(o.UnusableRelay) {
		d.Relays = append(d.Relays, RelayEntry{Addr: []int{UnusableRelay, RejectedRelay}[p.Pick(2)], Vals: genVals(p, density, true)})
	}
	np := p.Range(0, o.MaxProposers)
	unres := -1
	if np > 0 && p.Pct(o.Unresolvable) {
		unres = p.Pick(np)
	}
	for i := 0; i < np; i++ {
		var e Proposer
		switch {
		case i == unres:
			k := -1
			e.Key = &k
		case p.Pct(45):
			k := p.Pick(o.NVals + 1) // NVals = a validator vouch does not manage
			e.Key = &k
		default:
			e.Regex = RegexPool[p.Pick(len(RegexPool))]
		}
		e.Vals = genVals(p, density, false)
		e.Reset = p.Pct(25)
		nre := p.Range(0, 3)
		for _, a := range pickDistinct(p, nre, NRelays) {
			re := RelayEntry{Addr: a}
			if p.Pct(30) {
				re.Disabled = true
				if p.Pct(30) { // a disabled relay may still carry values
					re.Vals = genVals(p, density, true)
				}
			} else {
				re.Vals = genVals(p, density, true)
			}
			if o.AvoidKnown && re.Disabled {
				inherited := false
				for _, t := range d.Relays {
					inherited = inherited || t.Addr == re.Addr
				}
				if !inherited || e.Reset {
					continue
				}
			}
			e.Relays = append(e.Relays, re)
		}
		d.Proposers = append(d.Proposers, e)
	}
	return d
}

func genV1Builder(p *simrt.Tape) *V1Builder {
	b := &V1Builder{Enabled: p.Pct(80)}
	if b.Enabled || p.Pct(30) {
		b.Relays = pickDistinct(p, p.Range(1, 3), NRelays)
	}
	if p.Pct(30) {
		g := GracePool[p.Pick(len(GracePool))]
		b.Grace = &g
	}
	return b
}

// GenDocV1 draws a legacy document.
func GenDocV1(p *simrt.Tape, o GenOpts) *DocV1 {
	d := &DocV1{Default: &V1Entry{}}
	if p.Pct(92) || o.AvoidKnown {
		f := p.Pick(10)
		d.Default.Fee = &f
	}
	if p.Pct(50) {
		g := GasPool[p.Pick(len(GasPool))]
		d.Default.Gas = &g
	}
	if p.Pct(70) {
		d.Default.Builder = genV1Builder(p)
	}
	np := p.Range(0, 3)
	for _, k := range pickDistinct(p, np, o.NVals) {
		e := V1Entry{Key: k}
		if o.AvoidKnown {
			f, g := p.Pick(10), GasPool[p.Pick(len(GasPool))]
			e.Fee, e.Gas, e.Builder = &f, &g, genV1Builder(p)
			d.Proposers = append(d.Proposers, e)
			continue
		}
		if p.Pct(75) {
			f := p.Pick(10)
			e.Fee = &f
		}
		if p.Pct(40) {
			g := GasPool[p.Pick(len(GasPool))]
			e.Gas = &g
		}
		if p.Pct(50) {
			e.Builder = genV1Builder(p)
		}
		d.Proposers = append(d.Proposers, e)
	}
	return d
}

// GenGoodDoc draws a usable document (v2 or legacy).
func GenGoodDoc(p *simrt.Tape, o GenOpts) *Doc {
	if p.Pct(o.V1) {
		return &Doc{Kind: "v1", V1: GenDocV1(p, o), ViaVouch: p.Bool()}
	}
	return &Doc{Kind: "v2", V2: GenDocV2(p, o), ViaVouch: p.Bool()}
}

// BadKinds are the ways the source can fail to provide a configuration.
var BadKinds = []string{"error", "notfound", "garbled", "truncated", "empty", "null"}

// GenBadDoc draws a failing state of the source.
func GenBadDoc(p *simrt.Tape, o GenOpts) *Doc {
	k := BadKinds[p.Pick(len(BadKinds))]
	d := &Doc{Kind: k}
	if k == "garbled" || k == "truncated" {
		d.V2 = GenDocV2(p, o)
		d.ViaVouch = p.Bool()
	}
	return d
}

// FetchLatencies for slow sources.
var FetchLatencies = []time.Duration{0, 0, 0, time.Millisecond, 300 * time.Millisecond, 2 * time.Second}

// GenShapedDoc draws a usable document and replaces one to three of its JSON nodes.
func GenShapedDoc(p *simrt.Tape, o GenOpts) *Doc {
	d := GenGoodDoc(p, o)
	d.Kind = "shaped"
	for i, n := 0, p.Range(1, 3); i < n; i++ {
		d.Shape = append(d.Shape, ShapeMut{Node: p.Intn(64), Repl: p.Pick(len(ShapeRepls))})
	}
	return d
}

// TweakGas returns a copy of a usable document in which only gas limits differ (every level that specifies one,
// and the top level in any case): a configuration change that alters nothing but what relays are told.
func TweakGas(p *simrt.Tape, d *Doc) *Doc {
	b, err := json.Marshal(d)
	if err != nil {
		panic(err)
	}
	n := &Doc{}
	if err := json.Unmarshal(b, n); err != nil {
		panic(err)
	}
	pool := []uint64{30000000, 36000000, 45000000, 60000000}
	other := func(cur *uint64) *uint64 {
		i := p.Pick(len(pool))
		if cur != nil && *cur == pool[i] {
			i = (i + 1) % len(pool) // never a loop on drawn values: a shrunk tape yields zeros for ever
		}
		g := pool[i]
		return &g
	}
	switch {
	case n.V2 != nil:
		n.V2.Gas = other(n.V2.Gas)
		for i := range n.V2.Relays {
			if n.V2.Relays[i].Gas != nil {
				n.V2.Relays[i].Gas = other(n.V2.Relays[i].Gas)
			}
		}
		for i := range n.V2.Proposers {
			if n.V2.Proposers[i].Gas != nil {
				n.V2.Proposers[i].Gas = other(n.V2.Proposers[i].Gas)
			}
		}
	case n.V1 != nil && n.V1.Default != nil:
		n.V1.Default.Gas = other(n.V1.Default.Gas)
	}
	return n
}
