package relaysim

import (
	"fmt"
	"regexp"
	"sort"
	"strings"
	"time"

	"github.com/attestantio/vouch/services/beaconblockproposer"
	"github.com/shopspring/decimal"
)

// Reference resolver, written from docs/executionconfig.md (version 2) and
// docs/execlayer.md (legacy format).  It never looks at vouch's code.
//
// Version 2 (executionconfig.md, "Processing and precedence" and the examples):
//   1. start with the fallback values of vouch's own configuration
//      (fee recipient, gas limit; relays cannot be given as fallback);
//   2. overwrite with the default values of the document: top-level
//      fee_recipient / gas_limit / min_value (/ grace) apply to every relay of
//      the top-level "relays" object, a value inside a relay's own object
//      overrides the top-level one for that relay;
//   3. overwrite with the values of the FIRST proposer entry that matches
//      (public key equality, or account regular expression with ^ and $ added
//      when missing, against "<wallet>/<account>"); nothing after it is looked at.
//      A value of the proposer entry applies to all relays ("will use a minimum
//      value of 0.4 for all relays"), a value in the entry's own relays object
//      applies to that relay; "disabled" removes the relay; a relay not among
//      the defaults is added; reset_relays leaves only the entry's own relays.
//   "If there is no minimum value specified it is assumed to be 0."
//
// Points on which the documentation is silent (not compared, see Unspec):
//   * grace is not described at all.  The property statement names it, so the
//     same level precedence is applied to it, but a relay for which no level
//     gives a grace is not compared;
//   * an entry that cannot be applied (all-zero public key) and lookups
//     without an account when account entries exist.
//
// Legacy format (execlayer.md, "Precedence of configuration values"): each of
// fee recipient, gas limit and builder configuration is taken from the
// validator's proposer_config entry if it is found there, else from
// default_config, else the fallback value (no relays).  Relays have no values
// of their own: they get the validator's fee recipient and gas limit.

// RRelay is one resolved relay.
type RRelay struct {
	Addr      int
	Fee       int // address pool index
	Gas       uint64
	Grace     time.Duration
	GraceSpec bool            // some level specified the grace
	MinV      decimal.Decimal // Wei
	Pub       *int
}

// Resolved is the reference result for one validator under one document.
type Resolved struct {
	Fee    int
	Relays map[int]*RRelay // by relay number
	// Unspec: the documentation does not say what happens (lookup reaches an entry that cannot be applied).
	Unspec bool
	// Matched proposer entry (-1 none), for probes.
	Entry int
	// Relays the matched entry marks disabled: inherited from the defaults
	// (and removed), or not inherited (nothing to remove).
	DisabledInherited, DisabledOther map[int]bool
}

func (r *Resolved) RelayList() []int {
	var out []int
	for k := range r.Relays {
		out = append(out, k)
	}
	sort.Ints(out)
	return out
}

// anchored compiles an account specifier the way the documentation describes:
// "if these [^ and $] are not supplied they are added".
func anchored(expr string) *regexp.Regexp {
	if !strings.HasPrefix(expr, "^") {
		expr = "^" + expr
	}
	if !strings.HasSuffix(expr, "$") {
		expr += "$"
	}
	return regexp.MustCompile(expr)
}

func minWei(s string) decimal.Decimal {
	return decimal.RequireFromString(s).Mul(decimal.New(1, 18))
}

func applyVals(r *RRelay, v Vals, withPub bool) {
	if v.Fee != nil {
		r.Fee = *v.Fee
	}
	if v.Gas != nil {
		r.Gas = *v.Gas
	}
	if v.Grace != nil {
		r.Grace, r.GraceSpec = time.Duration(*v.Grace)*time.Millisecond, true
	}
	if v.MinV != nil {
		r.MinV = minWei(*v.MinV)
	}
	if withPub && v.Pub != nil {
		p := *v.Pub
		r.Pub = &p
	}
}

// Resolve is the reference resolution of doc for validator val.  A nil doc or
// a doc that is not a usable configuration resolves to the fallback values.
func Resolve(w *World, d *Doc, val *Val) *Resolved {
	res := &Resolved{Fee: FallbackFee, Relays: map[int]*RRelay{}, Entry: -1}
	if d == nil || !d.Good() {
		return res
	}
	if d.V1 != nil {
		return resolveV1(w, d.V1, val)
	}
	c := d.V2
	// defaults over fallback
	base := RRelay{Fee: FallbackFee, Gas: w.FallbackGas}
	applyVals(&base, c.Vals, false)
	res.Fee = base.Fee
	for _, re := range c.Relays {
		r := base
		r.Addr = re.Addr
		applyVals(&r, re.Vals, true)
		res.Relays[re.Addr] = &r
	}
	// first matching proposer entry
	for i := range c.Proposers {
		p := &c.Proposers[i]
		match := false
		switch {
		case p.Key == nil:
			match = anchored(p.Regex).MatchString(val.Name)
		case *p.Key < 0:
			// cannot be applied: the documentation does not say what vouch does here
			res.Unspec = true
			return res
		default:
			match = *p.Key == val.N
		}
		if !match {
			continue
		}
		res.Entry = i
		// proposer values over the defaults, for the fee recipient and for every relay
		pbase := base
		applyVals(&pbase, p.Vals, false)
		res.Fee = pbase.Fee
		if p.Reset {
			res.Relays = map[int]*RRelay{}
		}
		for _, r := range res.Relays {
			applyVals(r, p.Vals, false)
		}
		res.DisabledInherited, res.DisabledOther = map[int]bool{}, map[int]bool{}
		for _, re := range p.Relays {
			if re.Disabled {
				if res.Relays[re.Addr] != nil {
					res.DisabledInherited[re.Addr] = true
				} else {
					res.DisabledOther[re.Addr] = true
				}
				delete(res.Relays, re.Addr)
				continue
			}
			r := res.Relays[re.Addr]
			if r == nil {
				n := pbase
				n.Addr = re.Addr
				r = &n
				res.Relays[re.Addr] = r
			}
			applyVals(r, re.Vals, true)
		}
		break
	}
	return res
}

func resolveV1(w *World, c *DocV1, val *Val) *Resolved {
	res := &Resolved{Fee: FallbackFee, Relays: map[int]*RRelay{}, Entry: -1}
	var levels []*V1Entry
	for i := range c.Proposers {
		if c.Proposers[i].Key == val.N {
			levels = append(levels, &c.Proposers[i])
			res.Entry = i
			break
		}
	}
	if c.Default != nil {
		levels = append(levels, c.Default)
	}
	gas := w.FallbackGas
	var builder *V1Builder
	feeSet, gasSet := false, false
	for _, l := range levels {
		if !feeSet && l.Fee != nil {
			res.Fee, feeSet = *l.Fee, true
		}
		if !gasSet && l.Gas != nil {
			gas, gasSet = *l.Gas, true
		}
		if builder == nil && l.Builder != nil {
			builder = l.Builder
		}
	}
	if builder != nil && builder.Enabled {
		for _, a := range builder.Relays {
			r := &RRelay{Addr: a, Fee: res.Fee, Gas: gas}
			if builder.Grace != nil {
				r.Grace, r.GraceSpec = time.Duration(*builder.Grace)*time.Millisecond, true
			}
			res.Relays[a] = r
		}
	}
	return res
}

// relayNumber maps an address back to the relay number (-1 unknown).
func relayNumber(addr string) int {
	for i := 0; i < NRelays; i++ {
		if RelayAddr(i) == addr {
			return i
		}
	}
	if addr == RelayAddr(UnusableRelay) {
		return UnusableRelay
	}
	if addr == RelayAddr(RejectedRelay) {
		return RejectedRelay
	}
	return -1
}

// Difference is one field on which vouch and the reference disagree.
type Difference struct {
	Class, Detail string
	// GotGas: vouch's value, for class relay-gas-limit (lets a caller tell which wrong value it is)
	GotGas uint64
}

// Diff compares what vouch returned with the reference, field by field, and
// returns every disagreement (classes are stable names).
func Diff(ref *Resolved, got *beaconblockproposer.ProposerConfig) []Difference {
	var out []Difference
	add := func(class, format string, a ...any) {
		out = append(out, Difference{Class: class, Detail: fmt.Sprintf(format, a...)})
	}
	if got == nil {
		add("nil-config", "ProposerConfig returned nil without error")
		return out
	}
	if gi := FeeIndex(got.FeeRecipient); gi != ref.Fee {
		add("fee-recipient", "fee recipient: vouch %#x (pool %d), documentation says pool %d", got.FeeRecipient[:], gi, ref.Fee)
	}
	seen := map[int]bool{}
	for _, rc := range got.Relays {
		n := relayNumber(rc.Address)
		rr := ref.Relays[n]
		if rr == nil {
			class := "relay-extra"
			switch {
			case ref.DisabledInherited[n]:
				class = "disabled-relay-kept"
			case ref.DisabledOther[n]:
				class = "disabled-relay-added"
			}
			add(class, "vouch uses relay %s which the documentation excludes (reference relays %v)", rc.Address, ref.RelayList())
			continue
		}
		if seen[n] {
			add("relay-twice", "relay %s twice", rc.Address)
			continue
		}
		seen[n] = true
		if gi := FeeIndex(rc.FeeRecipient); gi != rr.Fee {
			add("relay-fee-recipient", "relay %d fee recipient: vouch pool %d, documentation pool %d", n, gi, rr.Fee)
		}
		if rc.GasLimit != rr.Gas {
			add("relay-gas-limit", "relay %d gas limit: vouch %d, documentation %d", n, rc.GasLimit, rr.Gas)
			out[len(out)-1].GotGas = rc.GasLimit
		}
		if rr.GraceSpec && rc.Grace != rr.Grace {
			add("relay-grace", "relay %d grace: vouch %v, documentation %v", n, rc.Grace, rr.Grace)
		}
		if !rc.MinValue.Equal(rr.MinV) {
			add("relay-min-value", "relay %d min value: vouch %v Wei, documentation %v Wei", n, rc.MinValue, rr.MinV)
		}
		switch {
		case rr.Pub == nil && rc.PublicKey != nil:
			add("relay-public-key", "relay %d: vouch has a public key, documentation none", n)
		case rr.Pub != nil && (rc.PublicKey == nil || *rc.PublicKey != RelayPub(*rr.Pub)):
			add("relay-public-key", "relay %d: public key differs from key %d", n, *rr.Pub)
		}
	}
	if len(seen) != len(ref.Relays) {
		var missing []int
		for _, n := range ref.RelayList() {
			if !seen[n] {
				missing = append(missing, n)
			}
		}
		add("relay-missing", "vouch does not use relays %v which the documentation includes", missing)
	}
	return out
}

// Canon is a canonical rendering of a vouch result (for round-trip equality).
func Canon(got *beaconblockproposer.ProposerConfig, err error) string {
	if err != nil {
		return "error"
	}
	if got == nil {
		return "nil"
	}
	var rs []string
	for _, rc := range got.Relays {
		pk := "-"
		if rc.PublicKey != nil {
			pk = fmt.Sprintf("%x", rc.PublicKey[:4])
		}
		rs = append(rs, fmt.Sprintf("%s fee=%d gas=%d grace=%v min=%s pk=%s", rc.Address, FeeIndex(rc.FeeRecipient), rc.GasLimit, rc.Grace, rc.MinValue.String(), pk))
	}
	sort.Strings(rs)
	return fmt.Sprintf("fee=%d [%s]", FeeIndex(got.FeeRecipient), strings.Join(rs, "; "))
}
