#!/bin/bash
# seedmatrix.sh [ID-x ...] : run the registered scenarios of the property against each kept seeded change
# (scratch worktree, never /repo itself) with as many runs as the quick tier makes in total; writes
# seeded/<ID>-<x>/detect.txt.  With no arguments: all kept changes, 4 at a time.
cd /verif
declare -A RUNS=([C01]=6400 [C02]=32000 [C03]=1200 [C04]=6400 [C05]=12000 [C06]=2400 [C07]=24000 [C08]=24000 [C09]=4800 [C10]=4800 [C11]=1200 [C12]=1600 [C13]=3200 [C14]=320 [C15]=240 [C16]=1200 [C17]=3200 [C18]=24000 [C20]=4320)
one() {
  d=$1; P=${d%%-*}; r=${RUNS[$P]}
  race=""; [ "$P" = C17 ] && race=1
  out=$(RACE=$race ./mutcheck.sh $P seeded/$d/patch.diff $r 2>&1 | grep -E "^runs|^VIOL|patch does not|does not compile|does not build|crashed" | cut -c1-400)
  { echo "command: RACE=$race ./mutcheck.sh $P seeded/$d/patch.diff $r   (base $(git -C /repo rev-parse --short HEAD))"; echo "$out"; } > seeded/$d/detect.txt
  n=$(echo "$out" | grep -c "^VIOL")
  echo "$d caught=$n"
}
export -f one; export RUNS
if [ $# -gt 0 ]; then for d in "$@"; do one $d; done; exit; fi
ls seeded | grep -E '^C[0-9]+-[a-z]$' | while read d; do echo $d; done > /tmp/seedlist.txt
# bash associative arrays are not exported: run sequential groups in background instead
split -n l/4 /tmp/seedlist.txt /tmp/seedlist.part.
for f in /tmp/seedlist.part.*; do ( while read d; do one $d; done < $f ) & done; wait
