// Package sim is the run/replay/shrink layer shared by all scenarios.
package sim

import (
	"context"
	"encoding/json"
	"fmt"
	"os"
	"sort"
	"strings"
	"testing"
	"testing/synctest"
	"time"

	"verif/simrt"
)

// Outcome of executing one plan under one schedule.
type Outcome struct {
	Violation  *simrt.Violation
	Nontrivial bool           // a property-relevant probe fired
	Probes     map[string]int // scenario probes + fault counters ("fault:<kind>")
	Sample     any            // JSON-able description of the case (plan + salient history)
	Res        *simrt.Result
}

// Scenario is one simulated workload with its oracle.
type Scenario struct {
	Property string
	Name     string
	// Exec generates the plan from p (before the bubble is entered it must do
	// all its drawing from p in Gen) and runs it.  It is called inside a
	// synctest bubble.  sched is the schedule tape for simrt.
	Gen  func(p *simrt.Tape) any
	Exec func(plan any, sched *simrt.Tape) *Outcome
	// Weight for run distribution among scenarios of the same property.
	Weight int
	// Race: meaningful only in a -race binary (C17).
	Race bool
}

var registry = map[string][]*Scenario{}

func Register(s *Scenario) {
	if s.Weight == 0 {
		s.Weight = 1
	}
	registry[s.Property] = append(registry[s.Property], s)
}

func Scenarios(prop string) []*Scenario { return registry[prop] }

func Find(prop, name string) *Scenario {
	for _, s := range registry[prop] {
		if s.Name == name {
			return s
		}
	}
	return nil
}

// Replay is the on-disk form of one run.
type Replay struct {
	Property    string   `json:"property"`
	Scenario    string   `json:"scenario"`
	Seed        uint64   `json:"seed"`
	Plan        []uint32 `json:"plan_tape"`
	Sched       []uint32 `json:"sched_tape"`
	Fingerprint string   `json:"fingerprint"`
	Detail      string   `json:"detail"`
	ShrinkRuns  int      `json:"shrink_runs"`
	PlanJSON    any      `json:"plan,omitempty"`
	Log         []string `json:"event_log,omitempty"`
	// Prefix (race scenarios only): the runs the worker process had executed before this one.
	// The race detector's reports depend on process history (each race is reported once per
	// process and its bounded access history is shared), so a faithful replay re-executes them first.
	Prefix *ReplayPrefix `json:"prefix,omitempty"`
}

// ReplayPrefix identifies the runs [First, Seed) of a worker with seed base Base.
type ReplayPrefix struct {
	Base  uint64 `json:"base"`
	First uint64 `json:"first"`
	Only  string `json:"only,omitempty"`
}

// RunOnce executes scenario s with the given tapes inside a fresh bubble.
//
// The bubble is entered from a helper goroutine: when the race detector has
// reported something during the run, testing fails the bubble's T and calls
// FailNow on the outer T, which must not unwind the worker loop.
func RunOnce(t *testing.T, s *Scenario, plan, sched *simrt.Tape) (out *Outcome) {
	p := s.Gen(plan)
	done := make(chan struct{})
	var fatal any
	go func() {
		defer close(done)
		defer func() {
			if r := recover(); r != nil {
				msg := fmt.Sprint(r)
				if strings.Contains(msg, "deadlock:") && out != nil {
					return // end-of-bubble: stranded goroutines, already accounted
				}
				if strings.Contains(msg, "deadlock:") {
					out = &Outcome{Violation: &simrt.Violation{Kind: "harness-bubble-deadlock", Detail: msg}}
					return
				}
				fatal = r
			}
		}()
		synctest.Test(t, func(t *testing.T) {
			out = s.Exec(p, sched)
		})
	}()
	<-done
	if fatal != nil {
		panic(fatal)
	}
	// a spin detected by the scheduler belongs to the property whose scenario was running
	if out != nil && out.Violation != nil && strings.HasPrefix(out.Violation.Kind, "livelock/") {
		out.Violation.Kind = s.Property + "/" + out.Violation.Kind
	}
	return out
}

// Fingerprint of a violation: its kind (oracle id + anchor), without detail.
func Fingerprint(v *simrt.Violation) string {
	if v == nil {
		return ""
	}
	return v.Kind
}

// Shrink minimises (plan, sched) while the fingerprint persists.
func Shrink(t *testing.T, s *Scenario, plan, sched []uint32, fp string, budget time.Duration, maxRuns int) ([]uint32, []uint32, int) {
	start := time.Now()
	runs := 0
	try := func(p, sc []uint32) bool {
		if runs >= maxRuns || time.Since(start) > budget {
			return false
		}
		runs++
		o := RunOnce(t, s, simrt.NewTape(0, nz(p)), simrt.NewTape(0, nz(sc)))
		return o != nil && o.Violation != nil && Fingerprint(o.Violation) == fp
	}
	// 1. schedule: all-zero, then truncate, then zero blocks
	if try(plan, nil) {
		sched = nil
	} else {
		for n := len(sched) / 2; n >= 1 && len(sched) > 0; n /= 2 {
			for len(sched) > n && try(plan, sched[:len(sched)-n]) {
				sched = sched[:len(sched)-n]
			}
		}
		sched = zeroBlocks(sched, func(c []uint32) bool { return try(plan, c) })
	}
	// 2. plan: delete blocks, zero blocks, lower values
	for pass := 0; pass < 2; pass++ {
		for n := len(plan) / 2; n >= 1; n /= 2 {
			for i := 0; i+n <= len(plan); {
				c := append(append([]uint32{}, plan[:i]...), plan[i+n:]...)
				if try(c, sched) {
					plan = c
				} else {
					i += n
				}
			}
		}
		plan = zeroBlocks(plan, func(c []uint32) bool { return try(c, sched) })
		for i := range plan {
			for plan[i] > 0 {
				c := append([]uint32{}, plan...)
				c[i] = plan[i] / 2
				if !try(c, sched) {
					c[i] = plan[i] - 1
					if !try(c, sched) {
						break
					}
				}
				plan = c
			}
		}
		sched = zeroBlocks(sched, func(c []uint32) bool { return try(plan, c) })
	}
	// trailing zeros carry no information
	for len(sched) > 0 && sched[len(sched)-1] == 0 {
		sched = sched[:len(sched)-1]
	}
	for len(plan) > 0 && plan[len(plan)-1] == 0 {
		plan = plan[:len(plan)-1]
	}
	return plan, sched, runs
}

func nz(a []uint32) []uint32 {
	if a == nil {
		return []uint32{}
	}
	return a
}

func zeroBlocks(a []uint32, ok func([]uint32) bool) []uint32 {
	for n := len(a); n >= 1; n /= 2 {
		for i := 0; i < len(a); i += n {
			end := min(i+n, len(a))
			allz := true
			for _, v := range a[i:end] {
				if v != 0 {
					allz = false
				}
			}
			if allz {
				continue
			}
			c := append([]uint32{}, a...)
			for j := i; j < end; j++ {
				c[j] = 0
			}
			if ok(c) {
				a = c
			}
		}
	}
	return a
}

// WorkerResult is what one worker process reports.
type WorkerResult struct {
	Property    string         `json:"property"`
	Runs        int            `json:"runs"`
	Nontrivial  int            `json:"nontrivial"`
	SigHashes   []uint64       `json:"sig_hashes"` // distinct schedule signatures of nontrivial runs
	Decisions   int64          `json:"decisions"`
	Choices     int64          `json:"choices"`
	SimSeconds  float64        `json:"sim_seconds"`
	Probes      map[string]int `json:"probes"`
	PerScenario map[string]int `json:"per_scenario"`
	Samples     []any          `json:"samples"`
	Violations  []*Replay      `json:"violations"`
	ReplayPaths []string       `json:"replay_paths"`
	WallS       float64        `json:"wall_s"`
	FirstSeed   uint64         `json:"first_seed"`
	LastSeed    uint64         `json:"last_seed"`
	Stranded    map[string]int `json:"stranded"`
	HarnessErr  string         `json:"harness_error,omitempty"`
	Extra       map[string]any `json:"extra,omitempty"`
}

func seedFor(base uint64, i uint64) uint64 {
	z := base*0x9e3779b97f4a7c15 + i*0xbf58476d1ce4e5b9 + 0x632be5ab
	z = (z ^ (z >> 30)) * 0xbf58476d1ce4e5b9
	z = (z ^ (z >> 27)) * 0x94d049bb133111eb
	return z ^ (z >> 31)
}

// wheelFor lists the scenarios of a property (or the single one named) repeated by weight.
func wheelFor(prop, only string) []*Scenario {
	scs := registry[prop]
	if only != "" {
		scs = nil
		if s := Find(prop, only); s != nil {
			scs = []*Scenario{s}
		}
	}
	var wheel []*Scenario
	for _, s := range scs {
		if s.Race && !simrt.RaceEnabled {
			continue
		}
		for i := 0; i < s.Weight; i++ {
			wheel = append(wheel, s)
		}
	}
	return wheel
}

// Worker runs scenarios of a property for a number of runs / a wall budget.
func Worker(t *testing.T, prop string, only string, base uint64, first, count uint64, budget time.Duration, replayDir string, known func(fp string) bool) *WorkerResult {
	wr := &WorkerResult{Property: prop, Probes: map[string]int{}, PerScenario: map[string]int{}, Stranded: map[string]int{}, FirstSeed: first}
	wheel := wheelFor(prop, only)
	if len(wheel) == 0 {
		wr.HarnessErr = "no applicable scenario registered for " + prop + "/" + only + " (race build required?)"
		return wr
	}
	start := time.Now()
	sigs := map[uint64]bool{}
	seenFP := map[string]bool{}
	for i := first; i < first+count; i++ {
		if budget > 0 && time.Since(start) > budget {
			break
		}
		s := wheel[int(i%uint64(len(wheel)))]
		seed := seedFor(base, i)
		pt := simrt.NewTape(seed|1, nil)
		st := simrt.NewTape(seed&^1, nil)
		o := RunOnce(t, s, pt, st)
		wr.Runs++
		wr.LastSeed = i
		wr.PerScenario[s.Name]++
		if o == nil {
			wr.HarnessErr = "scenario returned no outcome"
			break
		}
		for k, v := range o.Probes {
			wr.Probes[k] += v
		}
		if o.Res != nil {
			wr.Decisions += int64(o.Res.Decisions)
			wr.Choices += int64(o.Res.Choices)
			wr.SimSeconds += o.Res.SimTime.Seconds()
			for k, v := range o.Res.Probes {
				wr.Probes[k] += v
			}
			for _, st := range o.Res.Stranded {
				wr.Stranded[strandKey(st)]++
			}
		}
		if o.Nontrivial {
			wr.Nontrivial++
			if o.Res != nil {
				sigs[o.Res.SigHash^hash64(s.Name)^uint64(pt.N())<<40^tapeHash(pt.Recorded())] = true
			}
		}
		if len(wr.Samples) < 3 && o.Sample != nil && (o.Nontrivial || wr.Runs > 20) {
			wr.Samples = append(wr.Samples, map[string]any{"scenario": s.Name, "seed_index": i, "case": o.Sample})
		}
		if o.Violation != nil {
			fp := Fingerprint(o.Violation)
			if strings.HasPrefix(fp, "harness-") {
				wr.HarnessErr = fp + ": " + o.Violation.Detail
				break
			}
			if seenFP[fp] {
				continue
			}
			seenFP[fp] = true
			rp := &Replay{Property: prop, Scenario: s.Name, Seed: i, Plan: pt.Recorded(), Sched: st.Recorded(), Fingerprint: fp, Detail: o.Violation.Detail}
			if s.Race {
				rp.Prefix = &ReplayPrefix{Base: base, First: first, Only: only}
			}
			if (known == nil || !known(fp)) && !s.Race {
				// minimise only what will be reported
				p2, s2, runs := Shrink(t, s, rp.Plan, rp.Sched, fp, 20*time.Second, 400)
				rp.Plan, rp.Sched, rp.ShrinkRuns = p2, s2, runs
				o2 := RunOnce(t, s, simrt.NewTape(0, nz(p2)), simrt.NewTape(0, nz(s2)))
				if o2 != nil && o2.Violation != nil && Fingerprint(o2.Violation) == fp {
					rp.Detail = o2.Violation.Detail
					rp.PlanJSON = o2.Sample
					if o2.Res != nil {
						rp.Log = tail(o2.Res.Log, 120)
					}
				}
			}
			wr.Violations = append(wr.Violations, rp)
			if replayDir != "" {
				path := fmt.Sprintf("%s/%s-%s-%d.json", replayDir, prop, sanitize(fp), i)
				b, _ := json.MarshalIndent(rp, "", " ")
				if err := os.WriteFile(path, b, 0o644); err == nil {
					wr.ReplayPaths = append(wr.ReplayPaths, path)
				} else {
					wr.ReplayPaths = append(wr.ReplayPaths, "")
				}
			}
		}
	}
	for k := range sigs {
		wr.SigHashes = append(wr.SigHashes, k)
	}
	sort.Slice(wr.SigHashes, func(i, j int) bool { return wr.SigHashes[i] < wr.SigHashes[j] })
	wr.WallS = time.Since(start).Seconds()
	return wr
}

func strandKey(s string) string {
	if i := strings.Index(s, " last@"); i >= 0 {
		return s[i+6:]
	}
	return s
}

func tail(a []string, n int) []string {
	if len(a) > n {
		return a[len(a)-n:]
	}
	return a
}

func sanitize(s string) string {
	b := []byte(s)
	for i, c := range b {
		if !(c >= 'a' && c <= 'z' || c >= 'A' && c <= 'Z' || c >= '0' && c <= '9' || c == '-' || c == '_') {
			b[i] = '_'
		}
	}
	if len(b) > 60 {
		b = b[:60]
	}
	return string(b)
}

func hash64(s string) uint64 {
	var h uint64 = 14695981039346656037
	for i := 0; i < len(s); i++ {
		h ^= uint64(s[i])
		h *= 1099511628211
	}
	return h
}

func tapeHash(a []uint32) uint64 {
	var h uint64 = 14695981039346656037
	for _, v := range a {
		h ^= uint64(v)
		h *= 1099511628211
	}
	return h
}

// ReplayFile re-executes a replay file and reports the outcome.
func ReplayFile(t *testing.T, path string) (*Replay, *Outcome, error) {
	b, err := os.ReadFile(path)
	if err != nil {
		return nil, nil, err
	}
	var rp Replay
	if err := json.Unmarshal(b, &rp); err != nil {
		return nil, nil, err
	}
	s := Find(rp.Property, rp.Scenario)
	if s == nil {
		return &rp, nil, fmt.Errorf("unknown scenario %s/%s", rp.Property, rp.Scenario)
	}
	// Oracles that can observe several violations in one run (the race detector) report the expected one if it is among them.
	os.Setenv("VERIF_EXPECT", rp.Fingerprint)
	if rp.Prefix != nil && os.Getenv("VERIF_REPLAY_PREFIX") == "1" {
		wheel := wheelFor(rp.Property, rp.Prefix.Only)
		for i := rp.Prefix.First; i < rp.Seed && len(wheel) > 0; i++ {
			ps := wheel[int(i%uint64(len(wheel)))]
			seed := seedFor(rp.Prefix.Base, i)
			RunOnce(t, ps, simrt.NewTape(seed|1, nil), simrt.NewTape(seed&^1, nil))
		}
	}
	o := RunOnce(t, s, simrt.NewTape(0, nz(rp.Plan)), simrt.NewTape(0, nz(rp.Sched)))
	return &rp, o, nil
}

// Helper for scenarios: run main under simrt with standard settings.
func Run(sched *simrt.Tape, horizon time.Duration, maxSteps int, inv func() *simrt.Violation, main func(ctx context.Context)) *simrt.Result {
	return simrt.Run(simrt.Config{Tape: sched, Horizon: horizon, MaxSteps: maxSteps, Invariant: inv}, main)
}
