package sim

import (
	"bufio"
	"encoding/json"
	"fmt"
	"os"
	"strconv"
	"strings"
	"testing"
	"time"
)

func envU(name string, def uint64) uint64 {
	if v := os.Getenv(name); v != "" {
		if n, err := strconv.ParseUint(v, 10, 64); err == nil {
			return n
		}
	}
	return def
}

func loadKnown(prop string) func(string) bool {
	path := os.Getenv("VERIF_KNOWN")
	if path == "" {
		return nil
	}
	f, err := os.Open(path)
	if err != nil {
		return nil
	}
	defer f.Close()
	var fps []string
	sc := bufio.NewScanner(f)
	for sc.Scan() {
		line := strings.TrimSpace(sc.Text())
		if !strings.HasPrefix(line, "known: ") {
			continue
		}
		fields := strings.Fields(line)
		if len(fields) < 3 || fields[1] != "property="+prop {
			continue
		}
		fps = append(fps, strings.TrimPrefix(fields[2], "fingerprint="))
	}
	return func(fp string) bool {
		for _, k := range fps {
			if k == fp {
				return true
			}
		}
		return false
	}
}

// WorkerMain is the entry point used by /verif/check (called from each property package's TestWorker).
func WorkerMain(t *testing.T) {
	prop := os.Getenv("VERIF_PROP")
	if prop == "" {
		t.Skip("VERIF_PROP not set")
	}
	out := os.Getenv("VERIF_OUT")
	if rp := os.Getenv("VERIF_REPLAY"); rp != "" {
		r, o, err := ReplayFile(t, rp)
		res := map[string]any{"replay": rp}
		if err != nil {
			res["error"] = err.Error()
		} else {
			res["expected"] = r.Fingerprint
			if o != nil && o.Violation != nil {
				res["fingerprint"] = Fingerprint(o.Violation)
				res["detail"] = o.Violation.Detail
			} else {
				res["fingerprint"] = ""
			}
			if o != nil && o.Res != nil {
				res["log_tail"] = o.Res.Log
			}
		}
		b, _ := json.MarshalIndent(res, "", " ")
		if out != "" {
			os.WriteFile(out, b, 0o644)
		} else {
			fmt.Println(string(b))
		}
		return
	}
	base := envU("VERIF_SEED", 1)
	first := envU("VERIF_FIRST", 0)
	count := envU("VERIF_COUNT", 100)
	budget := time.Duration(envU("VERIF_BUDGET_MS", 0)) * time.Millisecond
	wr := Worker(t, prop, os.Getenv("VERIF_SCENARIO"), base, first, count, budget, os.Getenv("VERIF_REPLAY_DIR"), loadKnown(prop))
	b, _ := json.Marshal(wr)
	if out != "" {
		if err := os.WriteFile(out, b, 0o644); err != nil {
			t.Fatal(err)
		}
	} else {
		fmt.Println(string(b))
	}
}
