#!/bin/bash
# Offline setup: build the instrumenter, the orchestrator and warm the build cache.
set -e
cd /verif
export GOFLAGS=-mod=mod GOPROXY=off GOSUMDB=off GOTOOLCHAIN=local
export PATH=/opt/veriftools/go1.26.8/bin:$PATH
mkdir -p build evidence replays
(cd vinject && go build -o ../build/vinject .)
go build -o build/check ./cmd/check
build/vinject -repo /repo -out build/overlay -hooks hooks
for d in simtest/c*/; do p=$(basename $d); go test -c -overlay build/overlay/overlay.json -o build/sim-$p.test ./simtest/$p; done
echo setup ok
