#!/usr/bin/env python3
# showreplay.py <replay.json> [grep-substring ...]  : print detail, plan and (filtered) event log
import json,sys
x=json.load(open(sys.argv[1]))
print(x['fingerprint'],'|',x['detail'][:1500])
print('plan:',json.dumps(x.get('plan'))[:3000])
pats=sys.argv[2:]
for l in x.get('event_log') or []:
    if not pats or any(p in l for p in pats): print('  ',l[:170])
