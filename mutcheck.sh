#!/bin/bash
# mutcheck.sh <PROP> <patch.diff> [runs] [scenario]      (RACE=1 builds the scenario binary with -race, for C17)
# Applies patch.diff to a scratch worktree of /repo (never /repo itself), instruments and
# builds the property's scenarios against it and runs them in one worker process.
# Prints the worker summary; exit 0 = no violation found, 1 = violation(s) found, 2 = build/patch trouble.
set -u
PROP=$1; PATCH=$(readlink -f "$2"); RUNS=${3:-3000}; SCEN=${4:-}
P=$(echo "$PROP" | tr A-Z a-z)
export GOFLAGS=-mod=mod GOPROXY=off GOSUMDB=off GOTOOLCHAIN=local PATH=/opt/veriftools/go1.26.8/bin:$PATH
W=$(mktemp -d /tmp/mut-XXXXXX)
cleanup() { git -C /repo worktree remove --force "$W/repo" >/dev/null 2>&1; rm -rf "$W"; }
trap cleanup EXIT
git -C /repo worktree add -q --detach "$W/repo" HEAD || exit 2
# carry over uncommitted changes of /repo's working tree, then the mutation
git -C /repo diff HEAD | git -C "$W/repo" apply --allow-empty 2>/dev/null
git -C "$W/repo" apply "$PATCH" || { echo "patch does not apply"; exit 2; }
(cd "$W/repo" && go build ./... ) || { echo "mutant does not compile"; exit 2; }
/verif/build/vinject -repo "$W/repo" -out "$W/ov" -hooks /verif/hooks || exit 2
# hook files must map into the scratch tree
sed -e "s#github.com/attestantio/vouch => /repo#github.com/attestantio/vouch => $W/repo#" /verif/go.mod > "$W/go.mod"
cp /verif/go.sum "$W/go.sum"
RACEFLAG=""; [ "${RACE:-}" = "1" ] && RACEFLAG="-race"
export GORACE="halt_on_error=0 log_path=$W/race"
cd /verif && go test -c $RACEFLAG -modfile="$W/go.mod" -overlay "$W/ov/overlay.json" -o "$W/sim.test" ./simtest/$P || { echo "harness does not build against mutant"; exit 2; }
mkdir -p "$W/replays"
GOMAXPROCS=2 VERIF_FIRST=${FIRST:-0} VERIF_PROP=$PROP VERIF_COUNT=$RUNS VERIF_SCENARIO=$SCEN VERIF_REPLAY_DIR="$W/replays" VERIF_KNOWN=/verif/known_findings.txt VERIF_OUT="$W/out.json" timeout ${MUT_TIMEOUT:-2400} "$W/sim.test" -test.run '^TestWorker$' -test.timeout 0 >"$W/log" 2>&1 || { [ -s "$W/out.json" ] || { tail -30 "$W/log"; echo "worker crashed"; exit 2; }; }
python3 - "$W/out.json" <<'PY'
import json,sys
d=json.load(open(sys.argv[1]))
v=d.get('violations') or []
print("runs",d['runs'],"nontrivial",d['nontrivial'],"wall_s",round(d['wall_s'],1),"harness_error",d.get('harness_error'))
for x in v: print("VIOL",x['fingerprint'],"|",x['detail'][:300].replace("\n"," "))
sys.exit(1 if v else (2 if d.get('harness_error') else 0))
PY
