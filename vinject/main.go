// vinject rewrites the non-test sources of vouch's service/strategy/util
// packages so that every scheduling-relevant operation goes through
// verif/simrt, and writes the rewritten copies plus an overlay.json for
// `go build -overlay`.  /repo itself is never modified.
package main

import (
	"bytes"
	"crypto/sha256"
	"encoding/hex"
	"encoding/json"
	"flag"
	"fmt"
	"go/ast"
	"go/printer"
	"go/token"
	"go/types"
	"os"
	"path/filepath"
	"sort"
	"strings"

	"golang.org/x/tools/go/ast/astutil"
	"golang.org/x/tools/go/packages"
)

const simrtPath = "verif/simrt"
const vouch = "github.com/attestantio/vouch"

type report struct {
	Files        int            `json:"files_rewritten"`
	Rules        map[string]int `json:"rule_counts"`
	Uncontrolled []string       `json:"uncontrolled_sites"`
	InputHash    string         `json:"input_hash"`
	Packages     []string       `json:"packages"`
}

var rep = report{Rules: map[string]int{}}

func main() {
	repo := flag.String("repo", "/repo", "vouch source tree")
	out := flag.String("out", "/verif/build/overlay", "output directory")
	hooks := flag.String("hooks", "/verif/hooks", "directory of files to add (mirrors repo layout)")
	flag.Parse()
	if err := run(*repo, *out, *hooks); err != nil {
		fmt.Fprintln(os.Stderr, "vinject:", err)
		os.Exit(2)
	}
}

func selected(pkgPath string) bool {
	if !strings.HasPrefix(pkgPath, vouch+"/") {
		return false
	}
	rel := strings.TrimPrefix(pkgPath, vouch+"/")
	if !(strings.HasPrefix(rel, "services/") || strings.HasPrefix(rel, "strategies/") || rel == "util") {
		return false
	}
	if strings.Contains(rel, "/mock") || strings.HasPrefix(rel, "services/metrics") {
		return false
	}
	return true
}

func run(repo, out, hooks string) error {
	cfg := &packages.Config{
		Mode: packages.NeedName | packages.NeedFiles | packages.NeedCompiledGoFiles | packages.NeedSyntax |
			packages.NeedTypes | packages.NeedTypesInfo | packages.NeedImports | packages.NeedDeps,
		Dir:   repo,
		Tests: false,
		Env:   os.Environ(),
	}
	pkgs, err := packages.Load(cfg, "./services/...", "./strategies/...", "./util")
	if err != nil {
		return err
	}
	overlay := map[string]string{}
	// Build in a scratch directory and swap it in, so that a concurrent build
	// using the previous overlay sees either the old or the new tree.
	final := out
	out = fmt.Sprintf("%s.tmp-%d", final, os.Getpid())
	if err := os.RemoveAll(out); err != nil {
		return err
	}
	if err := os.MkdirAll(out, 0o755); err != nil {
		return err
	}
	defer os.RemoveAll(out)
	h := sha256.New()
	sort.Slice(pkgs, func(i, j int) bool { return pkgs[i].PkgPath < pkgs[j].PkgPath })
	for _, p := range pkgs {
		if !selected(p.PkgPath) {
			continue
		}
		if len(p.Errors) > 0 {
			return fmt.Errorf("package %s: %v", p.PkgPath, p.Errors[0])
		}
		rep.Packages = append(rep.Packages, p.PkgPath)
		for i, f := range p.Syntax {
			path := p.CompiledGoFiles[i]
			src, err := os.ReadFile(path)
			if err != nil {
				return err
			}
			h.Write([]byte(path))
			h.Write(src)
			rw := &rewriter{pkg: p, fset: p.Fset, file: f, path: path, repo: repo}
			if !rw.rewrite() {
				continue
			}
			var buf bytes.Buffer
			if err := (&printer.Config{Mode: printer.UseSpaces | printer.TabIndent, Tabwidth: 8}).Fprint(&buf, p.Fset, f); err != nil {
				return fmt.Errorf("print %s: %v", path, err)
			}
			rel, _ := filepath.Rel(repo, path)
			dst := filepath.Join(out, rel)
			if err := os.MkdirAll(filepath.Dir(dst), 0o755); err != nil {
				return err
			}
			if err := os.WriteFile(dst, buf.Bytes(), 0o644); err != nil {
				return err
			}
			overlay[path] = filepath.Join(final, rel)
			rep.Files++
		}
	}
	// added hook files
	if st, err := os.Stat(hooks); err == nil && st.IsDir() {
		err := filepath.Walk(hooks, func(path string, info os.FileInfo, err error) error {
			if err != nil || info.IsDir() || !strings.HasSuffix(path, ".go") {
				return err
			}
			rel, _ := filepath.Rel(hooks, path)
			overlay[filepath.Join(repo, rel)] = path
			b, _ := os.ReadFile(path)
			h.Write(b)
			return nil
		})
		if err != nil {
			return err
		}
	}
	rep.InputHash = hex.EncodeToString(h.Sum(nil))[:16]
	sort.Strings(rep.Uncontrolled)
	ov, _ := json.MarshalIndent(map[string]any{"Replace": overlay}, "", " ")
	if err := os.WriteFile(filepath.Join(out, "overlay.json"), ov, 0o644); err != nil {
		return err
	}
	rj, _ := json.MarshalIndent(rep, "", " ")
	if err := os.WriteFile(filepath.Join(out, "vinject-report.json"), rj, 0o644); err != nil {
		return err
	}
	old := fmt.Sprintf("%s.old-%d", final, os.Getpid())
	os.RemoveAll(old)
	if _, err := os.Stat(final); err == nil {
		if err := os.Rename(final, old); err != nil {
			return err
		}
	}
	if err := os.Rename(out, final); err != nil {
		return err
	}
	return os.RemoveAll(old)
}

type rewriter struct {
	pkg     *packages.Package
	fset    *token.FileSet
	file    *ast.File
	path    string
	repo    string
	changed bool
	skip    map[ast.Node]bool
	nsel    int
}

func (r *rewriter) site(n ast.Node) string {
	pos := r.fset.Position(n.Pos())
	rel, _ := filepath.Rel(r.repo, pos.Filename)
	rel = strings.TrimPrefix(rel, "services/")
	return fmt.Sprintf("%s:%d", rel, pos.Line)
}

func (r *rewriter) uncontrolled(n ast.Node, why string) {
	rep.Uncontrolled = append(rep.Uncontrolled, r.site(n)+" "+why)
}

// ---- small AST builders

func id(n string) *ast.Ident { return ast.NewIdent(n) }
func str(s string) *ast.BasicLit {
	return &ast.BasicLit{Kind: token.STRING, Value: fmt.Sprintf("%q", s)}
}
func intLit(i int) *ast.BasicLit { return &ast.BasicLit{Kind: token.INT, Value: fmt.Sprint(i)} }
func rt(name string) ast.Expr     { return &ast.SelectorExpr{X: id("simrt"), Sel: id(name)} }
func call(fun ast.Expr, args ...ast.Expr) *ast.CallExpr {
	return &ast.CallExpr{Fun: fun, Args: args}
}
func stmt(e ast.Expr) ast.Stmt { return &ast.ExprStmt{X: e} }
func define(lhs []ast.Expr, rhs []ast.Expr) ast.Stmt {
	return &ast.AssignStmt{Lhs: lhs, Tok: token.DEFINE, Rhs: rhs}
}
func assign(lhs []ast.Expr, rhs []ast.Expr) ast.Stmt {
	return &ast.AssignStmt{Lhs: lhs, Tok: token.ASSIGN, Rhs: rhs}
}
func block(s ...ast.Stmt) *ast.BlockStmt { return &ast.BlockStmt{List: s} }

func (r *rewriter) typeOf(e ast.Expr) types.Type {
	if tv, ok := r.pkg.TypesInfo.Types[e]; ok {
		return tv.Type
	}
	if idn, ok := e.(*ast.Ident); ok {
		if o := r.pkg.TypesInfo.ObjectOf(idn); o != nil {
			return o.Type()
		}
	}
	return nil
}

// methodOf returns (pkgpath, recvTypeName, methodName) for a selector call.
func (r *rewriter) methodOf(sel *ast.SelectorExpr) (pkg, recv, name string, promoted bool, ok bool) {
	s := r.pkg.TypesInfo.Selections[sel]
	if s == nil || s.Kind() != types.MethodVal {
		return
	}
	fn, isFn := s.Obj().(*types.Func)
	if !isFn || fn.Pkg() == nil {
		return
	}
	sig := fn.Type().(*types.Signature)
	if sig.Recv() == nil {
		return
	}
	rtp := sig.Recv().Type()
	if p, isP := rtp.(*types.Pointer); isP {
		rtp = p.Elem()
	}
	switch t := rtp.(type) {
	case *types.Named:
		recv = t.Obj().Name()
	case *types.Alias:
		recv = t.Obj().Name()
	default:
		// interface method (e.g. sync.Locker)
		recv = ""
	}
	if recv == "" {
		// interface method: find the named interface of the receiver expression
		if nt, isN := r.typeOf(sel.X).(*types.Named); isN {
			recv = nt.Obj().Name()
			if nt.Obj().Pkg() != nil {
				return nt.Obj().Pkg().Path(), recv, fn.Name(), false, true
			}
		}
	}
	return fn.Pkg().Path(), recv, fn.Name(), len(s.Index()) > 1, true
}

// addrOf returns an expression usable as pointer/interface receiver for X.
func (r *rewriter) addrOf(x ast.Expr) ast.Expr {
	t := r.typeOf(x)
	if t != nil {
		switch t.Underlying().(type) {
		case *types.Pointer, *types.Interface:
			return x
		}
	}
	return &ast.UnaryExpr{Op: token.AND, X: x}
}

func isMutexType(pkg, recv string) bool {
	if pkg == "sync" && (recv == "Mutex" || recv == "RWMutex" || recv == "Locker") {
		return true
	}
	if pkg == "github.com/sasha-s/go-deadlock" && (recv == "Mutex" || recv == "RWMutex") {
		return true
	}
	return false
}

func (r *rewriter) rewrite() bool {
	r.skip = map[ast.Node]bool{}
	astutil.Apply(r.file, r.pre, r.post)
	if !r.changed {
		return false
	}
	astutil.AddNamedImport(r.fset, r.file, "simrt", simrtPath)
	// strip comments except those before the package clause (build constraints)
	var keep []*ast.CommentGroup
	for _, cg := range r.file.Comments {
		if cg.End() < r.file.Package {
			keep = append(keep, cg)
		}
	}
	r.file.Comments = keep
	ast.Inspect(r.file, func(n ast.Node) bool {
		switch d := n.(type) {
		case *ast.FuncDecl:
			d.Doc = nil
		case *ast.GenDecl:
			d.Doc = nil
		case *ast.Field:
			d.Doc, d.Comment = nil, nil
		case *ast.ValueSpec:
			d.Doc, d.Comment = nil, nil
		case *ast.TypeSpec:
			d.Doc, d.Comment = nil, nil
		case *ast.ImportSpec:
			d.Doc, d.Comment = nil, nil
		}
		return true
	})
	return true
}

func (r *rewriter) pre(c *astutil.Cursor) bool {
	switch n := c.Node().(type) {
	case *ast.CommClause:
		if n.Comm != nil {
			r.skip[n.Comm] = true
			switch cs := n.Comm.(type) {
			case *ast.ExprStmt:
				r.skip[cs.X] = true
			case *ast.AssignStmt:
				if len(cs.Rhs) == 1 {
					r.skip[cs.Rhs[0]] = true
				}
			}
		}
	}
	return true
}

func (r *rewriter) post(c *astutil.Cursor) bool {
	n := c.Node()
	if n == nil || r.skip[n] {
		return true
	}
	switch x := n.(type) {
	case *ast.CallExpr:
		r.callExpr(c, x)
	case *ast.GoStmt:
		r.goStmt(c, x)
	case *ast.SendStmt:
		if c.Index() >= 0 {
			c.InsertBefore(stmt(call(rt("Yield"), str(r.site(x)+"/send"))))
			c.InsertAfter(stmt(call(rt("Yield"), str(r.site(x)+"/sent"))))
			r.count("send")
		} else {
			r.uncontrolled(x, "send not in statement list")
		}
	case *ast.UnaryExpr:
		if x.Op == token.ARROW {
			r.recvExpr(c, x)
		}
	case *ast.SelectStmt:
		r.selectStmt(c, x)
	case *ast.RangeStmt:
		r.rangeStmt(c, x)
	}
	return true
}

func (r *rewriter) count(rule string) { rep.Rules[rule]++; r.changed = true }

func (r *rewriter) callExpr(c *astutil.Cursor, x *ast.CallExpr) {
	sel, ok := x.Fun.(*ast.SelectorExpr)
	if !ok {
		return
	}
	// package-level functions
	if pid, isID := sel.X.(*ast.Ident); isID {
		if pn, isPkg := r.pkg.TypesInfo.ObjectOf(pid).(*types.PkgName); isPkg {
			switch {
			case pn.Imported().Path() == "time" && sel.Sel.Name == "Sleep":
				c.Replace(call(rt("TimeSleep"), x.Args[0], str(r.site(x))))
				r.count("sleep")
			case pn.Imported().Path() == "sync/atomic":
				x.Fun = call(rt("Y"), str(r.site(x)+"/atomic"), x.Fun)
				r.count("atomic")
			}
			return
		}
	}
	pkg, recv, name, promoted, ok := r.methodOf(sel)
	if !ok {
		return
	}
	site := str(r.site(x))
	switch {
	case isMutexType(pkg, recv):
		fn := ""
		switch name {
		case "Lock", "Unlock", "RLock", "RUnlock", "TryLock", "TryRLock":
			fn = name
		}
		if fn == "" {
			return
		}
		if promoted {
			r.uncontrolled(x, "promoted mutex method")
			return
		}
		c.Replace(call(rt(fn), r.addrOf(sel.X), site))
		r.count("lock")
	case pkg == "sync" && recv == "Cond":
		fn := map[string]string{"Wait": "CondWait", "Signal": "CondSignal", "Broadcast": "CondBroadcast"}[name]
		if fn == "" {
			return
		}
		c.Replace(call(rt(fn), r.addrOf(sel.X), site))
		r.count("cond")
	case pkg == "sync" && recv == "Once" && name == "Do":
		// Once.Do blocks concurrent callers until the first has finished: a blocking primitive like a mutex
		c.Replace(call(rt("OnceDo"), r.addrOf(sel.X), x.Args[0], site))
		r.count("once")
	case pkg == "sync" && recv == "WaitGroup" && name == "Wait":
		c.Replace(call(rt("WGWait"), r.addrOf(sel.X), site))
		r.count("wgwait")
	case pkg == "golang.org/x/sync/semaphore" && recv == "Weighted":
		switch name {
		case "Acquire":
			c.Replace(call(rt("SemAcquire"), append([]ast.Expr{r.addrOf(sel.X)}, append(x.Args, site)...)...))
			r.count("sem")
		case "TryAcquire":
			x.Fun = call(rt("Y"), str(r.site(x)+"/tryacquire"), x.Fun)
			r.count("sem")
		}
	case pkg == "go.uber.org/atomic" || pkg == "sync/atomic":
		x.Fun = call(rt("Y"), str(r.site(x)+"/atomic"), x.Fun)
		r.count("atomic")
	}
}

func (r *rewriter) goStmt(c *astutil.Cursor, g *ast.GoStmt) {
	if c.Index() < 0 {
		r.uncontrolled(g, "go statement not in a statement list")
		return
	}
	n := r.nsel
	r.nsel++
	tv := id(fmt.Sprintf("__t%d", n))
	var pre []ast.Stmt
	pre = append(pre, define([]ast.Expr{tv}, []ast.Expr{call(rt("Spawn"), str(r.site(g)))}))
	callx := g.Call
	for i, a := range callx.Args {
		if tvv, ok := r.pkg.TypesInfo.Types[a]; ok {
			if tvv.Value != nil || tvv.IsNil() {
				continue
			}
			if _, isTuple := tvv.Type.(*types.Tuple); isTuple {
				r.uncontrolled(g, "multi-value call argument in go statement")
				return
			}
		}
		if _, isFn := a.(*ast.FuncLit); isFn {
			continue
		}
		v := id(fmt.Sprintf("__a%d_%d", n, i))
		pre = append(pre, define([]ast.Expr{v}, []ast.Expr{a}))
		callx.Args[i] = v
	}
	body := block(
		stmt(call(rt("Start"), tv)),
		&ast.DeferStmt{Call: call(rt("End"), tv)},
		stmt(callx),
	)
	pre = append(pre, &ast.GoStmt{Call: call(&ast.FuncLit{Type: &ast.FuncType{Params: &ast.FieldList{}}, Body: body})})
	// a scheduling point for the parent, so that the child may run before the parent's next statement
	pre = append(pre, stmt(call(rt("Yield"), str(r.site(g)+"/spawned"))))
	c.Replace(block(pre...))
	r.count("go")
}

func (r *rewriter) recvExpr(c *astutil.Cursor, x *ast.UnaryExpr) {
	// `v, ok := <-ch` has a tuple type
	if tv, ok := r.pkg.TypesInfo.Types[x]; ok {
		if _, isTuple := tv.Type.(*types.Tuple); isTuple {
			c.Replace(call(rt("Recv2"), x.X, str(r.site(x)+"/recv")))
			r.count("recv")
			return
		}
	}
	// comma-ok form is typed as the element type in Types; detect by parent
	if as, ok := c.Parent().(*ast.AssignStmt); ok && len(as.Lhs) == 2 && len(as.Rhs) == 1 {
		c.Replace(call(rt("Recv2"), x.X, str(r.site(x)+"/recv")))
		r.count("recv")
		return
	}
	if vs, ok := c.Parent().(*ast.ValueSpec); ok && len(vs.Names) == 2 && len(vs.Values) == 1 {
		c.Replace(call(rt("Recv2"), x.X, str(r.site(x)+"/recv")))
		r.count("recv")
		return
	}
	c.Replace(call(rt("Recv"), x.X, str(r.site(x)+"/recv")))
	r.count("recv")
}

func (r *rewriter) selectStmt(c *astutil.Cursor, s *ast.SelectStmt) {
	if _, labelled := c.Parent().(*ast.LabeledStmt); labelled {
		r.uncontrolled(s, "labelled select")
		return
	}
	n := r.nsel
	r.nsel++
	site := r.site(s)
	nm := func(p string, i int) *ast.Ident { return id(fmt.Sprintf("__%s%d_%d", p, n, i)) }
	selv := id(fmt.Sprintf("__sel%d", n))

	var pre []ast.Stmt   // operand evaluation
	var polls []ast.Stmt // case clauses of the poll switch
	var blockCases []ast.Stmt
	var bodies []ast.Stmt // case clauses of the final switch
	hasDefault := false
	ncomm := 0
	for _, cl := range s.Body.List {
		cc := cl.(*ast.CommClause)
		if cc.Comm == nil {
			hasDefault = true
			bodies = append(bodies, &ast.CaseClause{List: nil, Body: cc.Body})
			continue
		}
		i := ncomm
		ncomm++
		var comm ast.Stmt      // rewritten comm using hoisted operands
		var bind []ast.Stmt    // statements at the head of the body
		setSel := assign([]ast.Expr{selv}, []ast.Expr{intLit(i)})
		switch cs := cc.Comm.(type) {
		case *ast.SendStmt:
			pre = append(pre, define([]ast.Expr{nm("c", i)}, []ast.Expr{cs.Chan}))
			pre = append(pre, define([]ast.Expr{nm("s", i)}, []ast.Expr{cs.Value}))
			comm = &ast.SendStmt{Chan: nm("c", i), Value: nm("s", i)}
		case *ast.ExprStmt:
			u := cs.X.(*ast.UnaryExpr)
			pre = append(pre, define([]ast.Expr{nm("c", i)}, []ast.Expr{u.X}))
			comm = stmt(&ast.UnaryExpr{Op: token.ARROW, X: nm("c", i)})
		case *ast.AssignStmt:
			u := cs.Rhs[0].(*ast.UnaryExpr)
			pre = append(pre, define([]ast.Expr{nm("c", i)}, []ast.Expr{u.X}))
			pre = append(pre, define([]ast.Expr{nm("r", i)}, []ast.Expr{call(rt("Zero"), nm("c", i))}))
			pre = append(pre, define([]ast.Expr{nm("ok", i)}, []ast.Expr{id("false")}))
			pre = append(pre, assign([]ast.Expr{id("_"), id("_")}, []ast.Expr{nm("r", i), nm("ok", i)}))
			comm = assign([]ast.Expr{nm("r", i), nm("ok", i)}, []ast.Expr{&ast.UnaryExpr{Op: token.ARROW, X: nm("c", i)}})
			rhs := []ast.Expr{nm("r", i)}
			if len(cs.Lhs) == 2 {
				rhs = append(rhs, nm("ok", i))
			}
			bind = append(bind, &ast.AssignStmt{Lhs: cs.Lhs, Tok: cs.Tok, Rhs: rhs})
		default:
			r.uncontrolled(s, "unknown comm clause")
			return
		}
		polls = append(polls, &ast.CaseClause{List: []ast.Expr{intLit(i)}, Body: []ast.Stmt{
			&ast.SelectStmt{Body: block(
				&ast.CommClause{Comm: comm, Body: []ast.Stmt{setSel}},
				&ast.CommClause{Comm: nil, Body: nil},
			)},
		}})
		blockCases = append(blockCases, &ast.CommClause{Comm: cloneComm(comm), Body: []ast.Stmt{setSel}})
		bodies = append(bodies, &ast.CaseClause{List: []ast.Expr{intLit(i)}, Body: append(bind, cc.Body...)})
	}
	iv := id(fmt.Sprintf("__i%d", n))
	var out []ast.Stmt
	out = append(out, pre...)
	out = append(out, stmt(call(rt("Yield"), str(site+"/select"))))
	out = append(out, define([]ast.Expr{selv}, []ast.Expr{&ast.UnaryExpr{Op: token.SUB, X: intLit(1)}}))
	if ncomm > 0 {
		out = append(out, &ast.RangeStmt{
			Key: id("_"), Value: iv, Tok: token.DEFINE,
			X: call(rt("SelectOrder"), str(site), intLit(ncomm)),
			Body: block(
				&ast.SwitchStmt{Tag: iv, Body: block(polls...)},
				&ast.IfStmt{Cond: &ast.BinaryExpr{X: selv, Op: token.GEQ, Y: intLit(0)}, Body: block(&ast.BranchStmt{Tok: token.BREAK})},
			),
		})
	}
	if !hasDefault {
		out = append(out, &ast.IfStmt{
			Cond: &ast.BinaryExpr{X: selv, Op: token.LSS, Y: intLit(0)},
			Body: block(
				&ast.SelectStmt{Body: block(blockCases...)},
				stmt(call(rt("Yield"), str(site+"/selected"))),
			),
		})
	}
	if !hasDefault {
		bodies = append(bodies, &ast.CaseClause{List: nil, Body: []ast.Stmt{stmt(call(id("panic"), str("simrt: select fell through")))}})
	}
	out = append(out, &ast.SwitchStmt{Tag: selv, Body: block(bodies...)})
	c.Replace(block(out...))
	r.count("select")
}

func cloneComm(s ast.Stmt) ast.Stmt {
	switch x := s.(type) {
	case *ast.SendStmt:
		return &ast.SendStmt{Chan: id(x.Chan.(*ast.Ident).Name), Value: id(x.Value.(*ast.Ident).Name)}
	case *ast.ExprStmt:
		u := x.X.(*ast.UnaryExpr)
		return stmt(&ast.UnaryExpr{Op: token.ARROW, X: id(u.X.(*ast.Ident).Name)})
	case *ast.AssignStmt:
		u := x.Rhs[0].(*ast.UnaryExpr)
		return assign([]ast.Expr{id(x.Lhs[0].(*ast.Ident).Name), id(x.Lhs[1].(*ast.Ident).Name)},
			[]ast.Expr{&ast.UnaryExpr{Op: token.ARROW, X: id(u.X.(*ast.Ident).Name)}})
	}
	return s
}

func pureExpr(e ast.Expr) bool {
	switch x := e.(type) {
	case *ast.Ident:
		return true
	case *ast.SelectorExpr:
		return pureExpr(x.X)
	case *ast.ParenExpr:
		return pureExpr(x.X)
	case *ast.StarExpr:
		return pureExpr(x.X)
	}
	return false
}

func (r *rewriter) rangeStmt(c *astutil.Cursor, rs *ast.RangeStmt) {
	t := r.typeOf(rs.X)
	if t == nil {
		return
	}
	switch t.Underlying().(type) {
	case *types.Chan:
		rs.Body.List = append([]ast.Stmt{stmt(call(rt("Yield"), str(r.site(rs)+"/rangechan")))}, rs.Body.List...)
		r.count("rangechan")
		return
	case *types.Map:
	default:
		return
	}
	if !pureExpr(rs.X) {
		r.uncontrolled(rs, "map range over non-trivial expression (iteration order not seeded)")
		return
	}
	if rs.Tok == token.ASSIGN {
		r.uncontrolled(rs, "map range with '=' (iteration order not seeded)")
		return
	}
	n := r.nsel
	r.nsel++
	isBlank := func(e ast.Expr) bool {
		if e == nil {
			return true
		}
		i, ok := e.(*ast.Ident)
		return ok && i.Name == "_"
	}
	key := rs.Key
	if isBlank(key) {
		key = id(fmt.Sprintf("__k%d", n))
	}
	okv := id(fmt.Sprintf("__ok%d", n))
	var head []ast.Stmt
	val := rs.Value
	if isBlank(val) {
		val = id("_")
	}
	head = append(head, define([]ast.Expr{val, okv}, []ast.Expr{&ast.IndexExpr{X: rs.X, Index: key}}))
	head = append(head, &ast.IfStmt{Cond: &ast.UnaryExpr{Op: token.NOT, X: okv}, Body: block(&ast.BranchStmt{Tok: token.CONTINUE})})
	if km, ok := t.Underlying().(*types.Map); ok {
		if hasPointer(km.Key()) {
			r.uncontrolled(rs, "map key contains pointer/interface: canonical order may vary")
		}
	}
	rs.Key = id("_")
	rs.Value = key
	rs.Tok = token.DEFINE
	rs.X = call(rt("MapKeys"), rs.X, str(r.site(rs)))
	rs.Body.List = append(head, rs.Body.List...)
	r.count("maprange")
}

func hasPointer(t types.Type) bool {
	switch u := t.Underlying().(type) {
	case *types.Pointer, *types.Interface, *types.Chan:
		return true
	case *types.Struct:
		for i := 0; i < u.NumFields(); i++ {
			if hasPointer(u.Field(i).Type()) {
				return true
			}
		}
	case *types.Array:
		return hasPointer(u.Elem())
	}
	return false
}
