#!/usr/bin/env python3
# raceparse.py <race-log-files...> : list distinct vouch-vs-vouch data races (pair of top vouch frames) with counts
import sys,re,collections
MOD='github.com/attestantio/vouch/'
def site(sec):
    lines=sec.split('\n')[1:]
    for l in lines:
        l=l.strip()
        if not l or l.startswith('/'): continue
        fn=l[:l.rfind('(')] if '(' in l else l
        if fn.startswith(MOD): return fn[len(MOD):].replace('services/','',1)
        if fn.startswith('verif/'): return ''
        if '/' not in fn or fn.startswith('runtime.') or fn.startswith('sync') or fn.startswith('internal/'): continue
        return ''
    return ''
c=collections.Counter(); ex={}
for f in sys.argv[1:]:
    for rep in open(f,errors='replace').read().split('=================='):
        if 'WARNING: DATA RACE' not in rep: continue
        secs=[];cur=None
        for l in rep.split('\n'):
            t=l.strip()
            if re.match(r'(Previous )?(read|write|atomic)',t,re.I) and ' at 0x' in t:
                if cur: secs.append('\n'.join(cur))
                cur=[t]; continue
            if t.startswith('Goroutine '):
                if cur: secs.append('\n'.join(cur)); cur=None
                break
            if cur is not None: cur.append(t)
        if cur: secs.append('\n'.join(cur))
        if len(secs)<2: continue
        a,b=site(secs[0]),site(secs[1])
        if not a or not b: continue
        k=tuple(sorted([a,b])); c[k]+=1; ex.setdefault(k,rep)
for k,n in c.most_common(): print(n,' + '.join(k))
if '-v' in sys.argv: 
    for k in ex: print('\n#####',k,'\n',ex[k][:3000])
