#!/bin/bash
# determinism.sh [PROP ...]: the same seeds, in separate processes, under GOMAXPROCS 1, 4 and 16 (twice each):
# the per-run schedule signatures (hash of every decision taken: task chosen, site, number of candidates), outcomes
# and simulated durations must be identical.  Output: determinism-report.txt; exit 1 on any difference.
cd /verif
export GOFLAGS=-mod=mod GOPROXY=off GOSUMDB=off GOTOOLCHAIN=local PATH=/opt/veriftools/go1.26.8/bin:$PATH
props=${@:-C01 C02 C03 C04 C05 C06 C07 C08 C09 C10 C11 C12 C13 C14 C15 C16 C17 C18 C20}
declare -A N=([C01]=400 [C02]=1000 [C03]=60 [C04]=400 [C05]=400 [C06]=200 [C07]=1000 [C08]=1000 [C09]=300 [C10]=300 [C11]=80 [C12]=100 [C13]=200 [C14]=24 [C15]=16 [C16]=100 [C17]=120 [C18]=600 [C20]=160)
T=$(mktemp -d /tmp/det-XXXXXX); trap 'rm -rf $T' EXIT
: > determinism-report.txt
bad=0
for P in $props; do
  p=$(echo $P | tr A-Z a-z)
  race=""; [ $P = C17 ] && race="-race"   # C17's scenarios only exist in the race build; its race reports are not compared (the detector is not part of the schedule)
  go test -c $race -overlay build/overlay/overlay.json -o $T/sim-$p.test ./simtest/$p || exit 2
  i=0
  for mp in 1 4 16 1 4 16; do
    i=$((i+1))
    GORACE="halt_on_error=0 log_path=$T/race" GOMAXPROCS=$mp VERIF_PROP=$P VERIF_FIRST=424242 VERIF_COUNT=${N[$P]} VERIF_OUT=$T/$P-$i.json VERIF_REPLAY_DIR=$T $T/sim-$p.test -test.run '^TestWorker$' >/dev/null 2>&1 &
  done
  wait
  python3 - $P $T >> determinism-report.txt <<'PY' || bad=1
import json,sys
P,T=sys.argv[1],sys.argv[2]
ref=None; ok=True
for i in range(1,7):
    d=json.load(open('%s/%s-%d.json'%(T,P,i)))
    key=(d['runs'],d['nontrivial'],d['decisions'],d['choices'],round(d['sim_seconds'],6),json.dumps(d.get('sig_hashes'),sort_keys=True),json.dumps(sorted((v['fingerprint'],v['seed']) for v in d.get('violations') or []) if P!='C17' else []))
    if ref is None: ref=key
    elif key!=ref:
        ok=False
        print('%s: process %d differs: runs/nontrivial/decisions/choices/sim_seconds %s vs %s'%(P,i,key[:5],ref[:5]))
d=json.load(open('%s/%s-1.json'%(T,P)))
print('%s: %d runs x 6 processes (GOMAXPROCS 1,4,16 twice), %d decisions, %d distinct schedule signatures: %s'%(P,d['runs'],d['decisions'],len(set(d.get('sig_hashes') or [])),'identical' if ok else 'DIFFERENT'))
sys.exit(0 if ok else 1)
PY
done
cat determinism-report.txt
exit $bad
