#!/bin/bash
# rebasemut.sh <mutant.diff>...: re-base builders' mutants that no longer apply to /repo HEAD (they were written before
# fix: commits touched the same lines, and some carry the repair itself).  Hunks that fail are dropped (reported);
# the result must still build and differ from HEAD.
cd /verif
W=$(mktemp -d /tmp/rb-XXXXXX); trap 'git -C /repo worktree remove --force $W/r >/dev/null 2>&1; rm -rf $W' EXIT
git -C /repo worktree add -q --detach $W/r HEAD || exit 2
for m in "$@"; do
  m=$(readlink -f $m)
  ( cd $W/r && git checkout -q -- . && git clean -fdq
    out=$(patch -p1 -F3 --no-backup-if-mismatch -r /dev/null < $m 2>&1)
    failed=$(echo "$out" | grep -c "FAILED")
    if ! go build ./... >/dev/null 2>&1; then echo "$(basename $m): NOBUILD after rebase ($failed hunks failed)"; exit; fi
    if git diff --quiet; then echo "$(basename $m): EMPTY after rebase (only the repair was in it?)"; exit; fi
    git diff > $m.new && mv $m.new $m
    echo "$(basename $m): rebased, $failed hunk(s) dropped" )
done
