#!/bin/bash
# mutmatrix.sh [PROP ...]: run every simtest/<cNN>/mutants/*.diff (changes written while building the checks; files
# starting 00- are repairs, not mutants) against the property's scenarios with the quick tier's total number of runs.
# Output: mutants-matrix.txt (one line per mutant).  4 properties at a time.
cd /verif
declare -A RUNS=([C01]=6400 [C02]=32000 [C03]=1200 [C04]=6400 [C05]=12000 [C06]=2400 [C07]=24000 [C08]=24000 [C09]=4800 [C10]=4800 [C11]=1200 [C12]=1600 [C13]=3200 [C14]=320 [C15]=240 [C16]=1200 [C17]=3200 [C18]=24000 [C20]=4320)
props=${@:-C01 C02 C03 C04 C05 C06 C07 C08 C09 C10 C11 C12 C13 C14 C15 C16 C17 C18 C20}
known=$(grep -o 'fingerprint=[^ ]*' known_findings.txt | cut -d= -f2 | sort -u)
doprop() {
  P=$1; p=$(echo $P | tr A-Z a-z); r=${RUNS[$P]}
  for m in simtest/$p/mutants/*.diff; do
    [ -f "$m" ] || continue
    case $(basename $m) in 00-*) continue;; esac
    race=""; [ "$P" = C17 ] && race=1
    out=$(RACE=$race ./mutcheck.sh $P $m $r 2>&1)
    fps=$(echo "$out" | grep "^VIOL" | awk '{print $2}' | grep -vxF "$known" | sort -u | tr '\n' ' ')
    if echo "$out" | grep -q "patch does not apply"; then st="STALE(patch no longer applies)"
    elif echo "$out" | grep -q "does not compile\|does not build"; then st="NOBUILD"
    elif [ -n "$fps" ]; then st="caught"; else st="MISSED"; fi
    echo "$P $(basename $m) $st $fps"
  done
}
[ $# -eq 0 ] && : > mutants-matrix.txt
i=0
for P in $props; do doprop $P >> mutants-matrix.$P.tmp & i=$((i+1)); [ $((i%4)) -eq 0 ] && wait; done; wait
for P in $props; do cat mutants-matrix.$P.tmp >> mutants-matrix.txt; rm -f mutants-matrix.$P.tmp; done
grep -c caught mutants-matrix.txt; grep -v caught mutants-matrix.txt
