module verif

go 1.26.8

require (
	github.com/anishathalye/porcupine v1.3.0
	github.com/attestantio/vouch v0.0.0
)

replace github.com/attestantio/vouch => /repo
