module verif

go 1.26.8

require (
	github.com/anishathalye/porcupine v1.3.0
	github.com/attestantio/go-block-relay v0.4.1
	github.com/attestantio/go-builder-client v0.5.1
	github.com/attestantio/go-eth2-client v0.21.11
	github.com/attestantio/vouch v0.0.0
	github.com/google/uuid v1.6.0
	github.com/holiman/uint256 v1.3.1
	github.com/prysmaticlabs/go-bitfield v0.0.0-20240618144021-706c95b2dd15
	github.com/rs/zerolog v1.33.0
	github.com/sasha-s/go-deadlock v0.3.5
	github.com/shopspring/decimal v1.4.0
	github.com/spf13/viper v1.19.0
	github.com/wealdtech/go-eth2-types/v2 v2.8.2
	github.com/wealdtech/go-eth2-wallet-encryptor-keystorev4 v1.4.1
	github.com/wealdtech/go-eth2-wallet-nd/v2 v2.5.0
	github.com/wealdtech/go-eth2-wallet-store-filesystem v1.18.1
	github.com/wealdtech/go-eth2-wallet-types/v2 v2.12.0
	github.com/wealdtech/go-majordomo v1.1.1
)

require (
	github.com/aws/aws-sdk-go v1.55.5 // indirect
	github.com/beorn7/perks v1.0.1 // indirect
	github.com/cespare/xxhash/v2 v2.3.0 // indirect
	github.com/emicklei/dot v1.6.2 // indirect
	github.com/fatih/color v1.18.0 // indirect
	github.com/ferranbt/fastssz v0.1.4 // indirect
	github.com/fsnotify/fsnotify v1.8.0 // indirect
	github.com/gabriel-vasile/mimetype v1.4.6 // indirect
	github.com/gin-contrib/sse v0.1.0 // indirect
	github.com/gin-gonic/gin v1.10.0 // indirect
	github.com/go-logr/logr v1.4.2 // indirect
	github.com/go-logr/stdr v1.2.2 // indirect
	github.com/go-playground/locales v0.14.1 // indirect
	github.com/go-playground/universal-translator v0.18.1 // indirect
	github.com/go-playground/validator/v10 v10.22.1 // indirect
	github.com/goccy/go-yaml v1.13.6 // indirect
	github.com/gorilla/mux v1.8.1 // indirect
	github.com/hashicorp/hcl v1.0.0 // indirect
	github.com/herumi/bls-eth-go-binary v1.36.1 // indirect
	github.com/huandu/go-clone v1.7.2 // indirect
	github.com/jackc/puddle/v2 v2.2.2 // indirect
	github.com/jmespath/go-jmespath v0.4.0 // indirect
	github.com/klauspost/cpuid/v2 v2.2.9 // indirect
	github.com/leodido/go-urn v1.4.0 // indirect
	github.com/magiconair/properties v1.8.7 // indirect
	github.com/mattn/go-colorable v0.1.13 // indirect
	github.com/mattn/go-isatty v0.0.20 // indirect
	github.com/minio/sha256-simd v1.0.1 // indirect
	github.com/mitchellh/mapstructure v1.5.0 // indirect
	github.com/munnerz/goautoneg v0.0.0-20191010083416-a7dc8b61c822 // indirect
	github.com/pelletier/go-toml/v2 v2.2.3 // indirect
	github.com/petermattis/goid v0.0.0-20241025130422-66cb2e6d7274 // indirect
	github.com/pkg/errors v0.9.1 // indirect
	github.com/prometheus/client_golang v1.20.5 // indirect
	github.com/prometheus/client_model v0.6.1 // indirect
	github.com/prometheus/common v0.60.1 // indirect
	github.com/prometheus/procfs v0.15.1 // indirect
	github.com/sagikazarmark/slog-shim v0.1.0 // indirect
	github.com/shibukawa/configdir v0.0.0-20170330084843-e180dbdc8da0 // indirect
	github.com/spf13/afero v1.11.0 // indirect
	github.com/spf13/cast v1.7.0 // indirect
	github.com/spf13/pflag v1.0.5 // indirect
	github.com/subosito/gotenv v1.6.0 // indirect
	github.com/ugorji/go/codec v1.2.12 // indirect
	github.com/wealdtech/eth2-signer-api v1.7.2 // indirect
	github.com/wealdtech/go-bytesutil v1.2.1 // indirect
	github.com/wealdtech/go-ecodec v1.1.4 // indirect
	github.com/wealdtech/go-eth2-util v1.8.2 // indirect
	github.com/wealdtech/go-eth2-wallet v1.17.0 // indirect
	github.com/wealdtech/go-eth2-wallet-dirk v1.5.1 // indirect
	github.com/wealdtech/go-eth2-wallet-distributed v1.2.1 // indirect
	github.com/wealdtech/go-eth2-wallet-hd/v2 v2.7.0 // indirect
	github.com/wealdtech/go-eth2-wallet-keystore v1.0.0 // indirect
	github.com/wealdtech/go-eth2-wallet-store-s3 v1.12.0 // indirect
	github.com/wealdtech/go-eth2-wallet-store-scratch v1.7.2 // indirect
	github.com/wealdtech/go-indexer v1.1.0 // indirect
	go.opentelemetry.io/contrib/instrumentation/google.golang.org/grpc/otelgrpc v0.57.0 // indirect
	go.opentelemetry.io/otel v1.32.0 // indirect
	go.opentelemetry.io/otel/metric v1.32.0 // indirect
	go.opentelemetry.io/otel/trace v1.32.0 // indirect
	go.uber.org/atomic v1.11.0 // indirect
	golang.org/x/crypto v0.29.0 // indirect
	golang.org/x/net v0.31.0 // indirect
	golang.org/x/sync v0.9.0 // indirect
	golang.org/x/sys v0.27.0 // indirect
	golang.org/x/text v0.20.0 // indirect
	google.golang.org/genproto/googleapis/api v0.0.0-20241104194629-dd2ea8efbc28 // indirect
	google.golang.org/genproto/googleapis/rpc v0.0.0-20241104194629-dd2ea8efbc28 // indirect
	google.golang.org/grpc v1.68.0 // indirect
	google.golang.org/protobuf v1.35.1 // indirect
	gopkg.in/ini.v1 v1.67.0 // indirect
	gopkg.in/yaml.v2 v2.4.0 // indirect
	gopkg.in/yaml.v3 v3.0.1 // indirect
)

replace github.com/attestantio/vouch => /repo
