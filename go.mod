module verif

go 1.26.8

require (
	github.com/anishathalye/porcupine v1.3.0
	github.com/attestantio/vouch v0.0.0
	github.com/rs/zerolog v1.33.0
	github.com/sasha-s/go-deadlock v0.3.5
)

require (
	github.com/beorn7/perks v1.0.1 // indirect
	github.com/cespare/xxhash/v2 v2.3.0 // indirect
	github.com/mattn/go-colorable v0.1.13 // indirect
	github.com/mattn/go-isatty v0.0.20 // indirect
	github.com/munnerz/goautoneg v0.0.0-20191010083416-a7dc8b61c822 // indirect
	github.com/petermattis/goid v0.0.0-20241025130422-66cb2e6d7274 // indirect
	github.com/pkg/errors v0.9.1 // indirect
	github.com/prometheus/client_golang v1.20.5 // indirect
	github.com/prometheus/client_model v0.6.1 // indirect
	github.com/prometheus/common v0.60.1 // indirect
	github.com/prometheus/procfs v0.15.1 // indirect
	go.uber.org/atomic v1.11.0 // indirect
	golang.org/x/sys v0.27.0 // indirect
	google.golang.org/protobuf v1.35.1 // indirect
)

replace github.com/attestantio/vouch => /repo
