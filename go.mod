module verif

go 1.26.8

require (
	github.com/anishathalye/porcupine v1.3.0
	github.com/attestantio/go-eth2-client v0.21.11
	github.com/attestantio/vouch v0.0.0
	github.com/google/uuid v1.6.0
	github.com/rs/zerolog v1.33.0
	github.com/sasha-s/go-deadlock v0.3.5
	github.com/wealdtech/go-eth2-types/v2 v2.8.2
	github.com/wealdtech/go-eth2-wallet-types/v2 v2.12.0
)

require (
	github.com/beorn7/perks v1.0.1 // indirect
	github.com/cespare/xxhash/v2 v2.3.0 // indirect
	github.com/emicklei/dot v1.6.2 // indirect
	github.com/fatih/color v1.18.0 // indirect
	github.com/ferranbt/fastssz v0.1.4 // indirect
	github.com/goccy/go-yaml v1.13.6 // indirect
	github.com/herumi/bls-eth-go-binary v1.36.1 // indirect
	github.com/holiman/uint256 v1.3.1 // indirect
	github.com/klauspost/cpuid/v2 v2.2.9 // indirect
	github.com/mattn/go-colorable v0.1.13 // indirect
	github.com/mattn/go-isatty v0.0.20 // indirect
	github.com/minio/sha256-simd v1.0.1 // indirect
	github.com/mitchellh/mapstructure v1.5.0 // indirect
	github.com/munnerz/goautoneg v0.0.0-20191010083416-a7dc8b61c822 // indirect
	github.com/petermattis/goid v0.0.0-20241025130422-66cb2e6d7274 // indirect
	github.com/pkg/errors v0.9.1 // indirect
	github.com/prometheus/client_golang v1.20.5 // indirect
	github.com/prometheus/client_model v0.6.1 // indirect
	github.com/prometheus/common v0.60.1 // indirect
	github.com/prometheus/procfs v0.15.1 // indirect
	github.com/prysmaticlabs/go-bitfield v0.0.0-20240618144021-706c95b2dd15 // indirect
	go.uber.org/atomic v1.11.0 // indirect
	golang.org/x/crypto v0.29.0 // indirect
	golang.org/x/sys v0.27.0 // indirect
	google.golang.org/protobuf v1.35.1 // indirect
	gopkg.in/yaml.v2 v2.4.0 // indirect
)

replace github.com/attestantio/vouch => /repo
