// Package simrt is the seeded scheduler of the vouch simulation.
//
// One controller goroutine (the root goroutine of a testing/synctest bubble)
// releases exactly one parked task at a time; tasks are real goroutines that
// park in sync.Cond.Wait on a private Cond with a no-op Locker.  That wait is
// "durably blocking" for synctest and adds no happens-before edge for the Go
// race detector, so -race observes only the synchronisation of the code under
// test.  All shared simulator state is owned by the controller goroutine;
// tasks talk to it through fixed fields of their own Task struct, written in
// //go:norace functions, so the simulator is invisible to the race detector.
//
// When no simulation is active (Active()==false) every hook is a transparent
// pass-through to the real primitive.
package simrt

import (
	"context"
	"fmt"
	"runtime"
	"sort"
	"strings"
	"sync"
	"testing/synctest"
	"time"
)

type noopLocker struct{}

func (noopLocker) Lock()   {}
func (noopLocker) Unlock() {}

// request kinds (task -> controller)
const (
	rqNone = iota
	rqYield
	rqLock
	rqRLock
	rqCondWait
	rqStart
)

// note kinds (non-parking notifications, drained by the controller)
const (
	ntUnlock = iota + 1
	ntRUnlock
	ntSignal
	ntBroadcast
	ntTryLockOK
	ntTryRLockOK
)

type note struct {
	kind int
	key  any
}

const maxNotes = 32

// Task is one schedulable goroutine.
type Task struct {
	Seq    int    // spawn order, stable across replays
	Name   string // structural name (parent.ordinal@site)
	Daemon bool   // harness helper; ignored by leak accounting
	Inc    int    // incarnation of the system under test that spawned it

	goid     int64
	cond     *sync.Cond
	released bool
	parked   bool
	done     bool
	started  bool

	reqKind int
	reqKey  any
	reqSite string
	reqAux  any // for CondWait: the cond's Locker key

	notes  [maxNotes]note
	nnotes int

	spawns   int
	reaped   bool
	killMe   bool
	panicVal any
	panicStk string

	// controller-owned
	prio     int         // scheduling priority (PCT runs); 0 = not yet assigned
	held     map[any]int // modelled locks held: key -> count (readers counted)
	signaled bool        // cond waiter that has been signalled
	parkStep int
}

type lockState struct {
	writer  *Task
	readers map[*Task]int
	name    string
}

// Violation is something an oracle (or the scheduler itself) found.
type Violation struct {
	Kind   string // fingerprint class, e.g. "deadlock", "panic", "leaked-lock", oracle specific
	Detail string
}

func (v *Violation) Error() string { return v.Kind + ": " + v.Detail }

// Config of one run.
type Config struct {
	Tape     *Tape
	MaxSteps int
	Horizon  time.Duration // simulated
	LogCap   int
	// PassThrough: no seeded choice; always pick the first enabled (used by self-checks).
	PassThrough bool
	// Invariant is evaluated by the controller at every quiescent point.
	Invariant func() *Violation
}

// Sim is one simulation run.
type Sim struct {
	cfg   Config
	tape  *Tape
	tmu   sync.Mutex // guards tasks table physically; always taken with race sync disabled
	tasks []*Task    // live tasks; fixed capacity, never reallocated while running
	ntask int
	nseq  int

	ctl     *sync.Cond
	killing bool
	inc     int

	locks   map[any]*lockState
	condq   map[any][]*Task
	step    int
	onces map[*sync.Once]*onceState
	// spin detection: the step at which simulated time last advanced, and yield sites since
	instantAt   time.Duration
	instantStep int
	spinSites   map[string]int
	start   time.Time
	log     []string
	sigHash uint64
	nchoice int // decisions with >=2 alternatives
	ndec    int
	viol    *Violation
	probes  map[string]int

	pct      bool  // priority scheduling in this run
	lowPrio  int   // next "lowest" priority (negative, decreasing)
	stick    int   // percent
	last     *Task // task released by the previous decision
	mainDone bool
	horizon  bool
	deadInc  [64]bool // incarnations that have "crashed" (plain array: read by tasks)
	rootCtx  context.Context
	cancel   context.CancelFunc
	hmu      sync.Mutex // harness critical sections (Crit)
	pmu      sync.Mutex // probes
}

var cur *Sim

const maxTasks = 1 << 14

// Active reports whether a simulation is running.
//
//go:norace
func Active() bool { return cur != nil }

// Current returns the running simulation (nil if none).
//
//go:norace
func Current() *Sim { return cur }

// Result of a run.
type Result struct {
	Steps      int
	Decisions  int
	Choices    int
	SimTime    time.Duration
	SigHash    uint64
	Violation  *Violation
	Log        []string
	Stranded   []string // tasks that never finished (name@site)
	Probes     map[string]int
	MainDone   bool
	TapeUsed   int
	TasksTotal int
}

// Run executes main as the first task under the controller, inside the
// current synctest bubble (the caller must already be inside synctest.Test).
func Run(cfg Config, main func(ctx context.Context)) *Result {
	if cur != nil {
		panic("simrt: nested Run")
	}
	if cfg.MaxSteps == 0 {
		cfg.MaxSteps = 200000
	}
	if cfg.Horizon == 0 {
		cfg.Horizon = 24 * time.Hour
	}
	if cfg.LogCap == 0 {
		cfg.LogCap = 4000
	}
	s := &Sim{
		cfg:    cfg,
		tape:   cfg.Tape,
		tasks:  make([]*Task, maxTasks),
		ctl:    sync.NewCond(noopLocker{}),
		locks:  map[any]*lockState{},
		condq:  map[any][]*Task{},
		start:  time.Now(),
		probes: map[string]int{},
	}
	if s.tape == nil {
		s.tape = NewTape(1, nil)
	}
	s.rootCtx, s.cancel = context.WithCancel(context.Background())
	if !cfg.PassThrough {
		// scheduling policy of this run: uniform random, sticky, or priority based
		switch m := s.tape.Draw(10); {
		case m < 3:
			s.pct = true
		default:
			s.stick = []int{0, 0, 0, 50, 85, 97, 97}[m-3]
		}
	}
	cur = s
	defer func() { cur = nil }()

	ht := time.AfterFunc(cfg.Horizon, s.hitHorizon)
	defer ht.Stop()

	Go("main", func() {
		defer s.setMainDone()
		main(s.rootCtx)
	})

	s.loop()
	res := &Result{
		Steps:     s.step,
		Decisions: s.ndec,
		Choices:   s.nchoice,
		SimTime:   time.Since(s.start),
		SigHash:   s.sigHash,
		Violation: s.viol,
		Probes:    s.probes,
		MainDone:  s.isMainDone(),
	}
	s.teardown(res)
	res.Log = s.log
	res.TapeUsed = s.tape.n
	res.TasksTotal = s.nseq
	return res
}

//go:norace
func (s *Sim) hitHorizon() { s.horizon = true; s.ctl.Signal() }

//go:norace
func (s *Sim) horizonHit() bool { return s.horizon }

//go:norace
func (s *Sim) setMainDone() { s.mainDone = true }

//go:norace
func (s *Sim) isMainDone() bool { return s.mainDone }

func (s *Sim) logf(format string, a ...any) {
	if len(s.log) < s.cfg.LogCap {
		s.log = append(s.log, fmt.Sprintf("%d t=%v ", s.step, time.Since(s.start))+fmt.Sprintf(format, a...))
	}
}

// drain notes and requests of all tasks into controller state.
//
//go:norace
func (s *Sim) snapshot() []*Task {
	raceDisable()
	s.tmu.Lock()
	n := s.ntask
	out := make([]*Task, 0, n)
	w := 0
	for i := 0; i < n; i++ {
		t := s.tasks[i]
		if t.done && t.nnotes == 0 && t.panicVal == nil {
			t.reaped = true
			continue
		}
		s.tasks[w] = t
		w++
		out = append(out, t)
	}
	for i := w; i < n; i++ {
		s.tasks[i] = nil
	}
	s.ntask = w
	s.tmu.Unlock()
	raceEnable()
	return out
}

//go:norace
func (t *Task) takeNotes() []note {
	if t.nnotes == 0 {
		return nil
	}
	out := make([]note, t.nnotes)
	copy(out, t.notes[:t.nnotes])
	for i := 0; i < t.nnotes; i++ {
		t.notes[i] = note{}
	}
	t.nnotes = 0
	return out
}

//go:norace
func (t *Task) clearPanic() { t.panicVal = nil }

//go:norace
func (t *Task) view() (parked bool, done bool, kind int, key any, site string, aux any, pv any) {
	return t.parked, t.done, t.reqKind, t.reqKey, t.reqSite, t.reqAux, t.panicVal
}

func (s *Sim) lockOf(key any) *lockState {
	l := s.locks[key]
	if l == nil {
		l = &lockState{readers: map[*Task]int{}}
		s.locks[key] = l
	}
	return l
}

func (s *Sim) applyNotes(t *Task) {
	for _, n := range t.takeNotes() {
		switch n.kind {
		case ntUnlock:
			l := s.lockOf(n.key)
			if l.writer != nil {
				// Go permits unlocking from another goroutine; model by key only.
				w := l.writer
				l.writer = nil
				if w.held != nil {
					delete(w.held, n.key)
				}
			}
		case ntRUnlock:
			l := s.lockOf(n.key)
			// prefer removing this task's own read hold
			who := t
			if l.readers[who] == 0 {
				for r := range l.readers {
					who = r
					break
				}
			}
			if l.readers[who] > 0 {
				l.readers[who]--
				if l.readers[who] == 0 {
					delete(l.readers, who)
				}
				if who.held != nil {
					who.held[n.key]--
					if who.held[n.key] <= 0 {
						delete(who.held, n.key)
					}
				}
			}
		case ntTryLockOK:
			l := s.lockOf(n.key)
			l.writer = t
			t.hold(n.key)
		case ntTryRLockOK:
			l := s.lockOf(n.key)
			l.readers[t]++
			t.hold(n.key)
		case ntSignal:
			q := s.condq[n.key]
			for i, w := range q {
				if !w.signaled {
					w.signaled = true
					_ = i
					break
				}
			}
		case ntBroadcast:
			for _, w := range s.condq[n.key] {
				w.signaled = true
			}
		}
	}
}

func (t *Task) hold(key any) {
	if t.held == nil {
		t.held = map[any]int{}
	}
	t.held[key]++
}

// writerWaiting reports whether some parked task waits for a write lock on key.
func (s *Sim) writerWaiting(key any, ts []*Task) bool {
	for _, t := range ts {
		parked, done, kind, k, _, _, _ := t.view()
		if parked && !done && kind == rqLock && k == key {
			return true
		}
	}
	return false
}

func (s *Sim) grantable(t *Task, kind int, key any, aux any, ts []*Task) bool {
	switch kind {
	case rqYield, rqStart:
		return true
	case rqLock:
		l := s.lockOf(key)
		return l.writer == nil && len(l.readers) == 0
	case rqRLock:
		l := s.lockOf(key)
		if l.writer != nil {
			return false
		}
		// writer preference of sync.RWMutex: a pending Lock blocks new readers.  A task parked before its Lock
		// call only counts as pending while readers hold the lock (it would be inside Lock, waiting); while
		// the lock is free it has not called Lock yet, and a reader may still get in first.
		return len(l.readers) == 0 || !s.writerWaiting(key, ts)
	case rqCondWait:
		if !t.signaled {
			return false
		}
		l := s.lockOf(aux)
		return l.writer == nil && len(l.readers) == 0
	}
	return false
}

// flushDueTimers lets every timer that is already due fire before the next decision is taken.
// Inside a synctest bubble timers only fire once every goroutine is blocked; without this a
// zero-delay timer (a job whose time has come, time.After(0), an already expired context) would
// not fire until every runnable task had run dry, which would make "the timer path starts right
// away, concurrently with its creator" unreachable.  The controller's own zero timer keeps the
// clock from advancing: it is due now as well.
func (s *Sim) flushDueTimers() {
	// a channel, not the controller's cond: tasks woken by due timers signal the cond when they park,
	// and a wake-up of the controller between its check and its wait would lose the timer's own signal
	// Race detector: the controller has acquired every task's clock (synctest.Wait); starting a timer releases
	// the starter's clock to whoever is next woken by a timer.  Without the bracket below every task woken by a
	// timer would be ordered after everything that happened before, and only same-instant races would be seen.
	raceDisable()
	ch := make(chan struct{})
	tm := time.AfterFunc(0, func() { close(ch) })
	<-ch
	tm.Stop()
	raceEnable()
	synctest.Wait()
}

func (s *Sim) loop() {
	for {
		synctest.Wait()
		s.flushDueTimers()
		ts := s.snapshot()
		// notes first (unlock/signal), in task order
		for _, t := range ts {
			s.applyNotes(t)
		}
		// panics recorded by tasks
		for _, t := range ts {
			_, _, _, _, _, _, pv := t.view()
			if pv != nil && s.viol == nil {
				t.clearPanic()
				s.viol = &Violation{Kind: "panic", Detail: fmt.Sprintf("task %s: %v\n%s", t.Name, pv, t.panicStk)}
			}
		}
		if s.viol != nil {
			return
		}
		if s.cfg.Invariant != nil {
			if v := s.cfg.Invariant(); v != nil {
				s.viol = v
				return
			}
		}
		if s.isMainDone() {
			return
		}
		if now := time.Since(s.start); now != s.instantAt {
			s.instantAt, s.instantStep = now, s.step
			s.spinSites = map[string]int{}
		}
		if s.step >= s.cfg.MaxSteps {
			// Half of all the steps at one simulated instant: the code under test is spinning (a loop that
			// keeps finding something ready without time passing), which no amount of extra steps would end.
			if spin := s.step - s.instantStep; spin >= s.cfg.MaxSteps/2 {
				site, n := "", 0
				for k, c := range s.spinSites {
					if c > n || (c == n && k < site) {
						site, n = k, c
					}
				}
				s.viol = &Violation{Kind: "livelock/" + site, Detail: fmt.Sprintf("%d consecutive scheduling steps at simulated instant %v without time advancing (step cap %d); most frequent yield point %s (%d times)", spin, s.instantAt, s.cfg.MaxSteps, site, n)}
				return
			}
			s.viol = &Violation{Kind: "harness-maxsteps", Detail: fmt.Sprintf("step cap %d reached", s.cfg.MaxSteps)}
			return
		}
		if s.horizonHit() {
			s.viol = s.stuckViolation(ts)
			return
		}
		var en []*Task
		for _, t := range ts {
			parked, done, kind, key, _, aux, _ := t.view()
			if !parked || done {
				continue
			}
			// newly parked cond waiters join the queue
			if kind == rqCondWait && !t.inCondQ(s, key) {
				s.condq[key] = append(s.condq[key], t)
				t.signaled = false
				// the modelled lock was released by the wait
				l := s.lockOf(aux)
				if l.writer == t {
					l.writer = nil
					delete(t.held, aux)
				}
			}
		}
		for _, t := range ts {
			parked, done, kind, key, _, aux, _ := t.view()
			if !parked || done {
				continue
			}
			if s.grantable(t, kind, key, aux, ts) {
				en = append(en, t)
			}
		}
		if len(en) == 0 {
			// Let the fake clock advance: block until some task parks or the horizon fires.
			if dl := s.lockCycle(ts); dl != "" {
				s.viol = &Violation{Kind: "deadlock", Detail: dl}
				return
			}
			s.ctl.Wait()
			continue
		}
		sort.Slice(en, func(i, j int) bool { return en[i].Seq < en[j].Seq })
		idx := 0
		if len(en) > 1 {
			if !s.cfg.PassThrough && s.pct {
				// Priority scheduling (PCT-like): every task has a random priority, the enabled task of highest
				// priority runs, and at rare change points the running task drops to the lowest priority.
				// A task of low priority is thereby starved for as long as anything else can run.
				best := -1
				for i, c := range en {
					if c.prio == 0 {
						c.prio = 1 + s.tape.Draw(1<<20)
					}
					if best < 0 || c.prio > en[best].prio {
						best = i
					}
				}
				idx = best
				if s.tape.Draw(100) < 3 {
					s.lowPrio--
					en[idx].prio = s.lowPrio
				}
			} else if !s.cfg.PassThrough {
				// Stickiness (drawn once per run): with that probability the task that ran last keeps
				// running while it is enabled, so that some runs let one goroutine race far ahead of the
				// others ("slow goroutine" schedules) instead of interleaving everybody finely.
				stuck := false
				if s.stick > 0 && s.last != nil {
					for i, c := range en {
						if c == s.last {
							if s.tape.Draw(100) < s.stick {
								idx, stuck = i, true
							}
							break
						}
					}
				}
				if !stuck {
					idx = s.tape.Draw(len(en))
				}
			}
			s.nchoice++
		}
		t := en[idx]
		s.last = t
		s.step++
		s.ndec++
		_, _, kind, key, site, aux, _ := t.view()
		if len(en) > 1 {
			s.sigHash = mix(s.sigHash, hashStr(site)^uint64(t.Seq)*0x9e3779b97f4a7c15^uint64(len(en)))
		}
		s.logf("run %s %s %s [%d/%d]", t.Name, kindName(kind), site, idx, len(en))
		if s.spinSites != nil && s.step-s.instantStep > s.cfg.MaxSteps/4 {
			s.spinSites[site]++
		}
		switch kind {
		case rqLock:
			s.lockOf(key).writer = t
			t.hold(key)
		case rqRLock:
			s.lockOf(key).readers[t]++
			t.hold(key)
		case rqCondWait:
			q := s.condq[key]
			for i, w := range q {
				if w == t {
					s.condq[key] = append(append([]*Task{}, q[:i]...), q[i+1:]...)
					break
				}
			}
			t.signaled = false
			s.lockOf(aux).writer = t
			t.hold(aux)
		}
		t.release()
	}
}

func (t *Task) inCondQ(s *Sim, key any) bool {
	for _, w := range s.condq[key] {
		if w == t {
			return true
		}
	}
	return false
}

func kindName(k int) string {
	switch k {
	case rqYield:
		return "yield"
	case rqLock:
		return "lock"
	case rqRLock:
		return "rlock"
	case rqCondWait:
		return "condwake"
	case rqStart:
		return "start"
	}
	return "?"
}

// lockCycle: with nothing enabled, report tasks that wait for a modelled lock
// whose holders are themselves waiting for a lock (a wait-for cycle).  A task
// waiting for a lock held by a task that is blocked on a timer or on the
// environment is not a deadlock.
func (s *Sim) lockCycle(ts []*Task) string {
	waits := map[*Task][]*Task{}
	desc := map[*Task]string{}
	for _, t := range ts {
		parked, done, kind, key, site, _, _ := t.view()
		if !parked || done || (kind != rqLock && kind != rqRLock) {
			continue
		}
		l := s.lockOf(key)
		var hs []*Task
		if l.writer != nil {
			hs = append(hs, l.writer)
		}
		for r := range l.readers {
			hs = append(hs, r)
		}
		if kind == rqRLock && l.writer == nil {
			// blocked by a pending writer: depends on that writer
			for _, o := range ts {
				p2, d2, k2, key2, _, _, _ := o.view()
				if p2 && !d2 && k2 == rqLock && key2 == key {
					hs = append(hs, o)
				}
			}
		}
		sort.Slice(hs, func(i, j int) bool { return hs[i].Seq < hs[j].Seq })
		waits[t] = hs
		desc[t] = fmt.Sprintf("%s waits %s at %s", t.Name, kindName(kind), site)
	}
	// DFS for a cycle among waiting tasks
	var keys []*Task
	for t := range waits {
		keys = append(keys, t)
	}
	sort.Slice(keys, func(i, j int) bool { return keys[i].Seq < keys[j].Seq })
	for _, st := range keys {
		seen := map[*Task]bool{}
		var path []string
		var dfs func(t *Task) bool
		dfs = func(t *Task) bool {
			if seen[t] {
				return t == st
			}
			seen[t] = true
			path = append(path, desc[t])
			for _, h := range waits[t] {
				if h == st && len(path) > 0 {
					return true
				}
				if _, w := waits[h]; w && dfs(h) {
					return true
				}
			}
			path = path[:len(path)-1]
			return false
		}
		if dfs(st) {
			return strings.Join(path, " -> ")
		}
	}
	return ""
}

func (s *Sim) stuckViolation(ts []*Task) *Violation {
	var b []string
	for _, t := range ts {
		parked, done, kind, _, site, _, _ := t.view()
		if done || t.Daemon {
			continue
		}
		if parked {
			b = append(b, fmt.Sprintf("%s parked %s at %s", t.Name, kindName(kind), site))
		} else {
			b = append(b, fmt.Sprintf("%s blocked(real)", t.Name))
		}
	}
	return &Violation{Kind: "horizon", Detail: "main task did not finish before the simulated horizon; tasks: " + strings.Join(b, "; ")}
}

// teardown retires every task that can be retired.
func (s *Sim) teardown(res *Result) {
	s.setKilling()
	s.cancel()
	for i := 0; i < 200; i++ {
		synctest.Wait()
		ts := s.snapshot()
		any := false
		for _, t := range ts {
			parked, done, _, _, _, _, _ := t.view()
			if parked && !done {
				t.release()
				any = true
			}
		}
		if !any {
			break
		}
	}
	synctest.Wait()
	for _, t := range s.snapshot() {
		_, done, _, _, site, _, _ := t.view()
		if !done && !t.Daemon {
			res.Stranded = append(res.Stranded, t.Name+" last@"+site)
		}
	}
}

//go:norace
func (s *Sim) setKilling() { s.killing = true }

//go:norace
func (t *Task) release() {
	if s := cur; s != nil && t.Inc > 0 && t.Inc < len(s.deadInc) && s.deadInc[t.Inc] {
		t.killMe = true
	}
	t.parked = false
	t.released = true
	t.cond.Signal()
}

func mix(h, v uint64) uint64 {
	h ^= v + 0x9e3779b97f4a7c15 + (h << 6) + (h >> 2)
	return h
}

func hashStr(s string) uint64 {
	var h uint64 = 14695981039346656037
	for i := 0; i < len(s); i++ {
		h ^= uint64(s[i])
		h *= 1099511628211
	}
	return h
}

// ---------------------------------------------------------------------------
// task side

//go:norace
func goid() int64 {
	var buf [40]byte
	n := runtime.Stack(buf[:], false)
	// "goroutine 123 ["
	var id int64
	for i := 10; i < n; i++ {
		c := buf[i]
		if c < '0' || c > '9' {
			break
		}
		id = id*10 + int64(c-'0')
	}
	return id
}

//go:norace
func (s *Sim) me() *Task {
	g := goid()
	raceDisable()
	s.tmu.Lock()
	var t *Task
	n := s.ntask
	for i := n - 1; i >= 0; i-- {
		x := s.tasks[i]
		if x != nil && x.goid == g {
			t = x
			break
		}
	}
	s.tmu.Unlock()
	raceEnable()
	return t
}

//go:norace
func (s *Sim) register(t *Task) {
	raceDisable()
	s.tmu.Lock()
	if s.ntask >= maxTasks {
		s.tmu.Unlock()
		raceEnable()
		panic("simrt: too many tasks")
	}
	t.Seq = s.nseq
	s.nseq++
	s.tasks[s.ntask] = t
	s.ntask++
	s.tmu.Unlock()
	raceEnable()
}

//go:norace
func (t *Task) park(s *Sim, kind int, key any, site string, aux any) {
	if s.killing || t.killMe {
		runtime.Goexit()
	}
	t.reqKind, t.reqKey, t.reqSite, t.reqAux = kind, key, site, aux
	t.released = false
	t.parked = true
	s.ctl.Signal()
	for !t.released {
		t.cond.Wait()
	}
	if s.killing || t.killMe {
		runtime.Goexit()
	}
}

//go:norace
func (t *Task) addNote(s *Sim, kind int, key any, site string) {
	if t.nnotes >= maxNotes {
		t.park(s, rqYield, nil, site, nil)
	}
	t.notes[t.nnotes] = note{kind, key}
	t.nnotes++
}

// Spawn prepares a child task; called in the parent, before the go statement.
//
//go:norace
func Spawn(site string) *Task {
	s := cur
	if s == nil {
		return nil
	}
	name := site
	inc := 0
	if p := s.me(); p != nil {
		p.spawns++
		name = fmt.Sprintf("%s.%d@%s", p.Name, p.spawns, site)
		inc = p.Inc
	}
	t := &Task{Name: name, Inc: inc, cond: sync.NewCond(noopLocker{})}
	s.register(t)
	return t
}

// Start is the first statement of a spawned goroutine.
//
//go:norace
func Start(t *Task) {
	s := cur
	if t == nil || s == nil {
		return
	}
	t.goid = goid()
	t.started = true
	t.park(s, rqStart, nil, t.Name, nil)
}

// End is deferred in a spawned goroutine.  It records a panic as a violation
// (the process must survive to report it) and marks the task finished.
//
//go:norace
func End(t *Task) {
	if t == nil {
		return
	}
	if r := recover(); r != nil {
		t.panicVal = r
		t.panicStk = string(stackTrace())
	}
	t.done = true
	s := cur
	if s != nil && !s.killing {
		s.ctl.Signal()
	}
}

func stackTrace() []byte {
	buf := make([]byte, 16<<10)
	n := runtime.Stack(buf, false)
	return buf[:n]
}

// GoInc starts fn as the root task of incarnation inc (> 0) of the system
// under test; every task it spawns inherits the incarnation.
func GoInc(site string, inc int, fn func()) *Task {
	t := Spawn(site)
	if t == nil {
		go fn()
		return nil
	}
	t.Inc = inc
	go func() {
		Start(t)
		defer End(t)
		fn()
	}()
	return t
}

// KillInc "crashes" incarnation inc: each of its tasks is retired with
// runtime.Goexit the next time it would be released (tasks blocked on timers
// or on the environment are retired when they wake).  In-memory state of the
// incarnation is simply abandoned by the harness.
//
//go:norace
func KillInc(inc int) {
	s := cur
	if s == nil || inc <= 0 || inc >= len(s.deadInc) {
		return
	}
	s.deadInc[inc] = true
}

// IncAlive reports whether the calling task belongs to a live incarnation
// (tasks outside any incarnation are always alive).
//
//go:norace
func IncAlive() bool {
	s := cur
	if s == nil {
		return true
	}
	t := s.me()
	if t == nil || t.Inc <= 0 || t.Inc >= len(s.deadInc) {
		return true
	}
	return !s.deadInc[t.Inc]
}

// CurrentInc returns the incarnation of the calling task (0 = none).
//
//go:norace
func CurrentInc() int {
	s := cur
	if s == nil {
		return 0
	}
	if t := s.me(); t != nil {
		return t.Inc
	}
	return 0
}

// Go runs fn as a new task (harness side; instrumented code uses Spawn/Start/End).
func Go(site string, fn func()) *Task {
	t := Spawn(site)
	if t == nil {
		go fn()
		return nil
	}
	go func() {
		Start(t)
		defer End(t)
		fn()
	}()
	return t
}

// GoDaemon is Go for harness helpers that may legitimately outlive a run.
func GoDaemon(site string, fn func()) *Task {
	t := Spawn(site)
	if t == nil {
		go fn()
		return nil
	}
	t.Daemon = true
	go func() {
		Start(t)
		defer End(t)
		fn()
	}()
	return t
}

// Yield is a scheduling point.
//
//go:norace
func Yield(site string) {
	s := cur
	if s == nil {
		return
	}
	t := s.me()
	if t == nil {
		return
	}
	t.park(s, rqYield, nil, site, nil)
}

// Y yields and returns v (used to place a scheduling point in front of a call
// inside an expression: simrt.Y(site, x.Load)()).
//
//go:norace
func Y[T any](site string, v T) T {
	Yield(site)
	return v
}

type locker interface {
	Lock()
	Unlock()
}
type rlocker interface {
	RLock()
	RUnlock()
}
type trylocker interface{ TryLock() bool }
type tryrlocker interface{ TryRLock() bool }

// Lock models then performs p.Lock().
//
//go:norace
func Lock(p locker, site string) {
	s := cur
	if s != nil {
		if t := s.me(); t != nil {
			t.park(s, rqLock, p, site, nil)
		}
	}
	p.Lock()
}

//go:norace
func Unlock(p locker, site string) {
	p.Unlock()
	s := cur
	if s != nil {
		if s.killing {
			return
		}
		if t := s.me(); t != nil {
			t.addNote(s, ntUnlock, p, site)
		}
	}
}

//go:norace
func RLock(p rlocker, site string) {
	s := cur
	if s != nil {
		if t := s.me(); t != nil {
			t.park(s, rqRLock, p, site, nil)
		}
	}
	p.RLock()
}

//go:norace
func RUnlock(p rlocker, site string) {
	p.RUnlock()
	s := cur
	if s != nil {
		if s.killing {
			return
		}
		if t := s.me(); t != nil {
			t.addNote(s, ntRUnlock, p, site)
		}
	}
}

//go:norace
func TryLock(p trylocker, site string) bool {
	s := cur
	var t *Task
	if s != nil {
		if t = s.me(); t != nil {
			t.park(s, rqYield, nil, site, nil)
		}
	}
	ok := p.TryLock()
	if ok && t != nil {
		t.addNote(s, ntTryLockOK, p, site)
	}
	return ok
}

//go:norace
func TryRLock(p tryrlocker, site string) bool {
	s := cur
	var t *Task
	if s != nil {
		if t = s.me(); t != nil {
			t.park(s, rqYield, nil, site, nil)
		}
	}
	ok := p.TryRLock()
	if ok && t != nil {
		t.addNote(s, ntTryRLockOK, p, site)
	}
	return ok
}

// CondWait models c.Wait(): releases c.L, parks until signalled and the lock
// can be re-acquired.  The real Cond is never waited on while simulating.
//
//go:norace
func CondWait(c *sync.Cond, site string) {
	s := cur
	if s != nil {
		if t := s.me(); t != nil {
			c.L.Unlock()
			t.park(s, rqCondWait, c, site, c.L)
			c.L.Lock()
			return
		}
	}
	c.Wait()
}

//go:norace
func CondSignal(c *sync.Cond, site string) {
	s := cur
	if s != nil && !s.killing {
		if t := s.me(); t != nil {
			t.addNote(s, ntSignal, c, site)
			return
		}
	}
	c.Signal()
}

//go:norace
func CondBroadcast(c *sync.Cond, site string) {
	s := cur
	if s != nil && !s.killing {
		if t := s.me(); t != nil {
			t.addNote(s, ntBroadcast, c, site)
			return
		}
	}
	c.Broadcast()
}

// SelectOrder returns the order in which the n cases of a select are polled.
//
//go:norace
func SelectOrder(site string, n int) []int {
	out := make([]int, n)
	for i := range out {
		out[i] = i
	}
	s := cur
	if s == nil || s.cfg.PassThrough || n < 2 {
		return out
	}
	for i := n - 1; i > 0; i-- {
		j := s.tape.Draw(i + 1)
		out[i], out[j] = out[j], out[i]
	}
	return out
}

// Zero returns the zero value of a channel's element type.
func Zero[T any, C ~chan T | ~<-chan T](c C) (z T) { return }

// Probe counts a "this rare condition was reached" event.
func Probe(name string) {
	s := cur
	if s == nil {
		return
	}
	// own lock (not Crit's): Probe may be called from inside a Crit section
	raceDisable()
	s.pmu.Lock()
	raceEnable()
	s.probes[name]++
	raceDisable()
	s.pmu.Unlock()
	raceEnable()
}

// Crit runs f under the harness lock without creating a happens-before edge
// visible to the race detector.
//
//go:norace
func Crit(f func()) {
	s := cur
	if s == nil {
		f()
		return
	}
	raceDisable()
	s.hmu.Lock()
	raceEnable()
	f()
	raceDisable()
	s.hmu.Unlock()
	raceEnable()
}

// Sleep blocks for d of simulated time or until ctx is done, then yields.
// When the timer and the cancellation fall on the same simulated instant the
// winner is a schedule-tape decision (the Go runtime's own choice between two
// ready select cases cannot be seeded).
func Sleep(ctx context.Context, d time.Duration, site string) error {
	if d <= 0 {
		Yield(site)
		return ctx.Err()
	}
	deadline := time.Now().Add(d)
	tm := time.NewTimer(d)
	defer tm.Stop()
	select {
	case <-tm.C:
	case <-ctx.Done():
	}
	Yield(site)
	timerDue := !time.Now().Before(deadline)
	cancelled := ctx.Err() != nil
	switch {
	case timerDue && cancelled:
		if Draw(2) == 0 {
			return nil
		}
		return ctx.Err()
	case cancelled:
		return ctx.Err()
	}
	return nil
}

// Draw returns a tape-decided value in [0,n) from the running task.
//
//go:norace
func Draw(n int) int {
	s := cur
	if s == nil || n <= 1 {
		return 0
	}
	return s.tape.Draw(n)
}

// Now is simulated time since the start of the run.
func Now() time.Duration {
	s := cur
	if s == nil {
		return 0
	}
	return time.Since(s.start)
}

// Step returns the controller's global event sequence number.
//
//go:norace
func Step() int {
	s := cur
	if s == nil {
		return 0
	}
	return s.step
}

// LiveTasks counts unfinished non-daemon tasks (controller/harness use at quiescence).
//
//go:norace
func LiveTasks() (n int, names []string) {
	s := cur
	if s == nil {
		return 0, nil
	}
	for i := 0; i < s.ntask; i++ {
		t := s.tasks[i]
		if t != nil && !t.done && !t.Daemon {
			n++
			names = append(names, t.Name)
		}
	}
	return
}

// HeldLocks lists modelled locks currently owned (for leaked-lock oracles).
// Must be called from the controller's Invariant callback.
func (s *Sim) HeldLocks() []string {
	var out []string
	for k, l := range s.locks {
		if l.writer != nil {
			out = append(out, fmt.Sprintf("%T:W:%s", k, l.writer.Name))
		}
		for r := range l.readers {
			out = append(out, fmt.Sprintf("%T:R:%s", k, r.Name))
		}
	}
	sort.Strings(out)
	return out
}
