package simrt

// Tape is the single source of choices of a run: a recorded (and replayable)
// sequence of bounded draws.  All accesses are plain memory operations in
// //go:norace functions on preallocated storage, so that draws made by tasks
// are invisible to the race detector.
type Tape struct {
	rec    []uint32 // recorded values (preallocated)
	n      int      // draws made
	replay []uint32 // when non-nil: values to use; beyond the end: 0
	state  uint64   // splitmix64 state for generation
	fixed  bool
}

const tapeCap = 1 << 20

// NewTape creates a generating tape (replay == nil) or a replaying one.
func NewTape(seed uint64, replay []uint32) *Tape {
	t := &Tape{state: seed*0x9e3779b97f4a7c15 + 0x1234567, replay: replay, fixed: replay != nil}
	t.rec = make([]uint32, 0, 256)
	return t
}

//go:norace
func (t *Tape) next() uint64 {
	t.state += 0x9e3779b97f4a7c15
	z := t.state
	z = (z ^ (z >> 30)) * 0xbf58476d1ce4e5b9
	z = (z ^ (z >> 27)) * 0x94d049bb133111eb
	return z ^ (z >> 31)
}

// Draw returns a value in [0,n).
//
//go:norace
func (t *Tape) Draw(n int) int {
	if n <= 1 {
		return 0
	}
	var v uint32
	if t.fixed {
		if t.n < len(t.replay) {
			v = t.replay[t.n] % uint32(n)
		}
	} else {
		v = uint32(t.next() % uint64(n))
	}
	if t.n < tapeCap {
		if t.n < cap(t.rec) {
			t.rec = t.rec[:t.n+1]
			t.rec[t.n] = v
		} else {
			t.grow(v)
		}
	}
	t.n++
	return int(v)
}

//go:norace
func (t *Tape) grow(v uint32) {
	nr := make([]uint32, t.n+1, 2*cap(t.rec)+16)
	for i := 0; i < t.n; i++ {
		nr[i] = t.rec[i]
	}
	nr[t.n] = v
	t.rec = nr
}

// Recorded returns the values drawn so far.
func (t *Tape) Recorded() []uint32 {
	out := make([]uint32, len(t.rec))
	copy(out, t.rec)
	return out
}

// N is the number of draws made.
func (t *Tape) N() int { return t.n }

// Convenience generators for plans (harness side, before the run).
func (t *Tape) Intn(n int) int       { return t.Draw(n) }
func (t *Tape) Bool() bool           { return t.Draw(2) == 1 }
func (t *Tape) Pct(p int) bool       { return t.Draw(100) < p }
func (t *Tape) Range(lo, hi int) int { return lo + t.Draw(hi-lo+1) }
func (t *Tape) Pick(n int) int       { return t.Draw(n) }
func (t *Tape) Uint64() uint64       { return uint64(t.Draw(1<<16))<<16 | uint64(t.Draw(1<<16)) }
