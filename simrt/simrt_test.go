package simrt

import (
	"context"
	"fmt"
	"os"
	"strings"
	"sync"
	"testing"
	"testing/synctest"
	"time"
)

func runBubble(t *testing.T, cfg Config, main func(ctx context.Context)) (res *Result) {
	defer func() {
		if r := recover(); r != nil {
			if !strings.Contains(fmt.Sprint(r), "deadlock") {
				panic(r)
			}
		}
	}()
	synctest.Test(t, func(t *testing.T) {
		res = Run(cfg, main)
	})
	return
}

var counter int
var mu sync.Mutex

func TestRaceVisible(t *testing.T) {
	// run with -race: expect a DATA RACE report when UNPROT=1, none otherwise
	unprot := os.Getenv("UNPROT") == "1"
	res := runBubble(t, Config{Tape: NewTape(7, nil)}, func(ctx context.Context) {
		var wg sync.WaitGroup
		for i := 0; i < 2; i++ {
			wg.Add(1)
			Go("w", func() {
				defer wg.Done()
				for j := 0; j < 3; j++ {
					Yield("a")
					if unprot {
						counter++
					} else {
						Lock(&mu, "l")
						counter++
						Unlock(&mu, "u")
					}
					Sleep(ctx, time.Second, "s")
				}
			})
		}
		wg.Wait()
		Yield("afterwait")
	})
	if res.Violation != nil {
		t.Fatal(res.Violation)
	}
	t.Log(res.Steps, res.SimTime, counter)
}

func TestDeterministic(t *testing.T) {
	var logs []string
	for k := 0; k < 3; k++ {
		res := runBubble(t, Config{Tape: NewTape(42, nil)}, func(ctx context.Context) {
			var m sync.RWMutex
			c := sync.NewCond(&sync.Mutex{})
			ready := false
			var wg sync.WaitGroup
			for i := 0; i < 4; i++ {
				wg.Add(1)
				Go("w", func() {
					defer wg.Done()
					RLock(&m, "r")
					Yield("in")
					RUnlock(&m, "ru")
					Lock(&m, "w")
					Unlock(&m, "wu")
					Lock(c.L, "cl")
					for !ready {
						CondWait(c, "cw")
					}
					Unlock(c.L, "cu")
				})
			}
			Sleep(ctx, time.Minute, "m")
			Lock(c.L, "cl")
			ready = true
			Unlock(c.L, "cu")
			CondBroadcast(c, "b")
			wg.Wait()
			Yield("end")
		})
		if res.Violation != nil {
			t.Fatal(res.Violation)
		}
		logs = append(logs, strings.Join(res.Log, "\n"))
	}
	if logs[0] != logs[1] || logs[1] != logs[2] {
		t.Fatal("nondeterministic")
	}
	t.Log(len(logs[0]))
}

func TestDeadlockDetected(t *testing.T) {
	found := 0
	for seed := uint64(1); seed < 40; seed++ {
		res := runBubble(t, Config{Tape: NewTape(seed, nil), Horizon: time.Hour}, func(ctx context.Context) {
			var m sync.RWMutex
			var wg sync.WaitGroup
			wg.Add(2)
			Go("reader", func() {
				defer wg.Done()
				RLock(&m, "r1")
				RLock(&m, "r2") // recursive read lock
				RUnlock(&m, "ru")
				RUnlock(&m, "ru")
			})
			Go("writer", func() {
				defer wg.Done()
				Lock(&m, "w")
				Unlock(&m, "wu")
			})
			wg.Wait()
			Yield("end")
		})
		if res.Violation != nil {
			if res.Violation.Kind != "deadlock" {
				t.Fatal(res.Violation)
			}
			found++
		}
	}
	if found == 0 {
		t.Fatal("recursive rlock deadlock never found")
	}
	t.Log("deadlocks found", found)
}

func TestPanicCaught(t *testing.T) {
	res := runBubble(t, Config{Tape: NewTape(1, nil)}, func(ctx context.Context) {
		Go("p", func() {
			var m map[string]int
			m["x"] = 1
		})
		Sleep(ctx, time.Second, "s")
	})
	if res.Violation == nil || res.Violation.Kind != "panic" {
		t.Fatal("panic not caught", res.Violation)
	}
}

func TestStranded(t *testing.T) {
	res := runBubble(t, Config{Tape: NewTape(1, nil)}, func(ctx context.Context) {
		ch := make(chan int)
		Go("stuck", func() { <-ch })
		Go("timer", func() { time.Sleep(time.Hour); Yield("x") })
		Sleep(ctx, time.Second, "s")
	})
	if res.Violation != nil {
		t.Fatal(res.Violation)
	}
	if len(res.Stranded) != 2 {
		t.Fatal(res.Stranded)
	}
}
