package simrt

import (
	"context"
	"fmt"
	"sort"
	"sync"
	"time"
)

// TimeSleep is time.Sleep followed by a scheduling point.
func TimeSleep(d time.Duration, site string) {
	time.Sleep(d)
	Yield(site)
}

// WGWait is wg.Wait() followed by a scheduling point.
func WGWait(wg *sync.WaitGroup, site string) {
	Yield(site + "/pre")
	wg.Wait()
	Yield(site)
}

// SemAcquire wraps (*semaphore.Weighted).Acquire.
func SemAcquire(s interface {
	Acquire(context.Context, int64) error
}, ctx context.Context, n int64, site string) error {
	Yield(site + "/pre")
	err := s.Acquire(ctx, n)
	Yield(site)
	return err
}

// Recv is <-c followed by a scheduling point.
func Recv[T any](c <-chan T, site string) T {
	Yield(site + "/pre")
	v := <-c
	Yield(site)
	return v
}

// Recv2 is the comma-ok receive followed by a scheduling point.
func Recv2[T any](c <-chan T, site string) (T, bool) {
	Yield(site + "/pre")
	v, ok := <-c
	Yield(site)
	return v, ok
}

// MapKeys returns the keys of m.  Under simulation the order is canonical
// (sorted by printed form) and then permuted by the tape, so that map
// iteration order inside vouch is a recorded choice; without a simulation it
// is Go's native order.
func MapKeys[M ~map[K]V, K comparable, V any](m M, site string) []K {
	keys := make([]K, 0, len(m))
	for k := range m {
		keys = append(keys, k)
	}
	s := Current()
	if s == nil || len(keys) < 2 {
		return keys
	}
	strs := make([]string, len(keys))
	for i, k := range keys {
		strs[i] = fmt.Sprint(k)
	}
	idx := make([]int, len(keys))
	for i := range idx {
		idx[i] = i
	}
	sort.Slice(idx, func(a, b int) bool { return strs[idx[a]] < strs[idx[b]] })
	out := make([]K, len(keys))
	for i, j := range idx {
		out[i] = keys[j]
	}
	if s.cfg.PassThrough || s.me() == nil {
		return out
	}
	// tape-decided rotation + optional reversal: cheap, covers "any element first".
	r := Draw(len(out))
	rev := Draw(2) == 1
	res := make([]K, 0, len(out))
	for i := 0; i < len(out); i++ {
		res = append(res, out[(i+r)%len(out)])
	}
	if rev {
		for i, j := 0, len(res)-1; i < j; i, j = i+1, j-1 {
			res[i], res[j] = res[j], res[i]
		}
	}
	return res
}

// onceState is the modelled state of one sync.Once.
type onceState struct {
	mu   sync.Mutex
	done bool
}

// OnceDo is sync.Once.Do with the exclusion handled by a modelled lock: concurrent callers park (and can be
// scheduled, detected as deadlocked, ...) instead of blocking on the Once's own mutex, which the simulator
// cannot see.  f runs at most once per Once; callers return only after it has finished.
func OnceDo(o *sync.Once, f func(), site string) {
	s := cur
	if s == nil {
		o.Do(f)
		return
	}
	var st *onceState
	Crit(func() {
		if s.onces == nil {
			s.onces = map[*sync.Once]*onceState{}
		}
		st = s.onces[o]
		if st == nil {
			st = &onceState{}
			s.onces[o] = st
		}
	})
	Lock(&st.mu, site)
	defer Unlock(&st.mu, site)
	if st.done {
		return
	}
	defer func() { st.done = true }()
	f()
}
