//go:build !race

package simrt

// RaceEnabled reports whether the binary was built with -race.
const RaceEnabled = false

func raceDisable() {}
func raceEnable()  {}
