//go:build race

package simrt

import "runtime"

// RaceEnabled reports whether the binary was built with -race.
const RaceEnabled = true

func raceDisable() { runtime.RaceDisable() }
func raceEnable()  { runtime.RaceEnable() }
