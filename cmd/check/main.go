// check is the command registered in MANIFEST.json:
//
//	check <property> [--tier quick|thorough] [--replay file] [--scenario name] [--runs n] [--budget dur] [--workers n]
//
// It instruments /repo's current working tree (vinject → overlay), builds the
// simulation binary against it, fans out worker processes over disjoint seed
// ranges, confirms every violation by replaying its minimised file in a fresh
// process and writes /verif/evidence/<property>.json.
//
// exit 0: property held on everything explored (known findings are printed)
// exit 1: "VIOLATION property=<id> replay=<path>" printed
// exit 2: build / harness / watchdog trouble (never a VIOLATION line)
package main

import (
	"bufio"
	"encoding/json"
	"flag"
	"fmt"
	"os"
	"os/exec"
	"path/filepath"
	"sort"
	"strconv"
	"strings"
	"sync"
	"syscall"
	"time"
)

const root = "/verif"
const goroot = "/opt/veriftools/go1.26.8"

type tierCfg struct {
	runsPerWorker uint64
	workers       int
	budget        time.Duration // wall budget per worker (0 = none)
}

type propCfg struct {
	quick, thorough tierCfg
	race            bool
	note            string
}

func q(runs uint64, workers int) tierCfg {
	return tierCfg{runsPerWorker: runs, workers: workers, budget: 150 * time.Second}
}
func th(d time.Duration) tierCfg { return tierCfg{runsPerWorker: 1 << 40, workers: 16, budget: d} }

var props = map[string]propCfg{
	"C01": {quick: q(800, 8), thorough: th(15 * time.Minute)},
	"C02": {quick: q(4000, 8), thorough: th(10 * time.Minute)},
	"C03": {quick: q(150, 8), thorough: th(20 * time.Minute)},
	"C04": {quick: q(800, 8), thorough: th(15 * time.Minute)},
	"C05": {quick: q(1500, 8), thorough: th(15 * time.Minute)},
	"C06": {quick: q(300, 8), thorough: th(15 * time.Minute)},
	"C07": {quick: q(3000, 8), thorough: th(15 * time.Minute)},
	"C08": {quick: q(3000, 8), thorough: th(15 * time.Minute)},
	"C09": {quick: q(600, 8), thorough: th(15 * time.Minute)},
	"C10": {quick: q(600, 8), thorough: th(15 * time.Minute)},
	"C11": {quick: q(150, 8), thorough: th(20 * time.Minute)},
	"C12": {quick: q(200, 8), thorough: th(20 * time.Minute)},
	"C13": {quick: q(400, 8), thorough: th(15 * time.Minute)},
	"C14": {quick: q(40, 8), thorough: th(20 * time.Minute)},
	"C15": {quick: q(30, 8), thorough: th(20 * time.Minute)},
	"C16": {quick: q(150, 8), thorough: th(20 * time.Minute)},
	"C17": {quick: q(400, 8), thorough: th(30 * time.Minute), race: true},
	"C18": {quick: q(3000, 8), thorough: th(15 * time.Minute)},
	"C20": {quick: q(540, 8), thorough: th(30 * time.Minute)},
}

func fatal2(format string, a ...any) {
	fmt.Fprintf(os.Stderr, "check: "+format+"\n", a...)
	os.Exit(2)
}

func goEnv() []string {
	env := os.Environ()
	env = append(env,
		"GOFLAGS=-mod=mod", "GOPROXY=off", "GOSUMDB=off", "GOTOOLCHAIN=local",
		"PATH="+goroot+"/bin:"+os.Getenv("PATH"),
		"GOROOT="+goroot,
	)
	return env
}

func run(dir string, env []string, name string, args ...string) (string, error) {
	cmd := exec.Command(name, args...)
	cmd.Dir = dir
	cmd.Env = env
	b, err := cmd.CombinedOutput()
	return string(b), err
}

type replay struct {
	Property    string   `json:"property"`
	Scenario    string   `json:"scenario"`
	Seed        uint64   `json:"seed"`
	Fingerprint string   `json:"fingerprint"`
	Detail      string   `json:"detail"`
	Plan        []uint32 `json:"plan_tape"`
	Sched       []uint32 `json:"sched_tape"`
}

type workerResult struct {
	Property    string         `json:"property"`
	Runs        int            `json:"runs"`
	Nontrivial  int            `json:"nontrivial"`
	SigHashes   []uint64       `json:"sig_hashes"`
	Decisions   int64          `json:"decisions"`
	Choices     int64          `json:"choices"`
	SimSeconds  float64        `json:"sim_seconds"`
	Probes      map[string]int `json:"probes"`
	PerScenario map[string]int `json:"per_scenario"`
	Samples     []any          `json:"samples"`
	Violations  []*replay      `json:"violations"`
	ReplayPaths []string       `json:"replay_paths"`
	WallS       float64        `json:"wall_s"`
	FirstSeed   uint64         `json:"first_seed"`
	LastSeed    uint64         `json:"last_seed"`
	Stranded    map[string]int `json:"stranded"`
	HarnessErr  string         `json:"harness_error"`
	Extra       map[string]any `json:"extra"`
}

type known struct{ fp, text string }

func loadKnown(prop string) []known {
	f, err := os.Open(filepath.Join(root, "known_findings.txt"))
	if err != nil {
		return nil
	}
	defer f.Close()
	var out []known
	sc := bufio.NewScanner(f)
	for sc.Scan() {
		line := strings.TrimSpace(sc.Text())
		if !strings.HasPrefix(line, "known: ") {
			continue
		}
		fields := strings.Fields(line)
		if len(fields) < 3 || fields[1] != "property="+prop || !strings.HasPrefix(fields[2], "fingerprint=") {
			continue
		}
		out = append(out, known{fp: strings.TrimPrefix(fields[2], "fingerprint="), text: strings.Join(fields[3:], " ")})
	}
	return out
}

func build(prop string, race bool) (bin string, vreport map[string]any) {
	os.MkdirAll(filepath.Join(root, "build"), 0o755)
	lock, err := os.OpenFile(filepath.Join(root, "build", ".lock"), os.O_CREATE|os.O_RDWR, 0o644)
	if err != nil {
		fatal2("lock: %v", err)
	}
	defer lock.Close()
	if err := syscall.Flock(int(lock.Fd()), syscall.LOCK_EX); err != nil {
		fatal2("flock: %v", err)
	}
	defer syscall.Flock(int(lock.Fd()), syscall.LOCK_UN)
	env := goEnv()
	vin := filepath.Join(root, "build", "vinject")
	if _, err := os.Stat(vin); err != nil {
		if out, err := run(filepath.Join(root, "vinject"), env, "go", "build", "-o", vin, "."); err != nil {
			fatal2("building vinject failed: %v\n%s", err, out)
		}
	}
	ov := filepath.Join(root, "build", "overlay")
	if out, err := run(root, env, vin, "-repo", "/repo", "-out", ov, "-hooks", filepath.Join(root, "hooks")); err != nil {
		fatal2("vinject failed (harness/build trouble): %v\n%s", err, out)
	}
	b, _ := os.ReadFile(filepath.Join(ov, "vinject-report.json"))
	json.Unmarshal(b, &vreport)
	lp := strings.ToLower(prop)
	bin = filepath.Join(root, "build", "sim-"+lp+".test")
	args := []string{"test", "-c", "-overlay", filepath.Join(ov, "overlay.json"), "-o", bin}
	if race {
		bin = filepath.Join(root, "build", "sim-"+lp+"-race.test")
		args = []string{"test", "-c", "-race", "-overlay", filepath.Join(ov, "overlay.json"), "-o", bin}
	}
	args = append(args, "./simtest/"+lp)
	if out, err := run(root, env, "go", args...); err != nil {
		fatal2("building the simulation binary against /repo failed (build trouble, not a verdict): %v\n%s", err, out)
	}
	return bin, vreport
}

func main() {
	if len(os.Args) < 2 {
		fatal2("usage: check <property> [--tier quick|thorough] [--replay file]")
	}
	prop := os.Args[1]
	fs := flag.NewFlagSet("check", flag.ExitOnError)
	tier := fs.String("tier", os.Getenv("VERIF_TIER"), "quick|thorough")
	replayPath := fs.String("replay", "", "replay a violation file")
	scenario := fs.String("scenario", "", "restrict to one scenario")
	runsFlag := fs.Uint64("runs", 0, "runs per worker (override)")
	budgetFlag := fs.Duration("budget", 0, "wall budget per worker (override)")
	workersFlag := fs.Int("workers", 0, "worker processes (override)")
	noEvidence := fs.Bool("no-evidence", false, "do not write the evidence file")
	fs.Parse(os.Args[2:])
	if *tier == "" {
		*tier = "quick"
	}
	pc, ok := props[prop]
	if !ok {
		if _, err := os.Stat(filepath.Join(root, "simtest", strings.ToLower(prop))); err != nil {
			fatal2("unknown or unclaimed property %q", prop)
		}
		pc = propCfg{quick: q(400, 8), thorough: th(10 * time.Minute)}
	}
	seed := uint64(1)
	if v := os.Getenv("VERIF_SEED"); v != "" {
		if n, err := strconv.ParseUint(v, 10, 64); err == nil {
			seed = n
		} else if n, err := strconv.ParseInt(v, 10, 64); err == nil {
			seed = uint64(n)
		}
	}
	start := time.Now()
	bin, vreport := build(prop, pc.race)

	if *replayPath != "" {
		os.Exit(doReplay(bin, prop, *replayPath, true))
	}

	tc := pc.quick
	if *tier == "thorough" {
		tc = pc.thorough
	}
	if *runsFlag > 0 {
		tc.runsPerWorker = *runsFlag
	}
	if *budgetFlag > 0 {
		tc.budget = *budgetFlag
	}
	if *workersFlag > 0 {
		tc.workers = *workersFlag
	}
	outDir := filepath.Join(root, "build", "out", prop)
	os.RemoveAll(outDir)
	os.MkdirAll(outDir, 0o755)
	replayDir := filepath.Join(root, "replays")
	os.MkdirAll(replayDir, 0o755)
	if old, _ := filepath.Glob(filepath.Join(replayDir, prop+"-*.json")); *tier != "" {
		for _, f := range old {
			os.Remove(f)
		}
	}

	// A worker is a sequence of processes ("chunks"): in the thorough tier each process works for at most
	// chunkBudget and the next one continues with the following seeds, so that memory (the race detector's in
	// particular) stays bounded however long the tier runs.
	var results []*workerResult
	var resMu sync.Mutex
	errs := make([]string, tc.workers)
	var wg sync.WaitGroup
	const chunkBudget = 4 * time.Minute
	tierStart := time.Now()
	for k := 0; k < tc.workers; k++ {
		wg.Add(1)
		go func(k int) {
			defer wg.Done()
			first := uint64(k) * (1 << 40)
			remainingRuns := tc.runsPerWorker
			for chunk := 0; ; chunk++ {
				budget := tc.budget
				if tc.runsPerWorker >= 1<<40 { // time-bounded tier
					left := tc.budget - time.Since(tierStart)
					if left <= 0 {
						return
					}
					budget = left
					if budget > chunkBudget {
						budget = chunkBudget
					}
				}
				out := filepath.Join(outDir, fmt.Sprintf("w%d-%d.json", k, chunk))
				cmd := exec.Command(bin, "-test.run", "^TestWorker$", "-test.timeout", "0")
				cmd.Env = append(os.Environ(),
					"VERIF_PROP="+prop,
					"VERIF_SCENARIO="+*scenario,
					fmt.Sprintf("VERIF_SEED=%d", seed),
					fmt.Sprintf("VERIF_FIRST=%d", first),
					fmt.Sprintf("VERIF_COUNT=%d", remainingRuns),
					fmt.Sprintf("VERIF_BUDGET_MS=%d", budget.Milliseconds()),
					"VERIF_OUT="+out,
					"VERIF_REPLAY_DIR="+replayDir,
					"VERIF_KNOWN="+filepath.Join(root, "known_findings.txt"),
					"GOMAXPROCS=2",
					"GORACE=halt_on_error=0 log_path="+filepath.Join(outDir, fmt.Sprintf("race%d-%d", k, chunk)),
				)
				var stderr strings.Builder
				cmd.Stderr = &stderr
				cmd.Stdout = &stderr
				done := make(chan error, 1)
				if err := cmd.Start(); err != nil {
					errs[k] = err.Error()
					return
				}
				go func() { done <- cmd.Wait() }()
				watchdog := budget*3 + 10*time.Minute
				select {
				case err := <-done:
					if err != nil {
						// a -race worker ends with a failing status once the detector has reported anything
						// (testing marks the test failed); its result file is still authoritative
						if _, serr := os.Stat(out); !(pc.race && serr == nil) {
							errs[k] = fmt.Sprintf("worker %d exited: %v\n%s", k, err, tailStr(stderr.String(), 6000))
							return
						}
					}
				case <-time.After(watchdog):
					cmd.Process.Kill()
					errs[k] = fmt.Sprintf("worker %d: watchdog (%v) expired\n%s", k, watchdog, tailStr(stderr.String(), 3000))
					return
				}
				b, err := os.ReadFile(out)
				if err != nil {
					errs[k] = fmt.Sprintf("worker %d wrote no result: %v\n%s", k, err, tailStr(stderr.String(), 3000))
					return
				}
				var wr workerResult
				if err := json.Unmarshal(b, &wr); err != nil {
					errs[k] = fmt.Sprintf("worker %d result unreadable: %v", k, err)
					return
				}
				resMu.Lock()
				results = append(results, &wr)
				resMu.Unlock()
				if tc.runsPerWorker < 1<<40 || wr.Runs == 0 || wr.HarnessErr != "" {
					return // run-bounded tier: one process; nothing done: do not spin
				}
				first += uint64(wr.Runs)
			}
		}(k)
	}
	wg.Wait()
	for _, e := range errs {
		if e != "" {
			fatal2("%s", e)
		}
	}
	// merge
	total := &workerResult{Probes: map[string]int{}, PerScenario: map[string]int{}, Stranded: map[string]int{}}
	sigs := map[uint64]bool{}
	type vrec struct {
		r    *replay
		path string
	}
	viols := map[string]vrec{}
	for _, wr := range results {
		if wr.HarnessErr != "" {
			fatal2("harness trouble: %s", wr.HarnessErr)
		}
		total.Runs += wr.Runs
		total.Nontrivial += wr.Nontrivial
		total.Decisions += wr.Decisions
		total.Choices += wr.Choices
		total.SimSeconds += wr.SimSeconds
		for k, v := range wr.Probes {
			total.Probes[k] += v
		}
		for k, v := range wr.PerScenario {
			total.PerScenario[k] += v
		}
		for k, v := range wr.Stranded {
			total.Stranded[k] += v
		}
		for _, h := range wr.SigHashes {
			sigs[h] = true
		}
		if len(total.Samples) < 4 {
			total.Samples = append(total.Samples, wr.Samples...)
		}
		for i, v := range wr.Violations {
			if _, dup := viols[v.Fingerprint]; !dup && i < len(wr.ReplayPaths) {
				viols[v.Fingerprint] = vrec{v, wr.ReplayPaths[i]}
			}
		}
	}
	kn := loadKnown(prop)
	isKnown := func(fp string) *known {
		for i := range kn {
			if kn[i].fp == fp {
				return &kn[i]
			}
		}
		return nil
	}
	var fps []string
	for fp := range viols {
		fps = append(fps, fp)
	}
	sort.Strings(fps)
	nviol := 0
	knownMatched := []string{}
	var vlines []string
	for _, fp := range fps {
		v := viols[fp]
		if k := isKnown(fp); k != nil {
			fmt.Printf("KNOWN-FINDING: property=%s %s %s\n", prop, fp, k.text)
			knownMatched = append(knownMatched, fp)
			continue
		}
		// confirm in a fresh process (race reports depend on process history: second attempt re-executes the worker's earlier runs first)
		code := doReplay(bin, prop, v.path, false)
		if code != 1 && pc.race {
			os.Setenv("VERIF_REPLAY_PREFIX", "1")
			code = doReplay(bin, prop, v.path, false)
			os.Unsetenv("VERIF_REPLAY_PREFIX")
		}
		if code != 1 {
			fatal2("violation %s (seed index %d) did not reproduce from %s in a fresh process: determinism trouble in the harness, not a verdict\n%s", fp, v.r.Seed, v.path, v.r.Detail)
		}
		nviol++
		vlines = append(vlines, fmt.Sprintf("VIOLATION property=%s replay=%s", prop, v.path))
		fmt.Printf("violation %s: %s\n", fp, firstLines(v.r.Detail, 12))
	}
	// keep only the replay files that are reported (or match a known finding)
	keep := map[string]bool{}
	for _, v := range viols {
		keep[v.path] = true
	}
	if all, _ := filepath.Glob(filepath.Join(replayDir, prop+"-*.json")); true {
		for _, f := range all {
			if !keep[f] {
				os.Remove(f)
			}
		}
	}
	wall := time.Since(start).Seconds()
	if !*noEvidence {
		writeEvidence(prop, *tier, seed, total, len(sigs), wall, nviol, knownMatched, vreport, pc, tc)
	}
	fmt.Printf("check %s tier=%s seed=%d: %d simulated runs, %d non-trivial, %d distinct schedule signatures, %.0f s simulated, %d decisions, wall %.1fs, violations %d, known findings %d\n",
		prop, *tier, seed, total.Runs, total.Nontrivial, len(sigs), total.SimSeconds, total.Decisions, wall, nviol, len(knownMatched))
	var zero []string
	for k, v := range total.Probes {
		if v == 0 {
			zero = append(zero, k)
		}
	}
	if len(zero) > 0 {
		sort.Strings(zero)
		fmt.Printf("warning: probes at zero: %s\n", strings.Join(zero, ", "))
	}
	for _, l := range vlines {
		fmt.Println(l)
	}
	if nviol > 0 {
		os.Exit(1)
	}
}

func doReplay(bin, prop, path string, verbose bool) int {
	out := path + ".result"
	cmd := exec.Command(bin, "-test.run", "^TestWorker$", "-test.timeout", "0")
	cmd.Env = append(os.Environ(), "VERIF_PROP="+prop, "VERIF_REPLAY="+path, "VERIF_OUT="+out, "GOMAXPROCS=2",
		"GORACE=halt_on_error=0 log_path="+filepath.Join(root, "build", "out", "replay-race"))
	os.Remove(out)
	b, err := cmd.CombinedOutput()
	if _, serr := os.Stat(out); err != nil && serr != nil {
		fmt.Fprintf(os.Stderr, "replay process failed: %v\n%s\n", err, tailStr(string(b), 4000))
		return 2
	}
	rb, err := os.ReadFile(out)
	os.Remove(out)
	if err != nil {
		fmt.Fprintf(os.Stderr, "replay wrote no result\n")
		return 2
	}
	var res struct {
		Error       string   `json:"error"`
		Expected    string   `json:"expected"`
		Fingerprint string   `json:"fingerprint"`
		Detail      string   `json:"detail"`
		Log         []string `json:"log_tail"`
	}
	json.Unmarshal(rb, &res)
	if res.Error != "" {
		fmt.Fprintf(os.Stderr, "replay error: %s\n", res.Error)
		return 2
	}
	if verbose {
		for _, l := range res.Log {
			fmt.Println(l)
		}
		fmt.Printf("replay %s: expected %q got %q\n%s\n", path, res.Expected, res.Fingerprint, res.Detail)
	}
	if res.Fingerprint != "" && res.Fingerprint == res.Expected {
		if verbose {
			fmt.Printf("VIOLATION property=%s replay=%s\n", prop, path)
		}
		return 1
	}
	if res.Fingerprint == "" {
		return 0
	}
	return 3
}

func tailStr(s string, n int) string {
	if len(s) > n {
		return "..." + s[len(s)-n:]
	}
	return s
}

func firstLines(s string, n int) string {
	l := strings.Split(s, "\n")
	if len(l) > n {
		l = l[:n]
	}
	return strings.Join(l, "\n")
}

func writeEvidence(prop, tier string, seed uint64, t *workerResult, distinct int, wall float64, nviol int, knownMatched []string, vreport map[string]any, pc propCfg, tc tierCfg) {
	faults := map[string]int{}
	probes := map[string]int{}
	for k, v := range t.Probes {
		if strings.HasPrefix(k, "fault:") {
			faults[strings.TrimPrefix(k, "fault:")] = v
		} else {
			probes[k] = v
		}
	}
	samples := t.Samples
	if len(samples) == 0 {
		samples = []any{"no sample recorded"}
	}
	if len(samples) > 4 {
		samples = samples[:4]
	}
	cov := map[string]any{
		"evaluations":         t.Runs,
		"distinct_nontrivial": distinct,
		"rule": "one evaluation = one simulated run (plan drawn from the plan tape, every interleaving/select/map-order decision drawn from the schedule tape). " +
			"A run is non-trivial when one of the scenario's property-relevant probes fired in it; distinct = number of distinct (scenario, plan tape, schedule signature) hashes among non-trivial runs, " +
			"where the schedule signature hashes the sequence of (site, chosen task) at decisions with >= 2 alternatives.",
		"samples":                  samples,
		"nontrivial_runs":          t.Nontrivial,
		"decisions":                t.Decisions,
		"decisions_with_choice":    t.Choices,
		"simulated_seconds":        t.SimSeconds,
		"runs_per_hour":            float64(t.Runs) / wall * 3600,
		"faults_fired":             faults,
		"probes":                   probes,
		"runs_per_scenario":        t.PerScenario,
		"stranded_goroutine_sites": t.Stranded,
		"known_findings_matched":   knownMatched,
		"workers":                  tc.workers,
		"instrumentation":          vreport,
		"real_components":          "vouch packages under services/ strategies/ util compiled from /repo's working tree through the vinject overlay; BLS/SSZ/wallet libraries real",
		"stub_components":          "beacon nodes, relays, remote signer/accounts, config source, metrics (null monitor), tracing (no-op); main.go wiring is harness code",
	}
	ev := map[string]any{
		"property_id": prop,
		"tier":        tier,
		"seed":        seed,
		"level":       "exploration",
		"coverage":    cov,
		"assumptions": []string{
			"stubs stand in for the real HTTP/gRPC client libraries" + map[bool]string{true: " (except scenario relay-address-history: the real go-builder-client talks to relay stubs over a loopback socket that is used as a synchronous call, DESIGN.md 0.2)", false: ""}[prop == "C09"],
			"exploration: seeded sampling of schedules and faults, not exhaustive",
			"go1.26.8 testing/synctest fake clock; go-deadlock's own detector disabled (modelled locks detect lock misuse)",
		},
		"wall_s":     wall,
		"violations": nviol,
	}
	os.MkdirAll(filepath.Join(root, "evidence"), 0o755)
	b, _ := json.MarshalIndent(ev, "", " ")
	if err := os.WriteFile(filepath.Join(root, "evidence", prop+".json"), b, 0o644); err != nil {
		fatal2("writing evidence: %v", err)
	}
}
