#!/bin/bash
# baseline_check.sh: run /repo's own test suite (default toolchain, as /root/.vp/BASELINE.json does) and check that every
# test of the baseline's stable_pass list passes.  Timing-based packages that fail are re-run alone once.
cd /repo || exit 2
export GOFLAGS=-mod=mod GOPROXY=off GOSUMDB=off
out=/tmp/baseline-$$.json
go test -json -vet=off -count=1 -timeout 25m ./... > $out 2>/dev/null
python3 - $out <<'PY'
import json,sys,subprocess
want=set(json.load(open('/root/.vp/BASELINE.json'))['stable_pass'])
def parse(path):
    res={}
    for l in open(path):
        try: e=json.loads(l)
        except: continue
        if e.get('Test') and e.get('Action') in ('pass','fail','skip'):
            res[e['Package']+'::'+e['Test']]=e['Action']
    return res
res=parse(sys.argv[1])
bad=[t for t in want if res.get(t)!='pass']
pk=sorted(set(t.split('::')[0] for t in bad))
if pk:
    print('re-running alone:',pk)
    o=subprocess.run(['go','test','-json','-vet=off','-count=1','-p','1']+pk,capture_output=True,text=True).stdout
    open('/tmp/baseline-rerun.json','w').write(o)
    r2=parse('/tmp/baseline-rerun.json')
    res.update({k:v for k,v in r2.items() if v=='pass'})
    bad=[t for t in want if res.get(t)!='pass']
print('baseline tests: %d, passing now: %d, not passing: %d'%(len(want),len(want)-len(bad),len(bad)))
for t in sorted(bad)[:40]: print('  NOT PASSING',t,res.get(t))
sys.exit(1 if bad else 0)
PY
rc=$?; rm -f $out; exit $rc
