#!/usr/bin/env python3
# gentables.py: refresh the generated tables of DESIGN.md from seeded/*/meta.json and mutants-matrix.txt
import json,os,re,subprocess
subprocess.run(['python3','/verif/seedmeta.py'],check=True)
rows=['| change | breaks (author\'s words, abridged) | result at quick-tier run count | reported as |','|---|---|---|---|']
for d in sorted(os.listdir('/verif/seeded')):
    f='/verif/seeded/%s/meta.json'%d
    if not os.path.exists(f): continue
    m=json.load(open(f))
    b=re.sub(r'^Clause broken:\s*','',m['breaks'])
    b=b.replace('|','/')[:150]
    rows.append('| %s | %s | %s | %s |'%(d,b,'caught' if m['caught_by_check'] else 'MISSED',', '.join(sorted(set(m['violation_fingerprints'])))[:140].replace('|','/')))
mm=''
if os.path.exists('/verif/mutants-matrix.txt'):
    L=[l.split() for l in open('/verif/mutants-matrix.txt') if l.strip()]
    per={}
    for l in L:
        per.setdefault(l[0],[0,0,[]])
        per[l[0]][1]+=1
        if l[2]=='caught': per[l[0]][0]+=1
        else: per[l[0]][2].append(l[1]+' '+l[2])
    mm='\n\nBuilders\' mutants (`mutants-matrix.txt`): '+'; '.join('%s %d/%d'%(k,v[0],v[1]) for k,v in sorted(per.items()))+'.'
    miss=[k+': '+', '.join(v[2]) for k,v in sorted(per.items()) if v[2]]
    if miss: mm+='  Not caught or stale: '+'; '.join(miss)+'.'
p='/verif/DESIGN.md'
s=open(p).read()
s=re.sub(r'(?s)<!-- seeded-table-begin -->.*?<!-- seeded-table-end -->','<!-- seeded-table-begin -->\n'+'\n'.join(rows)+mm+'\n<!-- seeded-table-end -->',s)
open(p,'w').write(s)
